"""AST pattern matching with metavariables.

Template syntax: ordinary Python where `$X` stands for any expression (bound
consistently: two `$X` must be structurally equal) and `$_` for anything.
`np.` / `numpy.` heads in a template match whatever local alias resolves to numpy
when a resolver (Program, FuncInfo) is given.
"""
import ast
import re

_cache = {}


def parse_template(tpl, mode='eval'):
    key = (tpl, mode)
    if key not in _cache:
        src = re.sub(r'\$([A-Za-z_][A-Za-z0-9_]*)', r'__MV_\1', tpl)
        from .spelling import canonical
        tree = canonical(ast.parse(src, mode=mode))
        _cache[key] = tree.body if mode == 'eval' else tree.body[0]
    return _cache[key]


def _dotted(node):
    parts = []
    while isinstance(node, ast.Attribute):
        parts.append(node.attr)
        node = node.value
    if isinstance(node, ast.Name):
        parts.append(node.id)
        return list(reversed(parts))
    return None


class Binds(dict):
    """dict of metavariable bindings that is truthy even when empty"""
    def __bool__(self):
        return True


class Matcher:
    def __init__(self, prog=None, fn=None):
        self.prog = prog
        self.fn = fn
        self._defs = None

    def _single_defs(self):
        """locals of fn assigned exactly once by `name = <expr>`: a template may look through such a temporary"""
        if self._defs is None:
            self._defs = {}
            if self.fn is not None:
                from .loader import walk_no_nested
                cnt = {}
                for n in walk_no_nested(self.fn.node):
                    if isinstance(n, ast.Name) and isinstance(n.ctx, (ast.Store, ast.Del)):
                        cnt[n.id] = cnt.get(n.id, 0) + 1
                for n in walk_no_nested(self.fn.node):
                    if isinstance(n, ast.Assign) and len(n.targets) == 1 and isinstance(n.targets[0], ast.Name) \
                            and cnt.get(n.targets[0].id) == 1 and n.targets[0].id not in self.fn.all_params:
                        self._defs[n.targets[0].id] = n.value
        return self._defs

    def match(self, node, tpl, binds=None, mode=None):
        """Return dict of bindings or None."""
        if isinstance(tpl, str):
            if mode is None:
                mode = 'exec' if isinstance(node, ast.stmt) else 'eval'
            tpl = parse_template(tpl, mode)
        b = Binds() if binds is None else Binds(binds)
        self._root = node
        self._root_value = getattr(node, 'value', None) if isinstance(node, ast.stmt) else None
        try:
            return b if self._m(node, tpl, b) else None
        finally:
            self._root = None
            self._root_value = None

    def _qual(self, node):
        d = _dotted(node)
        if d is None:
            return None
        if self.prog is not None and self.fn is not None:
            r = self.prog.resolve_expr(self.fn, node)
            if r[0] == 'ext':
                return r[1]
            if r[0] == 'func':
                return 'pkg:' + r[1].name
        return None

    def _m(self, n, t, b):
        if isinstance(t, ast.Name) and t.id.startswith('__MV_'):
            name = t.id[5:]
            if name == '_':
                return True
            if name in b:
                return ast.unparse(b[name]) == ast.unparse(n) if isinstance(b[name], ast.AST) else b[name] == n
            b[name] = n
            return True
        # numpy alias-insensitive dotted names
        if isinstance(t, (ast.Attribute, ast.Name)) and isinstance(n, (ast.Attribute, ast.Name)):
            dt = _dotted(t)
            if dt and dt[0] in ('np', 'numpy') and len(dt) > 1 and not any(x.startswith('__MV_') for x in dt):
                q = self._qual(n)
                if q is not None:
                    return q == 'numpy.' + '.'.join(dt[1:])
        if type(n) is not type(t):
            # transparent temporaries: the code names a sub-expression that the template spells out
            if isinstance(n, ast.Name) and isinstance(n.ctx, ast.Load) and not isinstance(t, ast.Name) and self.fn is not None \
                    and n is not getattr(self, '_root', None) and n is not getattr(self, '_root_value', None):
                d = self._single_defs().get(n.id)
                if d is not None and not getattr(self, '_depth', 0) > 3:
                    self._depth = getattr(self, '_depth', 0) + 1
                    try:
                        return self._m(d, t, b)
                    finally:
                        self._depth -= 1
            return False
        if isinstance(t, ast.Compare) and len(t.ops) == 1 and isinstance(t.ops[0], (ast.Eq, ast.NotEq)) and len(n.ops) == 1 \
                and type(n.ops[0]) is type(t.ops[0]):
            # == and != are symmetric: the operands may appear in either order
            for nl, nr in ((n.left, n.comparators[0]), (n.comparators[0], n.left)):
                trial = Binds(b)
                if self._m(nl, t.left, trial) and self._m(nr, t.comparators[0], trial):
                    b.update(trial)
                    return True
            return False
        if isinstance(t, ast.Constant):
            return type(n.value) is type(t.value) and n.value == t.value or (
                isinstance(n.value, (int, float)) and isinstance(t.value, (int, float))
                and not isinstance(n.value, bool) and not isinstance(t.value, bool) and n.value == t.value)
        for field in t._fields:
            if field in ('ctx', 'lineno', 'col_offset', 'end_lineno', 'end_col_offset', 'type_comment', 'kind'):
                continue
            tv = getattr(t, field, None)
            nv = getattr(n, field, None)
            if isinstance(tv, list):
                if not isinstance(nv, list) or len(tv) != len(nv):
                    return False
                for a, c in zip(nv, tv):
                    if isinstance(c, ast.AST):
                        if not self._m(a, c, b):
                            return False
                    elif a != c:
                        return False
            elif isinstance(tv, ast.AST):
                if not isinstance(nv, ast.AST) or not self._m(nv, tv, b):
                    return False
            else:
                if tv != nv:
                    return False
        return True

    def find(self, root, tpl, mode=None):
        """Yield (node, bindings) for every sub-node of root matching tpl."""
        if isinstance(tpl, str):
            t_eval = None
            try:
                t_eval = parse_template(tpl, 'eval')
            except SyntaxError:
                pass
            t_exec = parse_template(tpl, 'exec')
        else:
            t_eval = t_exec = tpl
        for n in ast.walk(root):
            t = t_exec if isinstance(n, ast.stmt) else t_eval
            if t is None:
                continue
            if isinstance(n, ast.stmt) and isinstance(t, ast.Expr) and not isinstance(n, ast.Expr):
                continue
            b = Binds()
            self._root = n
            self._root_value = getattr(n, 'value', None) if isinstance(n, ast.stmt) else None
            if self._m(n, t, b):
                yield n, b


def same(a, b):
    return ast.dump(a) == ast.dump(b)
