"""AST pattern matching with metavariables.

Template syntax: ordinary Python where `$X` stands for any expression (bound
consistently: two `$X` must be structurally equal) and `$_` for anything.
`np.` / `numpy.` heads in a template match whatever local alias resolves to numpy
when a resolver (Program, FuncInfo) is given.
"""
import ast
import re

_cache = {}


def parse_template(tpl, mode='eval'):
    key = (tpl, mode)
    if key not in _cache:
        src = re.sub(r'\$([A-Za-z_][A-Za-z0-9_]*)', r'__MV_\1', tpl)
        tree = ast.parse(src, mode=mode)
        _cache[key] = tree.body if mode == 'eval' else tree.body[0]
    return _cache[key]


def _dotted(node):
    parts = []
    while isinstance(node, ast.Attribute):
        parts.append(node.attr)
        node = node.value
    if isinstance(node, ast.Name):
        parts.append(node.id)
        return list(reversed(parts))
    return None


class Binds(dict):
    """dict of metavariable bindings that is truthy even when empty"""
    def __bool__(self):
        return True


class Matcher:
    def __init__(self, prog=None, fn=None):
        self.prog = prog
        self.fn = fn

    def match(self, node, tpl, binds=None, mode=None):
        """Return dict of bindings or None."""
        if isinstance(tpl, str):
            if mode is None:
                mode = 'exec' if isinstance(node, ast.stmt) else 'eval'
            tpl = parse_template(tpl, mode)
        b = Binds() if binds is None else Binds(binds)
        return b if self._m(node, tpl, b) else None

    def _qual(self, node):
        d = _dotted(node)
        if d is None:
            return None
        if self.prog is not None and self.fn is not None:
            r = self.prog.resolve_expr(self.fn, node)
            if r[0] == 'ext':
                return r[1]
            if r[0] == 'func':
                return 'pkg:' + r[1].name
        return None

    def _m(self, n, t, b):
        if isinstance(t, ast.Name) and t.id.startswith('__MV_'):
            name = t.id[5:]
            if name == '_':
                return True
            if name in b:
                return ast.unparse(b[name]) == ast.unparse(n) if isinstance(b[name], ast.AST) else b[name] == n
            b[name] = n
            return True
        # numpy alias-insensitive dotted names
        if isinstance(t, (ast.Attribute, ast.Name)) and isinstance(n, (ast.Attribute, ast.Name)):
            dt = _dotted(t)
            if dt and dt[0] in ('np', 'numpy') and len(dt) > 1 and not any(x.startswith('__MV_') for x in dt):
                q = self._qual(n)
                if q is not None:
                    return q == 'numpy.' + '.'.join(dt[1:])
        if type(n) is not type(t):
            return False
        if isinstance(t, ast.Constant):
            return type(n.value) is type(t.value) and n.value == t.value or (
                isinstance(n.value, (int, float)) and isinstance(t.value, (int, float))
                and not isinstance(n.value, bool) and not isinstance(t.value, bool) and n.value == t.value)
        for field in t._fields:
            if field in ('ctx', 'lineno', 'col_offset', 'end_lineno', 'end_col_offset', 'type_comment', 'kind'):
                continue
            tv = getattr(t, field, None)
            nv = getattr(n, field, None)
            if isinstance(tv, list):
                if not isinstance(nv, list) or len(tv) != len(nv):
                    return False
                for a, c in zip(nv, tv):
                    if isinstance(c, ast.AST):
                        if not self._m(a, c, b):
                            return False
                    elif a != c:
                        return False
            elif isinstance(tv, ast.AST):
                if not isinstance(nv, ast.AST) or not self._m(nv, tv, b):
                    return False
            else:
                if tv != nv:
                    return False
        return True

    def find(self, root, tpl, mode=None):
        """Yield (node, bindings) for every sub-node of root matching tpl."""
        if isinstance(tpl, str):
            t_eval = None
            try:
                t_eval = parse_template(tpl, 'eval')
            except SyntaxError:
                pass
            t_exec = parse_template(tpl, 'exec')
        else:
            t_eval = t_exec = tpl
        for n in ast.walk(root):
            t = t_exec if isinstance(n, ast.stmt) else t_eval
            if t is None:
                continue
            if isinstance(n, ast.stmt) and isinstance(t, ast.Expr) and not isinstance(n, ast.Expr):
                continue
            b = Binds()
            if self._m(n, t, b):
                yield n, b


def same(a, b):
    return ast.dump(a) == ast.dump(b)
