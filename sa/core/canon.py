"""Engine G: expression canonicaliser (term rewriting to a sympy normal form).

No execution, no path conditions, no numeric evaluation: names become symbols,
calls/subscripts/attributes become opaque function terms (callee identified by
its resolved qualified name), single-definition locals can be inlined (value
numbering), and sympy's algebraic normal form is used to compare two formulas.
"""
import ast

import sympy as sp

from .astutil import norm


class Canon:
    def __init__(self, prog=None, fn=None, defs=None, commutative_calls=()):
        self.prog = prog
        self.fn = fn
        self.defs = defs or {}        # name -> ast expr to inline
        self._stack = set()
        self.opaque = {}

    def sym(self, name):
        return sp.Symbol(name)

    def _fname(self, func):
        if self.prog is not None and self.fn is not None:
            r = self.prog.resolve_expr(self.fn, func)
            if r[0] == 'ext':
                return r[1].replace('numpy.', 'np.')
            if r[0] == 'func':
                return r[1].name
        return norm(func)

    def term(self, e):
        T = self.term
        if isinstance(e, ast.Constant):
            if isinstance(e.value, bool):
                return sp.true if e.value else sp.false
            if isinstance(e.value, (int, float)):
                return sp.nsimplify(e.value, rational=True)
            return sp.Symbol(repr(e.value))
        if isinstance(e, ast.Name):
            if e.id in self.defs and e.id not in self._stack:
                self._stack.add(e.id)
                try:
                    return T(self.defs[e.id])
                finally:
                    self._stack.discard(e.id)
            return sp.Symbol(e.id)
        if isinstance(e, ast.UnaryOp):
            v = T(e.operand)
            if isinstance(e.op, ast.USub):
                return -v
            if isinstance(e.op, ast.UAdd):
                return v
            if isinstance(e.op, ast.Not):
                return sp.Function('not_')(v)
            return sp.Function('inv_')(v)
        if isinstance(e, ast.BinOp):
            a, b = T(e.left), T(e.right)
            op = e.op
            if isinstance(op, ast.Add):
                return a + b
            if isinstance(op, ast.Sub):
                return a - b
            if isinstance(op, ast.Mult):
                return a * b
            if isinstance(op, ast.Div):
                return a / b
            if isinstance(op, ast.Pow):
                return a ** b
            if isinstance(op, ast.FloorDiv):
                return sp.Function('floordiv')(a, b)
            if isinstance(op, ast.Mod):
                return sp.Function('mod')(a, b)
            if isinstance(op, ast.MatMult):
                return sp.Function('matmul')(a, b)
            return sp.Function(type(op).__name__)(a, b)
        if isinstance(e, ast.Compare) and len(e.ops) == 1:
            a, b = T(e.left), T(e.comparators[0])
            op = e.ops[0]
            if isinstance(op, ast.Lt):
                return sp.Function('lt')(a, b)
            if isinstance(op, ast.Gt):
                return sp.Function('lt')(b, a)
            if isinstance(op, ast.LtE):
                return sp.Function('le')(a, b)
            if isinstance(op, ast.GtE):
                return sp.Function('le')(b, a)
            if isinstance(op, ast.Eq):
                return sp.Function('eq')(*sorted((a, b), key=sp.default_sort_key))
            if isinstance(op, ast.NotEq):
                return sp.Function('ne')(*sorted((a, b), key=sp.default_sort_key))
            return sp.Function(type(op).__name__)(a, b)
        if isinstance(e, ast.BoolOp):
            vals = sorted((T(v) for v in e.values), key=sp.default_sort_key)
            return sp.Function('and_' if isinstance(e.op, ast.And) else 'or_')(*vals)
        if isinstance(e, ast.Call):
            args = [T(a) for a in e.args if not isinstance(a, ast.Starred)]
            kws = sorted((k.arg or '**', T(k.value)) for k in e.keywords)
            for k, v in kws:
                args.append(sp.Function('kw_' + k)(v))
            is_method = False
            if isinstance(e.func, ast.Attribute):
                if self.prog is not None and self.fn is not None:
                    is_method = self.prog.resolve_expr(self.fn, e.func)[0] == 'method'
                else:
                    is_method = not isinstance(e.func.value, ast.Name) or e.func.value.id not in ('np', 'numpy', 'scipy', 'linalg', 'stats')
            if is_method:
                return sp.Function('m_' + e.func.attr)(T(e.func.value), *args)
            return sp.Function(self._fname(e.func))(*args)
        if isinstance(e, ast.Attribute):
            return sp.Function('attr_' + e.attr)(T(e.value))
        if isinstance(e, ast.Subscript):
            idx = e.slice
            parts = idx.elts if isinstance(idx, ast.Tuple) else [idx]
            return sp.Function('idx')(T(e.value), *[self._index(p) for p in parts])
        if isinstance(e, (ast.Tuple, ast.List)):
            return sp.Function('tuple_')(*[T(x) for x in e.elts])
        if isinstance(e, ast.IfExp):
            return sp.Function('ite')(T(e.test), T(e.body), T(e.orelse))
        return sp.Symbol('⟨' + norm(e) + '⟩')

    def _index(self, p):
        if isinstance(p, ast.Slice):
            f = lambda x: self.term(x) if x is not None else sp.Symbol('∅')
            return sp.Function('slice_')(f(p.lower), f(p.upper), f(p.step))
        return self.term(p)

    def equal(self, a, b):
        """a, b: ast expr or sympy terms."""
        ta = a if isinstance(a, sp.Basic) else self.term(a)
        tb = b if isinstance(b, sp.Basic) else self.term(b)
        if ta == tb:
            return True
        try:
            d = sp.simplify(sp.expand(ta - tb))
            return d == 0
        except Exception:
            return False


def parse_expr(src):
    from .spelling import parse
    return parse(src, mode='eval').body
