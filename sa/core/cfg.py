"""Statement-level control-flow graph of one function, with dominators.

Nodes are ast statement objects (simple statements; compound statements are
represented by their header: If/While -> the statement itself stands for the
test, For -> the statement stands for 'next item'), plus ENTRY, EXIT (normal
return / fall off the end) and RAISE (exceptional exit).
Edges carry a label: None, True/False (branch on test), 'iter'/'exhaust' (for),
'exc' (into a handler).
"""
import ast
import networkx as nx

ENTRY = 'ENTRY'
EXIT = 'EXIT'
RAISE = 'RAISE'


def _const_truth(test):
    if isinstance(test, ast.Constant):
        return bool(test.value)
    return None


class CFG:
    def __init__(self, fnode):
        self.fnode = fnode
        self.g = nx.DiGraph()
        self.g.add_node(ENTRY)
        self.g.add_node(EXIT)
        self.g.add_node(RAISE)
        self.returns = []
        self.raises = []
        self._loop_stack = []   # (continue_target, break_collector)
        self._handlers = []     # stack of lists of handler entry statements
        ends = self._block(fnode.body, [(ENTRY, None)])
        for p, lab in ends:
            self._edge(p, EXIT, lab)
        self._dom = None
        self._pdom = None

    # -- construction ------------------------------------------------------
    def _edge(self, a, b, lab=None):
        if self.g.has_edge(a, b):
            labs = self.g[a][b]['labels']
            labs.add(lab)
        else:
            self.g.add_edge(a, b, labels={lab})

    def _connect(self, preds, node):
        self.g.add_node(node)
        for p, lab in preds:
            self._edge(p, node, lab)

    def _block(self, stmts, preds):
        for s in stmts:
            preds = self._stmt(s, preds)
        return preds

    def _maybe_exc(self, s):
        # any statement inside a try body may transfer to each handler
        if self._handlers:
            for h in self._handlers[-1]:
                self._edge(s, h, 'exc')

    def _stmt(self, s, preds):
        if not preds:
            # unreachable code: still add node so lookups work
            self.g.add_node(s)
        if isinstance(s, ast.If):
            self._connect(preds, s)
            self._maybe_exc(s)
            t = _const_truth(s.test)
            out = []
            if t is not False:
                out += self._block(s.body, [(s, True)])
            if t is not True:
                if s.orelse:
                    out += self._block(s.orelse, [(s, False)])
                else:
                    out.append((s, False))
            return out
        if isinstance(s, ast.While):
            self._connect(preds, s)
            self._maybe_exc(s)
            t = _const_truth(s.test)
            breaks = []
            self._loop_stack.append((s, breaks))
            body_end = self._block(s.body, [(s, True)]) if t is not False else []
            self._loop_stack.pop()
            for p, lab in body_end:
                self._edge(p, s, lab)
            out = []
            if t is not True:
                if s.orelse:
                    out += self._block(s.orelse, [(s, False)])
                else:
                    out.append((s, False))
            out += breaks
            return out
        if isinstance(s, (ast.For, ast.AsyncFor)):
            self._connect(preds, s)
            self._maybe_exc(s)
            breaks = []
            self._loop_stack.append((s, breaks))
            body_end = self._block(s.body, [(s, 'iter')])
            self._loop_stack.pop()
            for p, lab in body_end:
                self._edge(p, s, lab)
            out = []
            if s.orelse:
                out += self._block(s.orelse, [(s, 'exhaust')])
            else:
                out.append((s, 'exhaust'))
            out += breaks
            return out
        if isinstance(s, ast.Try):
            handler_entries = []
            # handler entry = a synthetic marker: the ExceptHandler node
            for h in s.handlers:
                self.g.add_node(h)
                handler_entries.append(h)
            self._handlers.append(handler_entries)
            body_end = self._block(s.body, preds)
            self._handlers.pop()
            # predecessors of try may also raise into handlers at the first stmt; handled by _maybe_exc
            out = []
            if s.orelse:
                body_end = self._block(s.orelse, body_end)
            out += body_end
            for h in s.handlers:
                out += self._block(h.body, [(h, None)])
            if s.finalbody:
                out = self._block(s.finalbody, out)
            return out
        if isinstance(s, (ast.With, ast.AsyncWith)):
            self._connect(preds, s)
            self._maybe_exc(s)
            return self._block(s.body, [(s, None)])
        if isinstance(s, ast.Return):
            self._connect(preds, s)
            self._maybe_exc(s)
            self.returns.append(s)
            self._edge(s, EXIT)
            return []
        if isinstance(s, ast.Raise):
            self._connect(preds, s)
            self.raises.append(s)
            if self._handlers:
                for h in self._handlers[-1]:
                    self._edge(s, h, 'exc')
            else:
                self._edge(s, RAISE)
            return []
        if isinstance(s, ast.Break):
            self._connect(preds, s)
            if self._loop_stack:
                self._loop_stack[-1][1].append((s, None))
            return []
        if isinstance(s, ast.Continue):
            self._connect(preds, s)
            if self._loop_stack:
                self._edge(s, self._loop_stack[-1][0])
            return []
        # simple statement (incl. nested FunctionDef/ClassDef treated as a binding)
        self._connect(preds, s)
        self._maybe_exc(s)
        return [(s, None)]

    # -- queries -----------------------------------------------------------
    def reachable(self, node):
        return node in self.g and (node == ENTRY or nx.has_path(self.g, ENTRY, node))

    def _ensure_dom(self):
        if self._dom is None:
            reach = nx.descendants(self.g, ENTRY) | {ENTRY}
            sub = self.g.subgraph(reach)
            idom = dict(nx.immediate_dominators(sub, ENTRY))
            idom.setdefault(ENTRY, ENTRY)   # networkx >= 3.6 omits the root
            self._dom = idom
        return self._dom

    def dominates(self, a, b):
        """a dominates b (every path ENTRY->b passes through a)."""
        idom = self._ensure_dom()
        if b not in idom or a not in idom:
            return False
        n = b
        while True:
            if n == a:
                return True
            p = idom[n]
            if p == n:
                return False
            n = p

    def _ensure_pdom(self, sink=EXIT):
        key = sink
        if self._pdom is None:
            self._pdom = {}
        if key not in self._pdom:
            rev = self.g.reverse(copy=False)
            reach = nx.descendants(rev, sink) | {sink}
            idom = dict(nx.immediate_dominators(rev.subgraph(reach), sink))
            idom.setdefault(sink, sink)
            self._pdom[key] = idom
        return self._pdom[key]

    def postdominates(self, a, b, sink=EXIT):
        """every path b->sink passes through a."""
        idom = self._ensure_pdom(sink)
        if b not in idom or a not in idom:
            return False
        n = b
        while True:
            if n == a:
                return True
            p = idom[n]
            if p == n:
                return False
            n = p

    def path_avoiding(self, src, dst, avoid):
        """True if some path src->dst exists that passes through none of `avoid`
        (src/dst themselves excluded from the avoid test)."""
        avoid = set(avoid) - {src, dst}
        if src not in self.g or dst not in self.g:
            return False
        seen = {src}
        stack = [src]
        while stack:
            n = stack.pop()
            for m in self.g.successors(n):
                if m == dst:
                    return True
                if m in seen or m in avoid:
                    continue
                seen.add(m)
                stack.append(m)
        return False

    def must_pass(self, src, dst, through):
        """Every path src->dst passes through at least one node in `through`."""
        return not self.path_avoiding(src, dst, through)

    def succ(self, n):
        return list(self.g.successors(n))

    def pred(self, n):
        return list(self.g.predecessors(n))

    def edge_labels(self, a, b):
        return self.g[a][b]['labels']

    def statements(self):
        return [n for n in self.g.nodes if isinstance(n, ast.AST)]

    def reaching_defs(self, name, use):
        """Statements that bind the plain name `name` and reach `use` along some path on which the name is not bound again.
        ENTRY is included when `use` can be reached without any binding (parameter, closure, or unbound)."""
        from .astutil import assigned_targets
        defs = []
        for s in self.statements():
            if any(isinstance(t, ast.Name) and t.id == name for t in assigned_targets(s)):
                defs.append(s)
        out = []
        for d in defs + [ENTRY]:
            if d is use and d != ENTRY:
                # a statement reaches itself only around a loop
                if any(self.path_avoiding(m, use, defs) or m is use for m in self.g.successors(d) if m not in defs or m is use):
                    out.append(d)
                continue
            if self.path_avoiding(d, use, [x for x in defs if x is not d]):
                out.append(d)
        return out
