"""Small AST helpers shared by all rules."""
import ast


def norm(node):
    """Normalised source text of a node (formatting-independent)."""
    if isinstance(node, str):
        return node
    try:
        return ast.unparse(node)
    except Exception:
        return ast.dump(node)


def first_line(node):
    return norm(node).split('\n')[0]


def loads(node):
    """Set of Name ids read inside node."""
    return {n.id for n in ast.walk(node) if isinstance(n, ast.Name) and isinstance(n.ctx, ast.Load)}


def all_names(node):
    return {n.id for n in ast.walk(node) if isinstance(n, ast.Name)}


def is_name(node, name=None):
    return isinstance(node, ast.Name) and (name is None or node.id == name)


def const_value(node):
    """Return python constant for Constant / -Constant, else raises ValueError."""
    if isinstance(node, ast.Constant):
        return node.value
    if isinstance(node, ast.UnaryOp) and isinstance(node.op, ast.USub) and isinstance(node.operand, ast.Constant):
        return -node.operand.value
    raise ValueError


def is_const(node, value=None):
    try:
        v = const_value(node)
    except ValueError:
        return False
    return True if value is None else (v == value and type(v) is not bool or v is value)


def base_name(node):
    """Root Name id of a Subscript/Attribute chain (W[a,b].T -> 'W'), else None."""
    while isinstance(node, (ast.Subscript, ast.Attribute, ast.Starred)):
        node = node.value
    return node.id if isinstance(node, ast.Name) else None


def sub_index(node):
    """For Subscript node return list of index element nodes (tuple flattened)."""
    s = node.slice
    if isinstance(s, ast.Tuple):
        return list(s.elts)
    return [s]


class ParentMap:
    """Parent links, enclosing statement, block position and guard stacks for one function."""

    def __init__(self, fnode):
        self.fnode = fnode
        self.parent = {}
        self.block_of = {}   # stmt -> (owner node, field name, list, index)
        for n in ast.walk(fnode):
            for ch in ast.iter_child_nodes(n):
                self.parent[ch] = n
            for field in ('body', 'orelse', 'finalbody', 'handlers'):
                blk = getattr(n, field, None)
                if isinstance(blk, list):
                    for i, s in enumerate(blk):
                        if isinstance(s, ast.stmt):
                            self.block_of[s] = (n, field, blk, i)

    def stmt_of(self, node):
        while node is not None and not isinstance(node, ast.stmt):
            node = self.parent.get(node)
        return node

    def ancestors(self, node):
        node = self.parent.get(node)
        while node is not None:
            yield node
            node = self.parent.get(node)

    def enclosing(self, node, types):
        for a in self.ancestors(node):
            if isinstance(a, types):
                return a
        return None

    def enclosing_func(self, node):
        return self.enclosing(node, (ast.FunctionDef, ast.AsyncFunctionDef, ast.Lambda))

    def guards(self, node):
        """List of (test_expr, polarity, kind, owner) for If/While whose body/orelse encloses node,
        outermost first. polarity True = node is in the branch where test holds."""
        out = []
        child = node
        for a in self.ancestors(node):
            if isinstance(a, (ast.If, ast.While)):
                if _in_block(child, a.body):
                    out.append((a.test, True, 'if' if isinstance(a, ast.If) else 'while', a))
                elif _in_block(child, a.orelse):
                    out.append((a.test, False, 'if' if isinstance(a, ast.If) else 'while', a))
            elif isinstance(a, ast.IfExp):
                if child is a.body:
                    out.append((a.test, True, 'ifexp', a))
                elif child is a.orelse:
                    out.append((a.test, False, 'ifexp', a))
            if isinstance(a, (ast.FunctionDef, ast.AsyncFunctionDef)):
                break
            child = a
        out.reverse()
        return out

    def loops(self, node):
        """Enclosing For/While nodes, innermost first (within the function)."""
        out = []
        child = node
        for a in self.ancestors(node):
            if isinstance(a, (ast.FunctionDef, ast.AsyncFunctionDef)):
                break
            if isinstance(a, (ast.For, ast.While)) and _in_block(child, a.body):
                out.append(a)
            child = a
        return out

    def same_block(self, s1, s2):
        b1 = self.block_of.get(s1)
        b2 = self.block_of.get(s2)
        return b1 is not None and b2 is not None and b1[2] is b2[2]

    def index_in_block(self, s):
        return self.block_of[s][3]

    def precedes_in_block(self, s1, s2):
        return self.same_block(s1, s2) and self.block_of[s1][3] < self.block_of[s2][3]


def _in_block(child, blk):
    return any(child is s for s in blk)


def conjuncts(test, positive=True):
    """Flatten a guard into a list of (atom, polarity) that all hold when
    `test` evaluates to `positive`.  Handles and/or/not with De Morgan.
    Returns None-atoms for parts that are not conjunctive (dropped)."""
    out = []

    def rec(t, pos):
        if isinstance(t, ast.UnaryOp) and isinstance(t.op, ast.Not):
            rec(t.operand, not pos)
        elif isinstance(t, ast.BoolOp) and isinstance(t.op, ast.And) and pos:
            for v in t.values:
                rec(v, True)
        elif isinstance(t, ast.BoolOp) and isinstance(t.op, ast.Or) and not pos:
            for v in t.values:
                rec(v, False)
        elif isinstance(t, ast.Compare) and len(t.ops) == 1 and pos is False:
            # normalise negated comparison
            inv = {ast.Eq: ast.NotEq, ast.NotEq: ast.Eq, ast.Lt: ast.GtE, ast.GtE: ast.Lt,
                   ast.Gt: ast.LtE, ast.LtE: ast.Gt, ast.Is: ast.IsNot, ast.IsNot: ast.Is,
                   ast.In: ast.NotIn, ast.NotIn: ast.In}
            op = inv[type(t.ops[0])]()
            out.append((ast.Compare(left=t.left, ops=[op], comparators=t.comparators), True))
        else:
            out.append((t, pos))
    rec(test, positive)
    return out


def calls_in(node):
    return [n for n in ast.walk(node) if isinstance(n, ast.Call)]


def call_name(call):
    """Dotted text of callee, e.g. 'np.where'."""
    return norm(call.func)


def get_kw(call, name, pos=None):
    for k in call.keywords:
        if k.arg == name:
            return k.value
    if pos is not None and len(call.args) > pos and not any(isinstance(a, ast.Starred) for a in call.args[:pos + 1]):
        return call.args[pos]
    return None


def assigned_targets(stmt):
    """Flat list of target expression nodes of an assignment-like statement."""
    out = []

    def flat(t):
        if isinstance(t, (ast.Tuple, ast.List)):
            for e in t.elts:
                flat(e)
        elif isinstance(t, ast.Starred):
            flat(t.value)
        else:
            out.append(t)
    if isinstance(stmt, ast.Assign):
        for t in stmt.targets:
            flat(t)
    elif isinstance(stmt, (ast.AugAssign, ast.AnnAssign)):
        flat(stmt.target)
    elif isinstance(stmt, (ast.For, ast.AsyncFor)):
        flat(stmt.target)
    elif isinstance(stmt, (ast.With, ast.AsyncWith)):
        for it in stmt.items:
            if it.optional_vars is not None:
                flat(it.optional_vars)
    return out


def _rw(s):
    """(written names, read names) of a simple statement; a subscript/attribute store writes and reads its base"""
    w, r = set(), set()
    for n in ast.walk(s):
        if isinstance(n, ast.Name):
            (w if isinstance(n.ctx, (ast.Store, ast.Del)) else r).add(n.id)
    tg = s.targets if isinstance(s, ast.Assign) else [s.target] if isinstance(s, (ast.AugAssign, ast.AnnAssign)) else []
    for t in tg:
        for tt in (t.elts if isinstance(t, (ast.Tuple, ast.List)) else [t]):
            b = tt
            while isinstance(b, (ast.Subscript, ast.Attribute, ast.Starred)):
                b = b.value
            if isinstance(b, ast.Name):
                w.add(b.id)
                if not isinstance(tt, ast.Name):
                    r.add(b.id)
    if isinstance(s, ast.AugAssign):
        r |= w
    if isinstance(s, ast.Expr) and isinstance(s.value, ast.Call) and isinstance(s.value.func, ast.Attribute):
        b = s.value.func.value
        while isinstance(b, (ast.Subscript, ast.Attribute)):
            b = b.value
        if isinstance(b, ast.Name):
            w.add(b.id)          # method call on an object may mutate it
    return w, r


def independent(a, b):
    wa, ra = _rw(a)
    wb, rb = _rw(b)
    return not (wa & (wb | rb) or wb & ra)


def same_up_to_reordering(actual, expected_src):
    """actual: list of ast statements; expected_src: list of source strings in the reference order.
    True iff the two are equal as multisets of normalised statements and every pair that is *dependent* keeps its reference order."""
    from .spelling import parse
    exp = [parse(t).body[0] for t in expected_src]
    at = [norm(x) for x in actual]
    et = [norm(x) for x in exp]
    if sorted(at) != sorted(et):
        return False
    pos = {}
    for i, t in enumerate(at):
        pos.setdefault(t, []).append(i)
    # map expected index -> actual index (first unused occurrence)
    used = {}
    amap = []
    for t in et:
        k = used.get(t, 0)
        amap.append(pos[t][k])
        used[t] = k + 1
    for i in range(len(exp)):
        for j in range(i + 1, len(exp)):
            if not independent(exp[i], exp[j]) and amap[i] > amap[j]:
                return False
    return True


def cn(src):
    """normalised text of source `src` (statement or expression) in the canonical spelling of sa/core/spelling.py"""
    from .spelling import parse
    t = parse(src)
    b = t.body[0]
    return norm(b.value) if isinstance(b, ast.Expr) else norm(b)


def through_nonempty_guards(body, name):
    """statements of `body`, with `if <index array `name` is non-empty>: X` (canonical form of `if empty: continue`) replaced by X:
    doing nothing for an empty index array is what the unguarded vectorised statements do anyway"""
    tests = {t % {'n': name} for t in ('not %(n)s.size == 0', '%(n)s.size != 0', '%(n)s.size', 'len(%(n)s)', '0 < len(%(n)s)', '0 < %(n)s.size',
                                       'not len(%(n)s) == 0', 'len(%(n)s) != 0', '1 <= len(%(n)s)', '1 <= %(n)s.size')}
    out = []
    for st in body:
        if isinstance(st, ast.If) and not st.orelse and norm(st.test) in tests:
            out.extend(through_nonempty_guards(st.body, name))
        else:
            out.append(st)
    return out


def loop_exits(lp):
    """statements that leave the loop `lp` before its iterable is exhausted: its own `break`s and any `return` inside it"""
    out = []

    def walk(stmts, own):
        for st in stmts:
            if isinstance(st, ast.Break):
                if own:
                    out.append(st)
            elif isinstance(st, ast.Return):
                out.append(st)
            elif isinstance(st, (ast.For, ast.While)):
                walk(st.body, False)
                walk(st.orelse, own)
            elif isinstance(st, (ast.FunctionDef, ast.AsyncFunctionDef, ast.ClassDef)):
                continue
            else:
                for fld in ('body', 'orelse', 'finalbody'):
                    walk(getattr(st, fld, []) or [], own)
                for h in getattr(st, 'handlers', []) or []:
                    walk(h.body, own)
    walk(lp.body, True)
    return out


def where_unpack(s):
    """(target, condition) of `T, = np.where(C)` in its canonical spelling `T = np.flatnonzero(C)` (also the literal unpacking form), else None"""
    if not (isinstance(s, ast.Assign) and len(s.targets) == 1 and isinstance(s.value, ast.Call) and len(s.value.args) == 1 and not s.value.keywords):
        return None
    fn = norm(s.value.func)
    t = s.targets[0]
    if fn in ('np.flatnonzero', 'numpy.flatnonzero') and not isinstance(t, (ast.Tuple, ast.List)):
        return t, s.value.args[0]
    if fn in ('np.where', 'np.nonzero') and isinstance(t, (ast.Tuple, ast.List)) and len(t.elts) == 1:
        return t.elts[0], s.value.args[0]
    return None
