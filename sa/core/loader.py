"""Program loader: parses every module under <root>/bct, builds symbol tables,
resolves names/calls to (module, function) or to an external qualified name.

Nothing here imports or runs bct; it is ast only.
"""
import ast
import hashlib
import os


class AnalysisError(Exception):
    """Anchor vanished / unknown construct: the analysis cannot give a verdict."""


EXTERNAL_ROOTS = ('numpy', 'scipy', 'random', 'time', 'os', 'uuid', 'copy',
                  'itertools', 'math', 'multiprocessing', 'collections',
                  'functools', 'warnings', 'sys', 'duecredit', 'mayavi',
                  'matplotlib', 'networkx', 'operator', 'logging', 'six')


class FuncInfo:
    def __init__(self, module, node, parent=None, cls=None):
        self.module = module
        self.node = node
        self.parent = parent
        self.cls = cls
        self.name = node.name
        self.qualname = (parent.qualname + '.' + node.name) if parent else (
            (cls + '.' + node.name) if cls else node.name)
        a = node.args
        self.params = [x.arg for x in a.posonlyargs + a.args]
        self.kwonly = [x.arg for x in a.kwonlyargs]
        self.vararg = a.vararg.arg if a.vararg else None
        self.kwarg = a.kwarg.arg if a.kwarg else None
        # defaults map
        self.defaults = {}
        pos = a.posonlyargs + a.args
        for p, d in zip(pos[len(pos) - len(a.defaults):], a.defaults):
            self.defaults[p.arg] = d
        for p, d in zip(a.kwonlyargs, a.kw_defaults):
            if d is not None:
                self.defaults[p.arg] = d
        self.nested = {}          # name -> FuncInfo
        self.local_imports = {}   # local name -> ('mod', qual) | ('obj', modname, name)

    @property
    def all_params(self):
        out = list(self.params) + list(self.kwonly)
        if self.vararg:
            out.append(self.vararg)
        if self.kwarg:
            out.append(self.kwarg)
        return out

    @property
    def key(self):
        return self.module.relpath + '::' + self.qualname

    def body_nodes(self):
        """All AST nodes of this function, excluding nested function bodies."""
        return list(walk_no_nested(self.node))

    def __repr__(self):
        return '<Func %s>' % self.key


def walk_no_nested(fnode):
    """Yield nodes under fnode but do not descend into nested defs/lambdas' bodies
    (the nested def node itself is yielded)."""
    stack = list(reversed(fnode.body))
    while stack:
        n = stack.pop()
        yield n
        if isinstance(n, (ast.FunctionDef, ast.AsyncFunctionDef, ast.ClassDef)):
            continue
        stack.extend(reversed(list(ast.iter_child_nodes(n))))


class _Noise(ast.NodeTransformer):
    """Statements without effect on any computed value are dropped before analysis, so that adding or removing them can
    never change a verdict: `pass`, bare constants (stray strings), and calls of print()."""

    def _clean(self, stmts):
        out = []
        for s in stmts:
            if isinstance(s, ast.Pass):
                continue
            if isinstance(s, ast.Expr) and isinstance(s.value, ast.Call) and isinstance(s.value.func, ast.Name) and s.value.func.id == 'print':
                continue
            out.append(s)
        return out

    def generic_visit(self, node):
        super().generic_visit(node)
        for field in ('body', 'orelse', 'finalbody'):
            blk = getattr(node, field, None)
            if isinstance(blk, list) and blk and all(isinstance(x, ast.stmt) for x in blk):
                keep_doc = []
                rest = blk
                if field == 'body' and isinstance(node, (ast.FunctionDef, ast.AsyncFunctionDef, ast.ClassDef, ast.Module)) and blk and \
                        isinstance(blk[0], ast.Expr) and isinstance(blk[0].value, ast.Constant) and isinstance(blk[0].value.value, str):
                    keep_doc, rest = [blk[0]], blk[1:]
                rest = [x for x in self._clean(rest) if not (isinstance(x, ast.Expr) and isinstance(x.value, ast.Constant))]
                new = keep_doc + rest
                if not new:
                    new = [ast.copy_location(ast.Pass(), blk[0])] if field == 'body' else []
                setattr(node, field, new)
        return node


def _strip_noise(tree):
    return ast.fix_missing_locations(_Noise().visit(tree))


class ModuleInfo:
    def __init__(self, root, relpath):
        self.relpath = relpath
        self.path = os.path.join(root, relpath)
        with open(self.path, 'rb') as f:
            raw = f.read()
        self.digest = hashlib.sha256(raw).hexdigest()
        self.source = raw.decode('utf-8')
        self.tree = _strip_noise(ast.parse(self.source, filename=relpath))
        from .spelling import canonical, numpy_alias
        self.tree = canonical(self.tree, numpy_alias(self.tree))
        mod = relpath[:-3].replace('/', '.')
        self.is_pkg = mod.endswith('.__init__')
        if self.is_pkg:
            mod = mod[:-len('.__init__')]
        self.modname = mod
        self.package = mod if self.is_pkg else mod.rsplit('.', 1)[0] if '.' in mod else ''
        self.functions = {}     # qualname -> FuncInfo (incl. nested, methods)
        self.toplevel = {}      # name -> FuncInfo
        self.classes = {}       # name -> ClassDef
        self.imports = {}       # local name -> ('mod', qualname) | ('obj', modname, name)
        self.star_imports = []  # absolute module names
        self.assigned = set()   # module-level assigned names
        self._index()

    def _abs(self, level, module):
        if level == 0:
            return module or ''
        base = self.package.split('.') if self.package else []
        if level > 1:
            base = base[:len(base) - (level - 1)]
        if module:
            base = base + module.split('.')
        return '.'.join(base)

    def _record_import(self, node, table):
        if isinstance(node, ast.Import):
            for al in node.names:
                if al.asname:
                    table[al.asname] = ('mod', al.name)
                else:
                    table[al.name.split('.')[0]] = ('mod', al.name.split('.')[0])
        elif isinstance(node, ast.ImportFrom):
            if node.module == '__future__':
                return
            absmod = self._abs(node.level, node.module)
            for al in node.names:
                if al.name == '*':
                    if table is self.imports:
                        self.star_imports.append(absmod)
                    continue
                table[al.asname or al.name] = ('obj', absmod, al.name)

    def _index_func(self, node, parent=None, cls=None):
        fi = FuncInfo(self, node, parent, cls)
        self.functions[fi.qualname] = fi
        for n in walk_no_nested(node):
            if isinstance(n, (ast.Import, ast.ImportFrom)):
                self._record_import(n, fi.local_imports)
            elif isinstance(n, (ast.FunctionDef, ast.AsyncFunctionDef)):
                sub = self._index_func(n, parent=fi)
                fi.nested[sub.name] = sub
        return fi

    def _index(self):
        for n in self.tree.body:
            self._index_stmt(n)

    def _index_stmt(self, n):
        if isinstance(n, (ast.Import, ast.ImportFrom)):
            self._record_import(n, self.imports)
        elif isinstance(n, (ast.FunctionDef, ast.AsyncFunctionDef)):
            fi = self._index_func(n)
            self.toplevel[fi.name] = fi
        elif isinstance(n, ast.ClassDef):
            self.classes[n.name] = n
            for m in n.body:
                if isinstance(m, (ast.FunctionDef, ast.AsyncFunctionDef)):
                    self._index_func(m, cls=n.name)
        elif isinstance(n, (ast.Assign, ast.AnnAssign, ast.AugAssign)):
            tg = n.targets if isinstance(n, ast.Assign) else [n.target]
            for t in tg:
                for x in ast.walk(t):
                    if isinstance(x, ast.Name):
                        self.assigned.add(x.id)
        elif isinstance(n, (ast.If, ast.Try)):
            for sub in ast.iter_child_nodes(n):
                if isinstance(sub, ast.stmt):
                    self._index_stmt(sub)
                elif isinstance(sub, ast.ExceptHandler):
                    for s2 in sub.body:
                        self._index_stmt(s2)


class Program:
    def __init__(self, root):
        self.root = root
        self.modules = {}
        pk = os.path.join(root, 'bct')
        if not os.path.isdir(pk):
            raise AnalysisError('package directory %s not found' % pk)
        for dp, dn, fn in os.walk(pk):
            dn[:] = [d for d in dn if d != '__pycache__']
            for f in sorted(fn):
                if f.endswith('.py'):
                    rel = os.path.relpath(os.path.join(dp, f), root)
                    mi = ModuleInfo(root, rel)
                    self.modules[mi.modname] = mi
        self._export_cache = {}

    # ---- lookup ----------------------------------------------------------
    def module(self, modname):
        if modname not in self.modules:
            raise AnalysisError('module %s not found' % modname)
        return self.modules[modname]

    def func(self, modname, qualname):
        m = self.module(modname)
        if qualname not in m.functions:
            raise AnalysisError('anchor function %s.%s not found' % (modname, qualname))
        return m.functions[qualname]

    def find_func(self, name):
        """Find a top-level function by bare name across the package (unique)."""
        hits = [m.toplevel[name] for m in self.modules.values() if name in m.toplevel]
        if not hits:
            raise AnalysisError('anchor function %s not found in package' % name)
        return hits

    def all_functions(self):
        for m in self.modules.values():
            for f in m.functions.values():
                yield f

    def digest(self):
        h = hashlib.sha256()
        for k in sorted(self.modules):
            h.update(self.modules[k].digest.encode())
        return h.hexdigest()

    # ---- exports ---------------------------------------------------------
    def exports(self, modname, _seen=None):
        """name -> ('func', FuncInfo) | ('ext', qual) | ('class', modname, name) visible
        as attributes of module `modname` (for `from m import x` / star import)."""
        if modname in self._export_cache:
            return self._export_cache[modname]
        _seen = _seen or set()
        if modname in _seen or modname not in self.modules:
            return {}
        _seen = _seen | {modname}
        m = self.modules[modname]
        out = {}
        for sm in m.star_imports:
            for k, v in self.exports(sm, _seen).items():
                if not k.startswith('_'):
                    out[k] = v
        for k, v in m.imports.items():
            r = self._resolve_import(v, _seen)
            if r is not None:
                out[k] = r
        for k in m.classes:
            out[k] = ('class', modname, k)
        for k, f in m.toplevel.items():
            out[k] = ('func', f)
        self._export_cache[modname] = out
        return out

    def _resolve_import(self, v, _seen=None):
        if v[0] == 'mod':
            q = v[1]
            if q in self.modules:
                return ('pkgmod', q)
            return ('ext', q)
        _, absmod, name = v
        if absmod in self.modules:
            sub = absmod + '.' + name
            if sub in self.modules:
                return ('pkgmod', sub)
            ex = self.exports(absmod, _seen)
            if name in ex:
                return ex[name]
            return ('unknown', absmod + '.' + name)
        return ('ext', absmod + '.' + name)

    def public_api(self):
        """Functions reachable as bct.<name> without leading underscore."""
        out = {}
        for k, v in self.exports('bct').items():
            if v[0] == 'func' and not k.startswith('_'):
                out[k] = v[1]
        return out

    # ---- name resolution inside a function ---------------------------------
    def resolve_name(self, fn, name):
        """Resolve a bare Name used inside function `fn` (FuncInfo) or module
        (ModuleInfo) to: ('func', FuncInfo) | ('ext', qual) | ('pkgmod', modname) |
        ('class', ...) | ('local', name) | ('builtin', name) | ('unknown', name)."""
        f = fn if isinstance(fn, FuncInfo) else None
        mod = fn.module if f else fn
        while f is not None:
            if name in f.nested:
                return ('func', f.nested[name])
            if name in f.local_imports:
                return self._resolve_import(f.local_imports[name])
            if name in f.all_params or name in local_stores(f):
                return ('local', name)
            f = f.parent
        if name in mod.toplevel:
            return ('func', mod.toplevel[name])
        if name in mod.classes:
            return ('class', mod.modname, name)
        if name in mod.imports:
            return self._resolve_import(mod.imports[name])
        for sm in mod.star_imports:
            ex = self.exports(sm)
            if name in ex:
                return ex[name]
        if name in mod.assigned:
            return ('global', name)
        import builtins
        if hasattr(builtins, name):
            return ('builtin', name)
        return ('unknown', name)

    def resolve_expr(self, fn, expr):
        """Resolve a callee expression (Name or dotted Attribute chain)."""
        if isinstance(expr, ast.Name):
            return self.resolve_name(fn, expr.id)
        if isinstance(expr, ast.Attribute):
            chain = []
            e = expr
            while isinstance(e, ast.Attribute):
                chain.append(e.attr)
                e = e.value
            chain.reverse()
            if isinstance(e, ast.Name):
                base = self.resolve_name(fn, e.id)
                if base[0] == 'ext':
                    return ('ext', base[1] + '.' + '.'.join(chain))
                if base[0] == 'pkgmod':
                    cur = base[1]
                    for i, a in enumerate(chain):
                        ex = self.exports(cur)
                        if cur + '.' + a in self.modules:
                            cur = cur + '.' + a
                            continue
                        if a in ex:
                            r = ex[a]
                            if i == len(chain) - 1:
                                return r
                            if r[0] == 'ext':
                                return ('ext', r[1] + '.' + '.'.join(chain[i + 1:]))
                            if r[0] == 'pkgmod':
                                cur = r[1]
                                continue
                        return ('unknown', cur + '.' + '.'.join(chain[i:]))
                    return ('pkgmod', cur)
                if base[0] in ('local', 'global', 'unknown', 'builtin', 'func', 'class'):
                    return ('method', e.id, tuple(chain), base)
            return ('method', None, tuple(chain), None)
        return ('dynamic', ast.dump(expr)[:60])


_local_store_cache = {}      # kept for callers that clear it; the cache itself lives on the FuncInfo objects


def local_stores(f):
    """Names bound (assigned / loop targets / with / except) in function f's own body."""
    c = getattr(f, '_local_stores', None)
    if c is not None and c[0] is f.node and c[1] == _generation[0]:
        return c[2]
    s = set()
    for n in walk_no_nested(f.node):
        if isinstance(n, ast.Name) and isinstance(n.ctx, (ast.Store, ast.Del)):
            s.add(n.id)
        elif isinstance(n, ast.ExceptHandler) and n.name:
            s.add(n.name)
    for n in walk_no_nested(f.node):
        if isinstance(n, (ast.Global, ast.Nonlocal)):
            s -= set(n.names)
    f._local_stores = (f.node, _generation[0], s)
    return s


_generation = [0]


def invalidate_caches():
    """call after the AST was modified in place (alpha-normalisation)"""
    _generation[0] += 1
