"""Canonical spelling of equivalent NumPy / Python idioms.

Rules, templates and reference snippets are all written in one spelling; the analysed source, the templates and the
references are brought to that spelling when they are parsed, so that replacing an idiom by an equivalent one
(`X.sum(axis=0)` for `np.sum(X, axis=0)`, `A @ B` for `np.dot(A, B)`, `X.shape[0]` for `len(X)`, ...) can never
change a verdict.  Every rewrite below is an identity on values for ndarray operands (the only receivers the
package uses these methods on); none changes which object is mutated or aliased:

  A @ B                          -> np.dot(A, B)
  X.m(...)   m in REDUCERS|dot   -> np.m(X, ...)
  np.m(X, k)                     -> np.m(X, axis=k)          (m in REDUCERS)
  X, = np.where(c)               -> X = np.flatnonzero(c)      (unpacking a 1-tuple means c is one-dimensional)
  np.where(c.flat)[0], np.where(c.ravel())[0] -> np.flatnonzero(c)
  np.flatnonzero(c).size, len(np.flatnonzero(c)), np.size(np.flatnonzero(c)), np.size(np.where(c.flat)) -> np.count_nonzero(c)
  np.nonzero(c), c.nonzero()     -> np.where(c)
  X.shape[0], np.shape(X)[0], np.size(X, 0), np.size(X, axis=0) -> len(X)
  T[i] = T[i] op E, T[i] = E + T[i]   -> T[i] op= E       (subscript targets only: same element store either way)
  np.zeros((n,)) / ones / empty  -> np.zeros(n)
  np.transpose(X), X.transpose() -> X.T
  np.multiply/add/subtract/divide/power(a, b) -> a * b, a + b, a - b, a / b, a ** b
  a > b, a >= b                  -> b < a, b <= a            (single comparisons; operand evaluation has no side effects here)
  not a and not b                -> not (a or b)   (De Morgan, negation outside)
  np.triu(X, k=1)                -> np.triu(X, 1)
  0 == x, np.inf != x            -> x == 0, x != np.inf;  b == a -> a == b (operands of == / != in text order)
  dtype='float' / astype('int')  -> dtype=float / astype(int);  X.astype(T) -> np.array(X, dtype=T)   (both copy)
  np.logical_not(a == b)         -> a != b (and vice versa)
  ~m, a & b, a * b, a | b, m &= c -> np.logical_not / logical_and / logical_or when the operands evidently hold booleans
  X[np.where(mask)]              -> X[mask];   S[V] = False -> S[V] = 0 for an evidently boolean S
  np.tile(<literal>, shape)      -> np.full(shape, <literal>);  np.eye(n, dtype=bool) -> 0 < np.eye(n);  np.arange(0, n) -> np.arange(n)
  np.repeat(np.atleast_2d(np.arange(..)), N, 0) -> np.tile(np.arange(..), (N, 1));  np.triu_indices(n, k) -> np.where(np.triu(np.ones((n, n)), k))
"""
import ast

REDUCERS = {'sum', 'any', 'all', 'max', 'min', 'mean', 'std', 'prod', 'cumsum', 'trace', 'argsort', 'argmax', 'argmin'}
_NOT_ARRAYS = {'rng', 'random', 'math', 'scipy', 'sp', 'linalg', 'os', 'sys', 'self', 'np', 'numpy', 'due', 'warnings'}
_BINFUN = {'multiply': ast.Mult, 'add': ast.Add, 'subtract': ast.Sub, 'divide': ast.Div, 'true_divide': ast.Div, 'power': ast.Pow}


def numpy_alias(tree):
    for n in ast.walk(tree):
        if isinstance(n, ast.Import):
            for a in n.names:
                if a.name == 'numpy':
                    return a.asname or 'numpy'
    return None


def _is_literal(e):
    if isinstance(e, ast.Constant):
        return True
    if isinstance(e, ast.UnaryOp) and isinstance(e.op, ast.USub) and isinstance(e.operand, ast.Constant):
        return True
    return isinstance(e, ast.Attribute) and e.attr in ('inf', 'nan') and isinstance(e.value, ast.Name)


_ARRAY_MAKERS = {'stack', 'concatenate', 'hstack', 'vstack', 'array', 'asarray', 'zeros', 'ones', 'empty', 'full', 'eye', 'dot', 'outer', 'diag',
                 'triu', 'tril', 'abs', 'exp', 'log', 'sqrt', 'where', 'logical_and', 'logical_or', 'logical_not', 'minimum', 'maximum',
                 'sum', 'cumsum', 'repeat', 'tile', 'arange', 'isnan', 'isinf', 'isfinite', 'real', 'square', 'sort', 'argsort', 'unique'}


def _root(e):
    if isinstance(e, (ast.BinOp, ast.UnaryOp, ast.Compare)):
        return '<expr>'           # a parenthesised arithmetic / comparison expression: an array, never a module
    if isinstance(e, ast.Call) and isinstance(e.func, ast.Attribute) and isinstance(e.func.value, ast.Name) and e.func.value.id in ('np', 'numpy') \
            and e.func.attr in _ARRAY_MAKERS:
        return '<array>'          # np.stack(...).min(axis=2): the receiver is an array built by NumPy
    while isinstance(e, (ast.Attribute, ast.Subscript, ast.Call)):
        e = e.func if isinstance(e, ast.Call) else e.value
    return e.id if isinstance(e, ast.Name) else None


_BOOLFUN = {'isnan', 'isinf', 'isfinite', 'logical_not', 'logical_and', 'logical_or', 'logical_xor', 'isclose', 'isin', 'in1d'}


class _Spell(ast.NodeTransformer):
    def __init__(self, np_alias):
        self.np = np_alias
        self.boolnames = set()

    # -- which names evidently hold booleans (arrays or scalars) inside the current function
    def _is_bool(self, e):
        if isinstance(e, ast.Compare):
            return True
        if isinstance(e, ast.Constant) and isinstance(e.value, bool):
            return True
        if isinstance(e, ast.Name):
            return e.id in self.boolnames
        if isinstance(e, ast.UnaryOp) and isinstance(e.op, (ast.Invert, ast.Not)):
            return isinstance(e.op, ast.Not) or self._is_bool(e.operand)
        if isinstance(e, ast.BinOp) and isinstance(e.op, (ast.BitAnd, ast.BitOr, ast.BitXor, ast.Mult)):
            return self._is_bool(e.left) and self._is_bool(e.right)
        if isinstance(e, ast.Subscript):
            return self._is_bool(e.value)
        if isinstance(e, ast.Attribute) and e.attr == 'T':
            return self._is_bool(e.value)
        if isinstance(e, ast.Call):
            f = e.func
            if self._is_np(f) and f.attr in _BOOLFUN:
                return True
            if self._is_np(f) and f.attr in ('ones', 'zeros', 'eye', 'empty', 'array', 'full', 'ones_like', 'zeros_like', 'asarray'):
                return any(k.arg == 'dtype' and isinstance(k.value, ast.Name) and k.value.id == 'bool' for k in e.keywords)
            if isinstance(f, ast.Attribute) and f.attr == 'copy' and not e.args:
                return self._is_bool(f.value)
            if isinstance(f, ast.Attribute) and f.attr == 'astype' and len(e.args) == 1 and isinstance(e.args[0], ast.Name) and e.args[0].id == 'bool':
                return True
        return False

    def _infer_bool(self, fn):
        defs = {}
        for x in ast.walk(fn):
            if isinstance(x, ast.Assign):
                for t in x.targets:
                    if isinstance(t, ast.Name):
                        defs.setdefault(t.id, []).append(x.value)
                    elif isinstance(t, (ast.Tuple, ast.List)):
                        for e in t.elts:
                            if isinstance(e, ast.Name):
                                defs.setdefault(e.id, []).append(None)
            elif isinstance(x, ast.AugAssign) and isinstance(x.target, ast.Name):
                defs.setdefault(x.target.id, []).append(x.value if isinstance(x.op, (ast.BitAnd, ast.BitOr)) else None)
            elif isinstance(x, (ast.For, ast.AsyncFor)):
                for e in ast.walk(x.target):
                    if isinstance(e, ast.Name):
                        defs.setdefault(e.id, []).append(None)
            elif isinstance(x, ast.arg):
                defs.setdefault(x.arg, []).append(None)
        names = set()
        for _ in range(3):
            self.boolnames = names
            new = {k for k, vs in defs.items() if vs and all(v is not None and self._is_bool(v) for v in vs)}
            if new == names:
                break
            names = new
        self.boolnames = names

    def visit_FunctionDef(self, n):
        saved = self.boolnames
        self._infer_bool(n)
        self.generic_visit(n)
        self.boolnames = saved
        return n

    def visit_UnaryOp(self, n):
        self.generic_visit(n)
        if isinstance(n.op, ast.Invert) and self._is_bool(n.operand):
            return self.visit_Call(ast.copy_location(ast.Call(func=self._npattr('logical_not'), args=[n.operand], keywords=[]), n))
        return n

    def _npattr(self, name):
        return ast.Attribute(value=ast.Name(id=self.np, ctx=ast.Load()), attr=name, ctx=ast.Load())

    def _is_np(self, f, name=None):
        return isinstance(f, ast.Attribute) and isinstance(f.value, ast.Name) and f.value.id == self.np and (name is None or f.attr == name)

    def visit_BinOp(self, n):
        self.generic_visit(n)
        if isinstance(n.op, ast.MatMult):
            return ast.copy_location(ast.Call(func=self._npattr('dot'), args=[n.left, n.right], keywords=[]), n)
        if isinstance(n.op, (ast.BitAnd, ast.BitOr, ast.Mult)) and self._is_bool(n.left) and self._is_bool(n.right):
            fn = 'logical_or' if isinstance(n.op, ast.BitOr) else 'logical_and'     # bool * bool is the conjunction
            return ast.copy_location(ast.Call(func=self._npattr(fn), args=[n.left, n.right], keywords=[]), n)
        return n

    def visit_AugAssign(self, n):
        self.generic_visit(n)
        if isinstance(n.op, (ast.BitAnd, ast.BitOr)) and isinstance(n.target, ast.Name) and self._is_bool(n.target) and self._is_bool(n.value):
            fn = 'logical_and' if isinstance(n.op, ast.BitAnd) else 'logical_or'
            return ast.copy_location(ast.Assign(targets=[ast.Name(id=n.target.id, ctx=ast.Store())], value=ast.Call(
                func=self._npattr(fn), args=[ast.Name(id=n.target.id, ctx=ast.Load()), n.value], keywords=[])), n)
        return n

    def visit_Call(self, n):
        self.generic_visit(n)
        f = n.func
        star = any(isinstance(a, ast.Starred) for a in n.args) or any(k.arg is None for k in n.keywords)
        # method -> function
        if isinstance(f, ast.Attribute) and not self._is_np(f) and (f.attr in REDUCERS or f.attr == 'dot') and not star:
            r = _root(f.value)
            if r is not None and r not in _NOT_ARRAYS and not (isinstance(f.value, ast.Call) and r in ('get_rng',)):
                n = ast.copy_location(ast.Call(func=self._npattr(f.attr), args=[f.value] + list(n.args), keywords=list(n.keywords)), n)
                f = n.func
        if isinstance(f, ast.Attribute) and not self._is_np(f) and f.attr == 'nonzero' and not n.args and not n.keywords:
            r = _root(f.value)
            if r is not None and r not in _NOT_ARRAYS:
                return ast.copy_location(ast.Call(func=self._npattr('where'), args=[f.value], keywords=[]), n)
        if isinstance(f, ast.Attribute) and not self._is_np(f) and f.attr == 'transpose' and not n.args and not n.keywords:
            r = _root(f.value)
            if r is not None and r not in _NOT_ARRAYS:
                return ast.copy_location(ast.Attribute(value=f.value, attr='T', ctx=ast.Load()), n)
        if isinstance(f, ast.Attribute) and f.attr == 'astype' and len(n.args) == 1 and isinstance(n.args[0], ast.Constant) \
                and n.args[0].value in ('int', 'float', 'bool'):
            n.args = [ast.copy_location(ast.Name(id=n.args[0].value, ctx=ast.Load()), n.args[0])]
        if isinstance(f, ast.Attribute) and not self._is_np(f) and f.attr == 'astype' and len(n.args) == 1 and not n.keywords and not star:
            r = _root(f.value)
            if r is not None and r not in _NOT_ARRAYS:
                return ast.copy_location(ast.Call(func=self._npattr('array'), args=[f.value], keywords=[ast.keyword(arg='dtype', value=n.args[0])]), n)
        if isinstance(f, ast.Name) and f.id == 'len' and len(n.args) == 1 and not n.keywords and isinstance(n.args[0], ast.Call) \
                and self._is_np(n.args[0].func, 'flatnonzero') and len(n.args[0].args) == 1:
            return ast.copy_location(ast.Call(func=self._npattr('count_nonzero'), args=n.args[0].args, keywords=[]), n)      # len(np.flatnonzero(c))
        if not self._is_np(f):
            return n
        a = f.attr
        if a == 'size' and len(n.args) == 1 and not n.keywords and isinstance(n.args[0], ast.Call) and len(n.args[0].args) == 1 and not n.args[0].keywords:
            inner = n.args[0]
            if self._is_np(inner.func, 'flatnonzero'):
                return ast.copy_location(ast.Call(func=self._npattr('count_nonzero'), args=inner.args, keywords=[]), n)
            if self._is_np(inner.func, 'where') and self._flat_arg(inner.args[0]) is not None:
                return ast.copy_location(ast.Call(func=self._npattr('count_nonzero'), args=[self._flat_arg(inner.args[0])], keywords=[]), n)
        if a == 'logical_not' and len(n.args) == 1 and not n.keywords and isinstance(n.args[0], ast.Compare) and len(n.args[0].ops) == 1 \
                and isinstance(n.args[0].ops[0], (ast.Eq, ast.NotEq)):
            c = n.args[0]
            op = ast.NotEq() if isinstance(c.ops[0], ast.Eq) else ast.Eq()
            return ast.copy_location(ast.Compare(left=c.left, ops=[op], comparators=c.comparators), n)
        if a == 'tile' and len(n.args) == 2 and not n.keywords and _is_literal(n.args[0]):
            n = ast.copy_location(ast.Call(func=self._npattr('full'), args=[n.args[1], n.args[0]], keywords=[]), n)
            a = 'full'
        if a == 'full' and n.args and isinstance(n.args[0], ast.Tuple) and len(n.args[0].elts) == 1 and not isinstance(n.args[0].elts[0], ast.Starred):
            n.args = [n.args[0].elts[0]] + list(n.args[1:])
        if a == 'eye' and len(n.args) == 1 and len(n.keywords) == 1 and n.keywords[0].arg == 'dtype' and isinstance(n.keywords[0].value, ast.Name) \
                and n.keywords[0].value.id == 'bool':
            return ast.copy_location(ast.Compare(left=ast.Constant(value=0), ops=[ast.Lt()], comparators=[
                ast.Call(func=self._npattr('eye'), args=n.args, keywords=[])]), n)
        if a == 'arange' and len(n.args) == 2 and not n.keywords and isinstance(n.args[0], ast.Constant) and n.args[0].value == 0 \
                and type(n.args[0].value) is int:
            n.args = [n.args[1]]
        if a == 'repeat' and not star and len(n.args) == 2 and len(n.keywords) == 1 and n.keywords[0].arg == 'axis':
            n.args = list(n.args) + [n.keywords[0].value]      # (back to positional for the next rule; re-keyworded below)
            n.keywords = []
        if a == 'repeat' and not star and len(n.args) == 3 and not n.keywords and isinstance(n.args[2], ast.Constant) and n.args[2].value == 0 \
                and isinstance(n.args[0], ast.Call) and self._is_np(n.args[0].func, 'atleast_2d') and len(n.args[0].args) == 1 \
                and isinstance(n.args[0].args[0], ast.Call) and self._is_np(n.args[0].args[0].func, 'arange'):
            return ast.copy_location(ast.Call(func=self._npattr('tile'), args=[n.args[0].args[0], ast.Tuple(elts=[n.args[1], ast.Constant(value=1)], ctx=ast.Load())],
                                              keywords=[]), n)
        if a == 'triu_indices' and len(n.args) == 2 and not n.keywords:
            ones = ast.Call(func=self._npattr('ones'), args=[ast.Tuple(elts=[n.args[0], n.args[0]], ctx=ast.Load())], keywords=[])
            tri = ast.Call(func=self._npattr('triu'), args=[ones, n.args[1]], keywords=[])
            return ast.copy_location(ast.Call(func=self._npattr('where'), args=[tri], keywords=[]), n)
        if a in ('stack', 'concatenate', 'hstack', 'vstack', 'column_stack') and n.args and isinstance(n.args[0], ast.Tuple):
            n.args = [ast.copy_location(ast.List(elts=n.args[0].elts, ctx=ast.Load()), n.args[0])] + list(n.args[1:])
        if a in ('repeat', 'stack', 'concatenate', 'delete', 'append', 'take') and not star and not any(k.arg == 'axis' for k in n.keywords) \
                and len(n.args) == {'repeat': 3, 'stack': 2, 'concatenate': 2, 'delete': 3, 'append': 3, 'take': 3}[a]:
            n.keywords = list(n.keywords) + [ast.keyword(arg='axis', value=n.args[-1])]
            n.args = n.args[:-1]
        if a == 'absolute':
            n.func = self._npattr('abs')
            a = 'abs'
        if a in ('triu', 'tril') and len(n.args) == 1 and len(n.keywords) == 1 and n.keywords[0].arg == 'k':
            n.args = list(n.args) + [n.keywords[0].value]
            n.keywords = []
        if a in REDUCERS and len(n.args) == 2 and not star and not any(k.arg == 'axis' for k in n.keywords):
            n.keywords = [ast.keyword(arg='axis', value=n.args[1])] + list(n.keywords)
            n.args = [n.args[0]]
        elif a == 'nonzero' and len(n.args) == 1 and not n.keywords:
            n.func = self._npattr('where')
        elif a == 'size' and not star and ((len(n.args) == 2 and isinstance(n.args[1], ast.Constant) and n.args[1].value == 0 and not n.keywords) or (
                len(n.args) == 1 and len(n.keywords) == 1 and n.keywords[0].arg == 'axis' and isinstance(n.keywords[0].value, ast.Constant)
                and n.keywords[0].value.value == 0)):
            return ast.copy_location(ast.Call(func=ast.Name(id='len', ctx=ast.Load()), args=[n.args[0]], keywords=[]), n)
        elif a in ('zeros', 'ones', 'empty') and n.args and isinstance(n.args[0], ast.Tuple) and len(n.args[0].elts) == 1 \
                and not isinstance(n.args[0].elts[0], ast.Starred):
            n.args = [n.args[0].elts[0]] + list(n.args[1:])
        elif a == 'transpose' and len(n.args) == 1 and not n.keywords and not star:
            return ast.copy_location(ast.Attribute(value=n.args[0], attr='T', ctx=ast.Load()), n)
        elif a in _BINFUN and len(n.args) == 2 and not n.keywords and not star:
            return ast.copy_location(ast.BinOp(left=n.args[0], op=_BINFUN[a](), right=n.args[1]), n)
        return n

    def _flat_arg(self, e):
        """X for X.flat / X.ravel() / X.flatten() / np.ravel(X), else None"""
        if isinstance(e, ast.Attribute) and e.attr == 'flat':
            return e.value
        if isinstance(e, ast.Call) and isinstance(e.func, ast.Attribute) and e.func.attr in ('ravel', 'flatten') and not e.args and not e.keywords \
                and not self._is_np(e.func):
            return e.func.value
        if isinstance(e, ast.Call) and self._is_np(e.func, 'ravel') and len(e.args) == 1 and not e.keywords:
            return e.args[0]
        return None

    def visit_Attribute(self, n):
        self.generic_visit(n)
        # np.flatnonzero(c).size  ->  np.count_nonzero(c)
        if n.attr == 'size' and isinstance(n.ctx, ast.Load) and isinstance(n.value, ast.Call) and self._is_np(n.value.func, 'flatnonzero') \
                and len(n.value.args) == 1 and not n.value.keywords:
            return ast.copy_location(ast.Call(func=self._npattr('count_nonzero'), args=n.value.args, keywords=[]), n)
        return n

    def visit_Subscript(self, n):
        self.generic_visit(n)
        if isinstance(n.ctx, ast.Load) and isinstance(n.slice, ast.Constant) and n.slice.value == 0 and type(n.slice.value) is int \
                and isinstance(n.value, ast.Call) and self._is_np(n.value.func, 'where') and len(n.value.args) == 1 and not n.value.keywords:
            x = self._flat_arg(n.value.args[0])
            if x is not None:
                return ast.copy_location(ast.Call(func=self._npattr('flatnonzero'), args=[x], keywords=[]), n)
        if isinstance(n.slice, ast.Call) and self._is_np(n.slice.func, 'where') and len(n.slice.args) == 1 and not n.slice.keywords \
                and self._is_bool(n.slice.args[0]):
            n.slice = n.slice.args[0]           # X[np.where(mask)] is X[mask], for loads and stores alike
        if isinstance(n.ctx, ast.Load) and isinstance(n.slice, ast.Constant) and n.slice.value == 0 and type(n.slice.value) is int:
            v = n.value
            if isinstance(v, ast.Attribute) and v.attr == 'shape':
                r = _root(v.value)
                if r is not None and r not in _NOT_ARRAYS:
                    return ast.copy_location(ast.Call(func=ast.Name(id='len', ctx=ast.Load()), args=[v.value], keywords=[]), n)
            if isinstance(v, ast.Call) and self._is_np(v.func, 'shape') and len(v.args) == 1 and not v.keywords:
                return ast.copy_location(ast.Call(func=ast.Name(id='len', ctx=ast.Load()), args=[v.args[0]], keywords=[]), n)
        return n

    def visit_BoolOp(self, n):
        self.generic_visit(n)
        # De Morgan, negation outside: `not a and not b` -> `not (a or b)`, `not a or not b` -> `not (a and b)`
        if len(n.values) >= 2 and all(isinstance(v, ast.UnaryOp) and isinstance(v.op, ast.Not) for v in n.values):
            inner = ast.BoolOp(op=ast.Or() if isinstance(n.op, ast.And) else ast.And(), values=[v.operand for v in n.values])
            return ast.copy_location(ast.UnaryOp(op=ast.Not(), operand=ast.copy_location(inner, n)), n)
        return n

    def visit_Compare(self, n):
        self.generic_visit(n)
        if len(n.ops) == 1:
            op, l, r = n.ops[0], n.left, n.comparators[0]
            if isinstance(op, ast.Gt):
                return ast.copy_location(ast.Compare(left=r, ops=[ast.Lt()], comparators=[l]), n)
            if isinstance(op, ast.GtE):
                return ast.copy_location(ast.Compare(left=r, ops=[ast.LtE()], comparators=[l]), n)
            if isinstance(op, (ast.Eq, ast.NotEq)) and _is_literal(l) and not _is_literal(r):
                return ast.copy_location(ast.Compare(left=r, ops=[op], comparators=[l]), n)
            if isinstance(op, (ast.Eq, ast.NotEq)) and not _is_literal(l) and not _is_literal(r) and ast.unparse(r) < ast.unparse(l):
                return ast.copy_location(ast.Compare(left=r, ops=[op], comparators=[l]), n)      # symmetric: operands in text order
        return n

    def visit_keyword(self, n):
        self.generic_visit(n)
        if n.arg == 'dtype' and isinstance(n.value, ast.Constant) and n.value.value in ('int', 'float', 'bool'):
            n.value = ast.copy_location(ast.Name(id=n.value.value, ctx=ast.Load()), n.value)
        return n

    def visit_Assign(self, n):
        self.generic_visit(n)
        if len(n.targets) == 1 and isinstance(n.targets[0], (ast.Tuple, ast.List)) and len(n.targets[0].elts) == 1 \
                and not isinstance(n.targets[0].elts[0], ast.Starred) and isinstance(n.value, ast.Call) and self._is_np(n.value.func, 'where') \
                and len(n.value.args) == 1 and not n.value.keywords:
            # unpacking a 1-tuple: the condition is one-dimensional, so the single index array is np.flatnonzero(cond)
            c = n.value.args[0]
            c = self._flat_arg(c) if self._flat_arg(c) is not None else c
            n = ast.copy_location(ast.Assign(targets=[n.targets[0].elts[0]], value=ast.Call(func=self._npattr('flatnonzero'), args=[c], keywords=[])), n)
        if isinstance(n.value, ast.Constant) and isinstance(n.value.value, bool) and all(
                isinstance(t, ast.Subscript) and self._is_bool(t.value) for t in n.targets):
            n.value = ast.copy_location(ast.Constant(value=int(n.value.value)), n.value)     # S[V] = False  ==  S[V] = 0 for a boolean array S
        if len(n.targets) == 1 and isinstance(n.targets[0], ast.Subscript) and isinstance(n.value, ast.BinOp) \
                and isinstance(n.value.op, (ast.Add, ast.Sub, ast.Mult)):
            t = ast.unparse(n.targets[0])
            if ast.unparse(n.value.left) == t:
                return ast.copy_location(ast.AugAssign(target=n.targets[0], op=n.value.op, value=n.value.right), n)
            if isinstance(n.value.op, (ast.Add, ast.Mult)) and ast.unparse(n.value.right) == t:
                return ast.copy_location(ast.AugAssign(target=n.targets[0], op=n.value.op, value=n.value.left), n)
        return n


def _names(e):
    return {n.id for n in ast.walk(e) if isinstance(n, ast.Name)}


def _negate(test):
    if isinstance(test, ast.UnaryOp) and isinstance(test.op, ast.Not):
        return test.operand
    return ast.copy_location(ast.UnaryOp(op=ast.Not(), operand=test), test)


class _Struct(ast.NodeTransformer):
    """statement-level normal forms:
      * guard clauses: in a loop body `if c: X; continue` followed by REST becomes `if c: X else: REST`
        (`if c: continue` + REST -> `if not c: REST`); in a function body `if c: X; return v` + REST -> `if c: X; return v else: REST`;
      * `a, b = x, y` with plain names on the left that do not occur on the right -> `a = x; b = y`;
      * `a = b = <literal>` -> `a = <literal>; b = <literal>`;
      * `if not c: A else: B` / `if x is not y: A else: B` / `if a != b: A else: B` -> positive test first with the arms exchanged;
      * `if c: X; break else: REST` -> `if c: X; break` + REST (same for raise; `if c: REST else: break` with the test negated);
      * `while True: if not c: break; BODY` -> `while c: BODY`; `x = x` dropped; comprehension `for i, s in enumerate(X)` -> `for i in range(len(X))`."""

    def visit_FunctionDef(self, node):
        self.generic_visit(node)
        # `for v in X: a = v; BODY` with v read nowhere else is `for a in X: BODY` (a working copy of the loop variable)
        import collections
        loads = collections.Counter(n.id for n in ast.walk(node) if isinstance(n, ast.Name) and isinstance(n.ctx, ast.Load))
        stores = collections.Counter(n.id for n in ast.walk(node) if isinstance(n, ast.Name) and isinstance(n.ctx, (ast.Store, ast.Del)))
        for lp in ast.walk(node):
            if isinstance(lp, ast.For) and isinstance(lp.target, ast.Name) and lp.body and not lp.orelse:
                st, v = lp.body[0], lp.target.id
                if isinstance(st, ast.Assign) and len(st.targets) == 1 and isinstance(st.targets[0], ast.Name) and isinstance(st.value, ast.Name) \
                        and st.value.id == v and st.targets[0].id != v and loads[v] == 1 and stores[v] == 1:
                    lp.target = ast.copy_location(ast.Name(id=st.targets[0].id, ctx=ast.Store()), lp.target)
                    lp.body = lp.body[1:] or [ast.copy_location(ast.Pass(), st)]
        return node

    def visit_While(self, node):
        self.generic_visit(node)
        # `while True: if not c: break; BODY` is `while c: BODY` (a `continue` re-tests the guard either way)
        if isinstance(node.test, ast.Constant) and node.test.value is True and not node.orelse and node.body \
                and isinstance(node.body[0], ast.If) and not node.body[0].orelse and len(node.body[0].body) == 1 \
                and isinstance(node.body[0].body[0], ast.Break) and len(node.body) > 1:
            node.test = _negate(node.body[0].test)
            node.body = node.body[1:]
        return node

    def _enum(self, target, it):
        """(i, s, X) for `for i, s in enumerate(X)` with plain names, else None"""
        if isinstance(target, ast.Tuple) and len(target.elts) == 2 and all(isinstance(e, ast.Name) for e in target.elts) \
                and isinstance(it, ast.Call) and isinstance(it.func, ast.Name) and it.func.id == 'enumerate' and len(it.args) == 1 \
                and not it.keywords and isinstance(it.args[0], ast.Name):
            return target.elts[0].id, target.elts[1].id, it.args[0].id
        return None

    def visit_comprehension(self, node):
        self.generic_visit(node)
        return node

    def _deenumerate(self, node):
        """comprehensions: `for i, s in enumerate(X)` -> `for i in range(len(X))` with s spelled X[i]"""
        for g in node.generators:
            e = self._enum(g.target, g.iter)
            if e is None:
                continue
            i, sname, X = e

            class _R(ast.NodeTransformer):
                def visit_Name(self, n):
                    if n.id == sname and isinstance(n.ctx, ast.Load):
                        return ast.copy_location(ast.Subscript(value=ast.Name(id=X, ctx=ast.Load()), slice=ast.Name(id=i, ctx=ast.Load()), ctx=ast.Load()), n)
                    return n
            g.target = ast.copy_location(ast.Name(id=i, ctx=ast.Store()), g.target)
            g.iter = ast.copy_location(ast.Call(func=ast.Name(id='range', ctx=ast.Load()), args=[
                ast.Call(func=ast.Name(id='len', ctx=ast.Load()), args=[ast.Name(id=X, ctx=ast.Load())], keywords=[])], keywords=[]), g.iter)
            g.ifs = [_R().visit(x) for x in g.ifs]
            for fld in ('elt', 'key', 'value'):
                if hasattr(node, fld):
                    setattr(node, fld, _R().visit(getattr(node, fld)))
            later = node.generators[node.generators.index(g) + 1:]
            for g2 in later:
                g2.iter = _R().visit(g2.iter)
                g2.ifs = [_R().visit(x) for x in g2.ifs]
        return node

    def visit_ListComp(self, node):
        self.generic_visit(node)
        return self._deenumerate(node)

    visit_SetComp = visit_GeneratorExp = visit_DictComp = visit_ListComp

    def _unelse(self, stmts):
        """`if c: X; break else: REST` is `if c: X; break` followed by REST (same for raise); when only the else arm leaves a loop
        (`if c: REST else: break`) the test is negated first (not for `else: raise`, the usual end of a dispatch chain)"""
        JUMP = (ast.Break, ast.Raise)
        ANY = (ast.Break, ast.Raise, ast.Return, ast.Continue)
        out = []
        for st in stmts:
            if isinstance(st, ast.If) and st.body and st.orelse:
                if isinstance(st.orelse[-1], ast.Break) and not isinstance(st.body[-1], ANY):
                    st = ast.copy_location(ast.If(test=_negate(st.test), body=st.orelse, orelse=st.body), st)
                if isinstance(st.body[-1], JUMP):
                    rest = st.orelse
                    out.append(ast.copy_location(ast.If(test=st.test, body=st.body, orelse=[]), st))
                    out.extend(self._unelse(rest))
                    continue
            out.append(st)
        return out

    def _split(self, stmts):
        stmts = self._unelse(stmts)
        out = []
        kept = [st for st in stmts if not (isinstance(st, ast.Assign) and len(st.targets) == 1 and isinstance(st.targets[0], ast.Name)
                                           and isinstance(st.value, ast.Name) and st.value.id == st.targets[0].id)]      # `x = x`
        stmts = kept if kept or not stmts else [ast.copy_location(ast.Pass(), stmts[0])]
        for st in stmts:
            if isinstance(st, ast.Assign) and len(st.targets) == 1 and isinstance(st.targets[0], ast.Tuple) and isinstance(st.value, ast.Name) \
                    and 2 <= len(st.targets[0].elts) <= 4 and all(isinstance(t, ast.Name) for t in st.targets[0].elts) \
                    and st.value.id not in {t.id for t in st.targets[0].elts}:
                # unpacking a named tuple of arrays: `a, b = X` is `a = X[0]; b = X[1]`
                for k_, t in enumerate(st.targets[0].elts):
                    out.append(ast.copy_location(ast.Assign(targets=[t], value=ast.Subscript(
                        value=ast.Name(id=st.value.id, ctx=ast.Load()), slice=ast.Constant(value=k_), ctx=ast.Load())), st))
                continue
            if isinstance(st, ast.Assign) and len(st.targets) == 1 and isinstance(st.targets[0], ast.Tuple) and isinstance(st.value, ast.Tuple) \
                    and len(st.targets[0].elts) == len(st.value.elts) and all(isinstance(t, ast.Name) for t in st.targets[0].elts) \
                    and not any(isinstance(v, ast.Starred) for v in st.value.elts) \
                    and all(not ({t.id for t in st.targets[0].elts[:k]} & _names(v)) for k, v in enumerate(st.value.elts)):
                # (sequential order is safe when no right-hand side reads a name assigned by an earlier element)
                for t, v in zip(st.targets[0].elts, st.value.elts):
                    out.append(ast.copy_location(ast.Assign(targets=[t], value=v), st))
            elif isinstance(st, ast.Assign) and len(st.targets) > 1 and all(isinstance(t, ast.Name) for t in st.targets) and _is_literal(st.value):
                for t in st.targets:
                    out.append(ast.copy_location(ast.Assign(targets=[t], value=st.value), st))
            else:
                out.append(st)
        return out

    def _guards(self, stmts, kind):
        """kind: 'loop' (continue) or 'func' (return)"""
        stmts = self._split(stmts)
        for i, st in enumerate(stmts):
            if isinstance(st, ast.If) and not st.orelse and st.body and i + 1 < len(stmts):
                last = st.body[-1]
                if kind == 'loop' and isinstance(last, ast.Continue):
                    rest = self._guards(stmts[i + 1:], kind)
                    if len(st.body) == 1:
                        new = ast.copy_location(ast.If(test=_negate(st.test), body=rest, orelse=[]), st)
                    else:
                        new = ast.copy_location(ast.If(test=st.test, body=st.body[:-1], orelse=rest), st)
                    return stmts[:i] + [new]
                if kind == 'func' and isinstance(last, ast.Return):
                    rest = self._guards(stmts[i + 1:], kind)
                    new = ast.copy_location(ast.If(test=st.test, body=st.body, orelse=rest), st)
                    return stmts[:i] + [new]
        return stmts

    def visit_If(self, node):
        self.generic_visit(node)
        if node.orelse and all(isinstance(x, ast.Pass) for x in node.orelse):
            node.orelse = []                          # `else: pass` (e.g. what is left of `else: x = x`)
        if node.orelse and all(isinstance(x, ast.Pass) for x in node.body):
            node.test = _negate(node.test)            # `if c: pass else: X` -> `if not c: X`
            node.body, node.orelse = node.orelse, []
        # two-armed conditionals are written with the positive test first: `if not c: A else: B` -> `if c: B else: A`
        if node.body and node.orelse and not (len(node.orelse) == 1 and isinstance(node.orelse[0], ast.If)):
            t = node.test
            flipped = None
            if isinstance(t, ast.UnaryOp) and isinstance(t.op, ast.Not):
                flipped = t.operand
            elif isinstance(t, ast.Compare) and len(t.ops) == 1 and isinstance(t.ops[0], (ast.IsNot, ast.NotEq, ast.NotIn)):
                op = {ast.IsNot: ast.Is, ast.NotEq: ast.Eq, ast.NotIn: ast.In}[type(t.ops[0])]()
                flipped = ast.copy_location(ast.Compare(left=t.left, ops=[op], comparators=t.comparators), t)
            if flipped is not None:
                node.test = flipped
                node.body, node.orelse = node.orelse, node.body
        return node

    def generic_visit(self, node):
        super().generic_visit(node)
        for field in ('body', 'orelse', 'finalbody'):
            blk = getattr(node, field, None)
            if isinstance(blk, list) and blk and all(isinstance(x, ast.stmt) for x in blk):
                if field == 'body' and isinstance(node, (ast.For, ast.While, ast.AsyncFor)):
                    setattr(node, field, self._guards(blk, 'loop'))
                elif field == 'body' and isinstance(node, (ast.FunctionDef, ast.AsyncFunctionDef)):
                    setattr(node, field, self._guards(blk, 'func'))
                else:
                    setattr(node, field, self._split(blk))
        return node


def canonical(tree, np_alias='np'):
    """canonical spelling of a parsed module / statement list / expression (in place; returns the tree)"""
    if np_alias is not None:
        tree = _Spell(np_alias).visit(tree)
    tree = _Struct().visit(tree)
    tree = _Struct().visit(tree)       # second pass: conditionals created by the guard-clause step get the positive test first
    return ast.fix_missing_locations(tree)


def parse(src, mode='exec', np_alias='np'):
    return canonical(ast.parse(src, mode=mode), np_alias)
