"""Canonical spelling of equivalent NumPy / Python idioms.

Rules, templates and reference snippets are all written in one spelling; the analysed source, the templates and the
references are brought to that spelling when they are parsed, so that replacing an idiom by an equivalent one
(`X.sum(axis=0)` for `np.sum(X, axis=0)`, `A @ B` for `np.dot(A, B)`, `X.shape[0]` for `len(X)`, ...) can never
change a verdict.  Every rewrite below is an identity on values for ndarray operands (the only receivers the
package uses these methods on); none changes which object is mutated or aliased:

  A @ B                          -> np.dot(A, B)
  X.m(...)   m in REDUCERS|dot   -> np.m(X, ...)
  np.m(X, k)                     -> np.m(X, axis=k)          (m in REDUCERS)
  np.flatnonzero(c)              -> np.where(c)[0]
  np.nonzero(c), c.nonzero()     -> np.where(c)
  X.shape[0], np.shape(X)[0], np.size(X, 0), np.size(X, axis=0) -> len(X)
  T[i] = T[i] op E, T[i] = E + T[i]   -> T[i] op= E       (subscript targets only: same element store either way)
  np.zeros((n,)) / ones / empty  -> np.zeros(n)
  np.transpose(X), X.transpose() -> X.T
  np.multiply/add/subtract/divide/power(a, b) -> a * b, a + b, a - b, a / b, a ** b
"""
import ast

REDUCERS = {'sum', 'any', 'all', 'max', 'min', 'mean', 'std', 'prod', 'cumsum', 'trace'}
_NOT_ARRAYS = {'rng', 'random', 'math', 'scipy', 'sp', 'linalg', 'os', 'sys', 'self', 'np', 'numpy', 'due', 'warnings'}
_BINFUN = {'multiply': ast.Mult, 'add': ast.Add, 'subtract': ast.Sub, 'divide': ast.Div, 'true_divide': ast.Div, 'power': ast.Pow}


def numpy_alias(tree):
    for n in ast.walk(tree):
        if isinstance(n, ast.Import):
            for a in n.names:
                if a.name == 'numpy':
                    return a.asname or 'numpy'
    return None


def _root(e):
    while isinstance(e, (ast.Attribute, ast.Subscript, ast.Call)):
        e = e.func if isinstance(e, ast.Call) else e.value
    return e.id if isinstance(e, ast.Name) else None


class _Spell(ast.NodeTransformer):
    def __init__(self, np_alias):
        self.np = np_alias

    def _npattr(self, name):
        return ast.Attribute(value=ast.Name(id=self.np, ctx=ast.Load()), attr=name, ctx=ast.Load())

    def _is_np(self, f, name=None):
        return isinstance(f, ast.Attribute) and isinstance(f.value, ast.Name) and f.value.id == self.np and (name is None or f.attr == name)

    def visit_BinOp(self, n):
        self.generic_visit(n)
        if isinstance(n.op, ast.MatMult):
            return ast.copy_location(ast.Call(func=self._npattr('dot'), args=[n.left, n.right], keywords=[]), n)
        return n

    def visit_Call(self, n):
        self.generic_visit(n)
        f = n.func
        star = any(isinstance(a, ast.Starred) for a in n.args) or any(k.arg is None for k in n.keywords)
        # method -> function
        if isinstance(f, ast.Attribute) and not self._is_np(f) and (f.attr in REDUCERS or f.attr == 'dot') and not star:
            r = _root(f.value)
            if r is not None and r not in _NOT_ARRAYS and not (isinstance(f.value, ast.Call) and r in ('get_rng',)):
                n = ast.copy_location(ast.Call(func=self._npattr(f.attr), args=[f.value] + list(n.args), keywords=list(n.keywords)), n)
                f = n.func
        if isinstance(f, ast.Attribute) and not self._is_np(f) and f.attr == 'nonzero' and not n.args and not n.keywords:
            r = _root(f.value)
            if r is not None and r not in _NOT_ARRAYS:
                return ast.copy_location(ast.Call(func=self._npattr('where'), args=[f.value], keywords=[]), n)
        if isinstance(f, ast.Attribute) and not self._is_np(f) and f.attr == 'transpose' and not n.args and not n.keywords:
            r = _root(f.value)
            if r is not None and r not in _NOT_ARRAYS:
                return ast.copy_location(ast.Attribute(value=f.value, attr='T', ctx=ast.Load()), n)
        if not self._is_np(f):
            return n
        a = f.attr
        if a in REDUCERS and len(n.args) == 2 and not star and not any(k.arg == 'axis' for k in n.keywords):
            n.keywords = [ast.keyword(arg='axis', value=n.args[1])] + list(n.keywords)
            n.args = [n.args[0]]
        elif a == 'flatnonzero' and len(n.args) == 1 and not n.keywords:
            w = ast.Call(func=self._npattr('where'), args=n.args, keywords=[])
            return ast.copy_location(ast.Subscript(value=ast.copy_location(w, n), slice=ast.Constant(value=0), ctx=ast.Load()), n)
        elif a == 'nonzero' and len(n.args) == 1 and not n.keywords:
            n.func = self._npattr('where')
        elif a == 'size' and not star and ((len(n.args) == 2 and isinstance(n.args[1], ast.Constant) and n.args[1].value == 0 and not n.keywords) or (
                len(n.args) == 1 and len(n.keywords) == 1 and n.keywords[0].arg == 'axis' and isinstance(n.keywords[0].value, ast.Constant)
                and n.keywords[0].value.value == 0)):
            return ast.copy_location(ast.Call(func=ast.Name(id='len', ctx=ast.Load()), args=[n.args[0]], keywords=[]), n)
        elif a in ('zeros', 'ones', 'empty') and n.args and isinstance(n.args[0], ast.Tuple) and len(n.args[0].elts) == 1 \
                and not isinstance(n.args[0].elts[0], ast.Starred):
            n.args = [n.args[0].elts[0]] + list(n.args[1:])
        elif a == 'transpose' and len(n.args) == 1 and not n.keywords and not star:
            return ast.copy_location(ast.Attribute(value=n.args[0], attr='T', ctx=ast.Load()), n)
        elif a in _BINFUN and len(n.args) == 2 and not n.keywords and not star:
            return ast.copy_location(ast.BinOp(left=n.args[0], op=_BINFUN[a](), right=n.args[1]), n)
        return n

    def visit_Subscript(self, n):
        self.generic_visit(n)
        if isinstance(n.ctx, ast.Load) and isinstance(n.slice, ast.Constant) and n.slice.value == 0 and type(n.slice.value) is int:
            v = n.value
            if isinstance(v, ast.Attribute) and v.attr == 'shape':
                r = _root(v.value)
                if r is not None and r not in _NOT_ARRAYS:
                    return ast.copy_location(ast.Call(func=ast.Name(id='len', ctx=ast.Load()), args=[v.value], keywords=[]), n)
            if isinstance(v, ast.Call) and self._is_np(v.func, 'shape') and len(v.args) == 1 and not v.keywords:
                return ast.copy_location(ast.Call(func=ast.Name(id='len', ctx=ast.Load()), args=[v.args[0]], keywords=[]), n)
        return n

    def visit_Assign(self, n):
        self.generic_visit(n)
        if len(n.targets) == 1 and isinstance(n.targets[0], ast.Subscript) and isinstance(n.value, ast.BinOp) \
                and isinstance(n.value.op, (ast.Add, ast.Sub, ast.Mult)):
            t = ast.unparse(n.targets[0])
            if ast.unparse(n.value.left) == t:
                return ast.copy_location(ast.AugAssign(target=n.targets[0], op=n.value.op, value=n.value.right), n)
            if isinstance(n.value.op, (ast.Add, ast.Mult)) and ast.unparse(n.value.right) == t:
                return ast.copy_location(ast.AugAssign(target=n.targets[0], op=n.value.op, value=n.value.left), n)
        return n


def canonical(tree, np_alias='np'):
    """canonical spelling of a parsed module / statement list / expression (in place; returns the tree)"""
    if np_alias is None:
        return tree
    return ast.fix_missing_locations(_Spell(np_alias).visit(tree))


def parse(src, mode='exec', np_alias='np'):
    return canonical(ast.parse(src, mode=mode), np_alias)
