"""Obligation bookkeeping, known-findings matching, evidence and exit codes."""
import hashlib
import json
import os
import time

from .astutil import norm
from .loader import FuncInfo

VERIF = os.path.dirname(os.path.dirname(os.path.dirname(os.path.abspath(__file__))))
RESTRUCTURED_LIMIT = 12      # more differing statements than this (and less than RESTRUCTURED_LIMIT_SIM similar): rewritten, not edited
RESTRUCTURED_LIMIT_SIM = 0.8
RESTRUCTURED_SIM = 0.35      # ... or less than this similarity with at least RESTRUCTURED_MIN differing statements (small functions)
RESTRUCTURED_MIN = 6
# Verdicts of the dataflow / abstract-interpretation engines and "bad construct found" rules do not depend on the statement shape of
# the function: they are never downgraded to "cannot decide".  (prefixes of rule names, per property)
SHAPE_INDEPENDENT = {
    'C01': ('A.', 'B1.', 'B2.', 'B3.', 'B4.', 'B5.', 'B6.', 'B7.'),
    'C02': ('C.returned-labels-canonical', 'S.scaling-uses-true-totals'),
    'C04': ('L.', 'U.', 'P.', 'I.no-literal'),
    'C05': ('R',),
    'C06': ('B9.', 'B1.', 'B2.', 'B3.', 'B4.', 'B5.', 'B7.'),
    'C08': ('D.every-predecessor',),
    'C11': ('B4.', 'B11.no-accept-with-veto'),
    'C13': ('A.',),
    'C14': ('C.raw-labels', 'L.module-loop', 'K.'),
    'C15': ('K.no-core-level-skipped',),
    'C16': ('D.no-mutation-of-iterated-list', 'A.'),
    'C17': ('A.',),
}


class Ob:
    __slots__ = ('rule', 'module', 'function', 'construct', 'line', 'ok', 'why', 'status')

    def __init__(self, rule, module, function, construct, line, ok, why):
        self.rule = rule
        self.module = module
        self.function = function
        self.construct = construct
        self.line = line
        self.ok = ok
        self.why = why
        self.status = 'ok' if ok else 'violation'

    def key(self):
        return (self.rule, self.module, self.function, self.construct)

    def as_dict(self):
        return {'rule': self.rule, 'module': self.module, 'function': self.function,
                'construct': self.construct, 'line': self.line, 'status': self.status,
                'why': self.why}


class Report:
    def __init__(self, pid, tier='quick', seed=0, root='/repo', quiet=False):
        self.pid = pid
        self.tier = tier
        self.seed = seed
        self.root = root
        self.quiet = quiet
        self.obs = []
        self.infos = []
        self.floors = []       # (rule, minimum)
        self.errors = []       # analysis errors
        self.assumptions = []
        self.trusted = []
        self.stats = {}
        self.explanation = ''
        self.t0 = time.time()
        self.selftest = None
        self.restructured = {}    # {relpath::qualname: statements differing from the analysed shape} (sa/core/alpha.py)

    # -- recording ----------------------------------------------------------
    def ob(self, rule, fn, construct, ok, why='', line=None):
        if isinstance(fn, FuncInfo):
            module, function = fn.module.relpath, fn.qualname
            if line is None and hasattr(construct, 'lineno'):
                line = construct.lineno
            if line is None:
                line = fn.node.lineno
        elif isinstance(fn, tuple):
            module, function = fn
        else:
            module, function = str(fn), ''
        if not isinstance(construct, str):
            if line is None and hasattr(construct, 'lineno'):
                line = construct.lineno
            construct = norm(construct)
        construct = ' '.join(construct.split())
        if len(construct) > 200:
            construct = construct[:197] + '...'
        o = Ob(rule, module, function, construct, line or 0, bool(ok), why)
        self.obs.append(o)
        return o

    def info(self, text):
        self.infos.append(text)

    def floor(self, rule_prefix, minimum):
        self.floors.append((rule_prefix, minimum))

    def error(self, text):
        self.errors.append(text)

    def assume(self, text):
        if text not in self.assumptions:
            self.assumptions.append(text)

    def trust(self, text):
        if text not in self.trusted:
            self.trusted.append(text)

    def stat(self, k, v):
        self.stats[k] = v

    # -- known findings -------------------------------------------------------
    def _known(self):
        p = os.path.join(VERIF, 'known_findings.json')
        if not os.path.exists(p):
            return []
        with open(p) as f:
            return json.load(f)

    def _distance(self, o):
        """largest shape distance among the functions an obligation names (None if none of them changed)"""
        best = None
        names = [p_.strip() for p_ in o.function.split(' / ') if p_.strip()]
        for key, ds in self.restructured.items():
            rel, q = key.split('::', 1)
            if rel not in o.module:
                continue
            for nm in names:
                if q == nm or q.startswith(nm + '.') or nm.startswith(q + '.'):
                    best = tuple(ds) if best is None else (max(best[0], ds[0]), min(best[1], ds[1]))
        return best

    # -- finishing ------------------------------------------------------------
    def violations(self):
        return [o for o in self.obs if o.status == 'violation']

    def finish(self, write_evidence=True):
        known = [k for k in self._known() if k.get('status') == 'known' and k.get('property') == self.pid]
        kmap = {(k['rule'], k['module'], k['function'], ' '.join(k['construct'].split())): k for k in known}
        seen_known = set()
        for o in self.obs:
            if not o.ok and o.key() in kmap:
                o.status = 'known'
                seen_known.add(o.key())
        # A function that differs from the shape the rules were written against in more than RESTRUCTURED_LIMIT statements was
        # rewritten, not edited: shape rules cannot be evaluated on it.  Their failures are then "cannot decide" (analysis error,
        # exit 2), not a claim that the property is violated.
        undecided = {}
        for o in self.obs:
            if o.status == 'violation' and not o.rule.startswith(SHAPE_INDEPENDENT.get(self.pid, ('\0',))):
                ds = self._distance(o)
                if ds is not None and ((ds[0] > RESTRUCTURED_LIMIT and ds[1] < RESTRUCTURED_LIMIT_SIM) or (ds[1] < RESTRUCTURED_SIM and ds[0] >= RESTRUCTURED_MIN)):
                    o.status = 'undecided'
                    undecided.setdefault((o.module, o.function, ds), []).append(o.rule)
        for (mod_, fn_, ds), rules in sorted(undecided.items()):
            self.errors.append('%s %s was restructured (%d statements differ from the analysed shape, similarity %.2f): cannot decide rule(s) %s on it' % (
                mod_, fn_, ds[0], ds[1], ', '.join(sorted(set(rules)))))
        # floors
        for prefix, minimum in self.floors:
            cnt = sum(1 for o in self.obs if o.rule.startswith(prefix))
            if cnt < minimum:
                self.errors.append('rule %s matched %d instances, floor is %d (vacuous rule?)' % (prefix, cnt, minimum))
        viol = self.violations()
        kn = [o for o in self.obs if o.status == 'known']
        code = 0
        out = []
        for o in kn:
            k = kmap[o.key()]
            out.append('KNOWN-FINDING: property=%s %s:%s %s [%s] %s -- %s' % (
                self.pid, o.module, o.function, o.rule, o.construct, k.get('what', ''), o.why))
        for k in known:
            key = (k['rule'], k['module'], k['function'], ' '.join(k['construct'].split()))
            if key not in seen_known:
                out.append('RESOLVED-FINDING: property=%s %s %s [%s] is no longer reported' % (
                    self.pid, k['function'], k['rule'], k['construct']))
        replay = None
        if viol:
            code = 1
            d = os.path.join(VERIF, 'out', 'violations')
            os.makedirs(d, exist_ok=True)
            h = hashlib.sha256(json.dumps([o.as_dict() for o in viol], sort_keys=True).encode()).hexdigest()[:12]
            replay = os.path.join(d, '%s-%s.json' % (self.pid, h))
            with open(replay, 'w') as f:
                json.dump({'property': self.pid, 'root': self.root,
                           'violations': [o.as_dict() for o in viol]}, f, indent=1)
            out.append('VIOLATION property=%s replay=%s' % (self.pid, replay))
            for o in viol:
                out.append('  %s:%d %s rule=%s [%s] -- %s' % (o.module, o.line, o.function, o.rule, o.construct, o.why))
        if self.errors and code == 0:
            code = 2
        for e in self.errors:
            out.append('ANALYSIS-ERROR property=%s %s' % (self.pid, e))
        wall = time.time() - self.t0
        n_ok = sum(1 for o in self.obs if o.status == 'ok')
        summary = '%s tier=%s obligations=%d discharged=%d known=%d violations=%d errors=%d wall=%.2fs' % (
            self.pid, self.tier, len(self.obs), n_ok, len(kn), len(viol), len(self.errors), wall)
        out.append(summary)
        if not self.quiet:
            print('\n'.join(out))
        if write_evidence:
            self._write_evidence(wall, n_ok, kn, viol)
        return code

    def _write_evidence(self, wall, n_ok, kn, viol):
        distinct = len({o.key() for o in self.obs})
        rules = {}
        for o in self.obs:
            r = rules.setdefault(o.rule, {'instances': 0, 'ok': 0, 'known': 0, 'violation': 0, 'undecided': 0})
            r['instances'] += 1
            r[o.status] += 1
        samples = []
        seen_rules = set()
        for o in self.obs:          # one sample per rule first, then fill up
            if o.rule not in seen_rules:
                seen_rules.add(o.rule)
                samples.append(o.as_dict())
        for o in self.obs:
            if len(samples) >= 60:
                break
            if o.status != 'ok' and o.as_dict() not in samples:
                samples.append(o.as_dict())
        cov = {
            'explanation': self.explanation,
            'obligations': len(self.obs),
            'discharged': n_ok,
            'evaluations': len(self.obs),
            'distinct_nontrivial': distinct,
            'rule': 'one obligation = one (rule, module, function, construct) instance found by the '
                    'extractors in the current /repo source; distinct = distinct keys; a rule that '
                    'matches fewer sites than its hand-confirmed floor is an analysis error',
            'samples': samples,
            'per_rule': rules,
            'known_findings': [o.as_dict() for o in kn],
            'violating': [o.as_dict() for o in viol],
            'analysis_errors': self.errors,
            'information': self.infos[:80],
            'trusted_base': self.trusted,
            'checker_cmd': './check %s --tier %s' % (self.pid, self.tier),
            'analysed_root': self.root,
            'exhaustive': False,
        }
        cov.update(self.stats)
        if self.selftest is not None:
            cov['selftest'] = self.selftest
        ev = {
            'property_id': self.pid,
            'tier': self.tier,
            'seed': int(self.seed),
            'level': 'other',
            'coverage': cov,
            'assumptions': self.assumptions,
            'wall_s': round(wall, 3),
            'violations': len(viol),
        }
        d = os.path.join(VERIF, 'evidence')
        os.makedirs(d, exist_ok=True)
        tmp = os.path.join(d, '.%s.json.%d.tmp' % (self.pid, os.getpid()))      # unique per process: concurrent runs of one check must not trip over each other
        with open(tmp, 'w') as f:
            json.dump(ev, f, indent=1, sort_keys=True, default=str)
        os.replace(tmp, os.path.join(d, '%s.json' % self.pid))
