"""Obligation bookkeeping, known-findings matching, evidence and exit codes."""
import hashlib
import json
import os
import time

from .astutil import norm
from .loader import FuncInfo

VERIF = os.path.dirname(os.path.dirname(os.path.dirname(os.path.abspath(__file__))))


class Ob:
    __slots__ = ('rule', 'module', 'function', 'construct', 'line', 'ok', 'why', 'status')

    def __init__(self, rule, module, function, construct, line, ok, why):
        self.rule = rule
        self.module = module
        self.function = function
        self.construct = construct
        self.line = line
        self.ok = ok
        self.why = why
        self.status = 'ok' if ok else 'violation'

    def key(self):
        return (self.rule, self.module, self.function, self.construct)

    def as_dict(self):
        return {'rule': self.rule, 'module': self.module, 'function': self.function,
                'construct': self.construct, 'line': self.line, 'status': self.status,
                'why': self.why}


class Report:
    def __init__(self, pid, tier='quick', seed=0, root='/repo', quiet=False):
        self.pid = pid
        self.tier = tier
        self.seed = seed
        self.root = root
        self.quiet = quiet
        self.obs = []
        self.infos = []
        self.floors = []       # (rule, minimum)
        self.errors = []       # analysis errors
        self.assumptions = []
        self.trusted = []
        self.stats = {}
        self.explanation = ''
        self.t0 = time.time()
        self.selftest = None

    # -- recording ----------------------------------------------------------
    def ob(self, rule, fn, construct, ok, why='', line=None):
        if isinstance(fn, FuncInfo):
            module, function = fn.module.relpath, fn.qualname
            if line is None and hasattr(construct, 'lineno'):
                line = construct.lineno
            if line is None:
                line = fn.node.lineno
        elif isinstance(fn, tuple):
            module, function = fn
        else:
            module, function = str(fn), ''
        if not isinstance(construct, str):
            if line is None and hasattr(construct, 'lineno'):
                line = construct.lineno
            construct = norm(construct)
        construct = ' '.join(construct.split())
        if len(construct) > 200:
            construct = construct[:197] + '...'
        o = Ob(rule, module, function, construct, line or 0, bool(ok), why)
        self.obs.append(o)
        return o

    def info(self, text):
        self.infos.append(text)

    def floor(self, rule_prefix, minimum):
        self.floors.append((rule_prefix, minimum))

    def error(self, text):
        self.errors.append(text)

    def assume(self, text):
        if text not in self.assumptions:
            self.assumptions.append(text)

    def trust(self, text):
        if text not in self.trusted:
            self.trusted.append(text)

    def stat(self, k, v):
        self.stats[k] = v

    # -- known findings -------------------------------------------------------
    def _known(self):
        p = os.path.join(VERIF, 'known_findings.json')
        if not os.path.exists(p):
            return []
        with open(p) as f:
            return json.load(f)

    # -- finishing ------------------------------------------------------------
    def violations(self):
        return [o for o in self.obs if o.status == 'violation']

    def finish(self, write_evidence=True):
        known = [k for k in self._known() if k.get('status') == 'known' and k.get('property') == self.pid]
        kmap = {(k['rule'], k['module'], k['function'], ' '.join(k['construct'].split())): k for k in known}
        seen_known = set()
        for o in self.obs:
            if not o.ok and o.key() in kmap:
                o.status = 'known'
                seen_known.add(o.key())
        # floors
        for prefix, minimum in self.floors:
            cnt = sum(1 for o in self.obs if o.rule.startswith(prefix))
            if cnt < minimum:
                self.errors.append('rule %s matched %d instances, floor is %d (vacuous rule?)' % (prefix, cnt, minimum))
        viol = self.violations()
        kn = [o for o in self.obs if o.status == 'known']
        code = 0
        out = []
        for o in kn:
            k = kmap[o.key()]
            out.append('KNOWN-FINDING: property=%s %s:%s %s [%s] %s -- %s' % (
                self.pid, o.module, o.function, o.rule, o.construct, k.get('what', ''), o.why))
        for k in known:
            key = (k['rule'], k['module'], k['function'], ' '.join(k['construct'].split()))
            if key not in seen_known:
                out.append('RESOLVED-FINDING: property=%s %s %s [%s] is no longer reported' % (
                    self.pid, k['function'], k['rule'], k['construct']))
        replay = None
        if viol:
            code = 1
            d = os.path.join(VERIF, 'out', 'violations')
            os.makedirs(d, exist_ok=True)
            h = hashlib.sha256(json.dumps([o.as_dict() for o in viol], sort_keys=True).encode()).hexdigest()[:12]
            replay = os.path.join(d, '%s-%s.json' % (self.pid, h))
            with open(replay, 'w') as f:
                json.dump({'property': self.pid, 'root': self.root,
                           'violations': [o.as_dict() for o in viol]}, f, indent=1)
            out.append('VIOLATION property=%s replay=%s' % (self.pid, replay))
            for o in viol:
                out.append('  %s:%d %s rule=%s [%s] -- %s' % (o.module, o.line, o.function, o.rule, o.construct, o.why))
        if self.errors and code == 0:
            code = 2
        for e in self.errors:
            out.append('ANALYSIS-ERROR property=%s %s' % (self.pid, e))
        wall = time.time() - self.t0
        n_ok = sum(1 for o in self.obs if o.status == 'ok')
        summary = '%s tier=%s obligations=%d discharged=%d known=%d violations=%d errors=%d wall=%.2fs' % (
            self.pid, self.tier, len(self.obs), n_ok, len(kn), len(viol), len(self.errors), wall)
        out.append(summary)
        if not self.quiet:
            print('\n'.join(out))
        if write_evidence:
            self._write_evidence(wall, n_ok, kn, viol)
        return code

    def _write_evidence(self, wall, n_ok, kn, viol):
        distinct = len({o.key() for o in self.obs})
        rules = {}
        for o in self.obs:
            r = rules.setdefault(o.rule, {'instances': 0, 'ok': 0, 'known': 0, 'violation': 0})
            r['instances'] += 1
            r[o.status] += 1
        samples = []
        seen_rules = set()
        for o in self.obs:          # one sample per rule first, then fill up
            if o.rule not in seen_rules:
                seen_rules.add(o.rule)
                samples.append(o.as_dict())
        for o in self.obs:
            if len(samples) >= 60:
                break
            if o.status != 'ok' and o.as_dict() not in samples:
                samples.append(o.as_dict())
        cov = {
            'explanation': self.explanation,
            'obligations': len(self.obs),
            'discharged': n_ok,
            'evaluations': len(self.obs),
            'distinct_nontrivial': distinct,
            'rule': 'one obligation = one (rule, module, function, construct) instance found by the '
                    'extractors in the current /repo source; distinct = distinct keys; a rule that '
                    'matches fewer sites than its hand-confirmed floor is an analysis error',
            'samples': samples,
            'per_rule': rules,
            'known_findings': [o.as_dict() for o in kn],
            'violating': [o.as_dict() for o in viol],
            'analysis_errors': self.errors,
            'information': self.infos[:80],
            'trusted_base': self.trusted,
            'checker_cmd': './check %s --tier %s' % (self.pid, self.tier),
            'analysed_root': self.root,
            'exhaustive': False,
        }
        cov.update(self.stats)
        if self.selftest is not None:
            cov['selftest'] = self.selftest
        ev = {
            'property_id': self.pid,
            'tier': self.tier,
            'seed': int(self.seed),
            'level': 'other',
            'coverage': cov,
            'assumptions': self.assumptions,
            'wall_s': round(wall, 3),
            'violations': len(viol),
        }
        d = os.path.join(VERIF, 'evidence')
        os.makedirs(d, exist_ok=True)
        tmp = os.path.join(d, '.%s.json.tmp' % self.pid)
        with open(tmp, 'w') as f:
            json.dump(ev, f, indent=1, sort_keys=True, default=str)
        os.replace(tmp, os.path.join(d, '%s.json' % self.pid))
