"""Alpha-normalisation of local variable names.

Many rules are stated over the names the routines use today (`nPATH`, `knm_o`, `Q`, `q` ...).  Renaming a local variable
is behaviour-preserving and must not change any verdict.  Before the rules run, every function's locals are therefore
renamed -- in the in-memory AST only -- to the names recorded in `sa/hints.json` for the variable with the most similar
*rename-invariant signature* (the multiset of statements it occurs in, with every other local blanked out).

The hint file is only a naming aid: an injective renaming of locals is semantics-preserving whatever suggested it, and
the verdicts are still computed from the current code.  A function whose statements changed keeps most signatures, so
unaffected variables are still recognised; variables without a good match keep their own name.
"""
import ast
import json
import os

from .loader import walk_no_nested

HINTS = os.path.join(os.path.dirname(os.path.dirname(os.path.abspath(__file__))), 'hints.json')


def _own_locals(fnode):
    a = fnode.args
    params = {x.arg for x in a.posonlyargs + a.args + a.kwonlyargs}
    if a.vararg:
        params.add(a.vararg.arg)
    if a.kwarg:
        params.add(a.kwarg.arg)
    stored = set()
    glob = set()
    nested = set()
    for n in walk_no_nested(fnode):
        if isinstance(n, ast.Name) and isinstance(n.ctx, (ast.Store, ast.Del)):
            stored.add(n.id)
        elif isinstance(n, (ast.Global, ast.Nonlocal)):
            glob |= set(n.names)
        elif isinstance(n, (ast.Import, ast.ImportFrom)):
            for al in n.names:
                glob.add((al.asname or al.name).split('.')[0])
        elif isinstance(n, (ast.FunctionDef, ast.AsyncFunctionDef)):
            nested.add(n.name)
        elif isinstance(n, ast.ExceptHandler) and n.name:
            stored.add(n.name)
    return (stored - glob - nested - params), params


def _units(fnode):
    """expression/statement units of the function's own body whose text forms the signatures"""
    out = []
    for n in walk_no_nested(fnode):
        if isinstance(n, (ast.Assign, ast.AugAssign, ast.AnnAssign, ast.Expr, ast.Return, ast.Delete, ast.Raise, ast.Assert)):
            out.append(n)
        elif isinstance(n, (ast.If, ast.While)):
            out.append(n.test)
        elif isinstance(n, (ast.For, ast.AsyncFor)):
            out.append(ast.Tuple(elts=[n.target, n.iter], ctx=ast.Load()))
    return out


class _Blank(ast.NodeTransformer):
    def __init__(self, var, locals_):
        self.var = var
        self.locals = locals_

    def visit_Name(self, n):
        if n.id == self.var:
            return ast.copy_location(ast.Name(id='__SELF__', ctx=ast.Load()), n)
        if n.id in self.locals:
            return ast.copy_location(ast.Name(id='__', ctx=ast.Load()), n)
        return ast.copy_location(ast.Name(id=n.id, ctx=ast.Load()), n)

    def visit_FunctionDef(self, n):
        return ast.copy_location(ast.Pass(), n)

    def visit_Constant(self, n):
        if isinstance(n.value, str) and len(n.value) > 12:
            return ast.copy_location(ast.Constant(value='s'), n)
        return n


def signatures(fnode):
    """{local name: sorted list of rename-invariant statement shapes it occurs in}"""
    import copy
    locs, params = _own_locals(fnode)
    units = _units(fnode)
    occ = {}
    for u in units:
        names = {n.id for n in ast.walk(u) if isinstance(n, ast.Name)}
        for v in names & locs:
            occ.setdefault(v, []).append(u)
    sig = {}
    for v, us in occ.items():
        shapes = []
        for u in us:
            t = _Blank(v, locs).visit(copy.deepcopy(u))
            try:
                shapes.append(ast.unparse(ast.fix_missing_locations(t)))
            except Exception:
                shapes.append(ast.dump(t))
        sig[v] = sorted(shapes)
    return sig


def _digest(fnode):
    import hashlib
    return hashlib.sha1(ast.dump(fnode).encode()).hexdigest()[:16]


def build_hints(prog):
    h = {}
    for m in prog.modules.values():
        for q, f in m.functions.items():
            s = signatures(f.node)
            if s:
                h[m.relpath + '::' + q] = {'digest': _digest(f.node), 'sig': s}
    return h


def _similarity(a, b):
    from collections import Counter
    ca, cb = Counter(a), Counter(b)
    inter = sum((ca & cb).values())
    union = sum((ca | cb).values())
    return inter / union if union else 0.0


def _mapping(cur, hint):
    """injective map current local -> hinted name (only entries that change the name)"""
    pairs = []
    for c, sc in cur.items():
        for h, sh in hint.items():
            s = _similarity(sc, sh)
            if s > 0:
                pairs.append((s + (0.001 if c == h else 0.0), c, h))
    pairs.sort(reverse=True)
    used_c, used_h, out = set(), set(), {}
    for s, c, h in pairs:
        if c in used_c or h in used_h:
            continue
        if s < 0.5:
            continue
        used_c.add(c)
        used_h.add(h)
        out[c] = h
    # names that keep their own name must not collide with a target name of another variable
    targets = set(out.values())
    final = {}
    for c in cur:
        t = out.get(c, c)
        final[c] = t
    # resolve collisions: an unmapped variable whose name is taken by someone else's target gets a fresh name
    taken = {}
    for c, t in final.items():
        if c in out:
            taken[t] = c
    for c, t in list(final.items()):
        if c not in out and t in taken and taken[t] != c:
            k = 1
            while (t + '_u%d' % k) in taken or (t + '_u%d' % k) in final.values():
                k += 1
            final[c] = t + '_u%d' % k
    return {c: t for c, t in final.items() if c != t}


def _apply(fnode, ren):
    """rename Name nodes referring to fnode's own locals, including free occurrences in nested functions that do not rebind them"""
    if not ren:
        return 0
    cnt = 0

    def rec(node, active):
        nonlocal cnt
        for ch in ast.iter_child_nodes(node):
            if isinstance(ch, (ast.FunctionDef, ast.AsyncFunctionDef, ast.Lambda)):
                a = ch.args
                bound = {x.arg for x in a.posonlyargs + a.args + a.kwonlyargs}
                if a.vararg:
                    bound.add(a.vararg.arg)
                if a.kwarg:
                    bound.add(a.kwarg.arg)
                if not isinstance(ch, ast.Lambda):
                    bound |= {n.id for n in walk_no_nested(ch) if isinstance(n, ast.Name) and isinstance(n.ctx, (ast.Store, ast.Del))}
                rec(ch, {k: v for k, v in active.items() if k not in bound})
            elif isinstance(ch, ast.Name):
                if ch.id in active:
                    ch.id = active[ch.id]
                    cnt += 1
            else:
                rec(ch, active)
    rec(fnode, dict(ren))
    return cnt


def _inline_new_temporaries(fnode, known):
    """A local that the reference version of the function does not have, that is assigned once (`x = E`, E free of random
    draws) and read once, later in the same block with none of E's operands (nor x) reassigned in between, is a freshly
    introduced temporary: its use is replaced by E and the definition dropped (the inverse of an extract-variable refactor)."""
    done = []
    for _ in range(12):
        locs, params = _own_locals(fnode)
        cand = None
        stores, loads = {}, {}
        for n in walk_no_nested(fnode):
            if isinstance(n, ast.Name):
                (stores if isinstance(n.ctx, (ast.Store, ast.Del)) else loads).setdefault(n.id, []).append(n)
        for owner in [fnode] + [x for x in walk_no_nested(fnode) if isinstance(x, (ast.If, ast.For, ast.While, ast.With, ast.Try))]:
            for field in ('body', 'orelse', 'finalbody'):
                blk = getattr(owner, field, None)
                if not isinstance(blk, list):
                    continue
                for i, st in enumerate(blk):
                    if not (isinstance(st, ast.Assign) and len(st.targets) == 1 and isinstance(st.targets[0], ast.Name)):
                        continue
                    x = st.targets[0].id
                    if x in known or x not in locs or len(stores.get(x, [])) != 1 or len(loads.get(x, [])) != 1:
                        continue
                    txt = ast.unparse(st.value)
                    if 'rng' in txt or 'random' in txt:
                        continue
                    operands = {n.id for n in ast.walk(st.value) if isinstance(n, ast.Name)}
                    use = loads[x][0]
                    # find the later statement of this block that contains the use
                    for j in range(i + 1, min(i + 4, len(blk))):
                        holder = blk[j]
                        if any(n is use for n in ast.walk(holder)):
                            between = blk[i + 1:j]
                            clobber = False
                            for b in between + [holder]:
                                for n in ast.walk(b):
                                    if isinstance(n, ast.Name) and isinstance(n.ctx, (ast.Store, ast.Del)) and n.id in operands | {x} and b is not holder:
                                        clobber = True
                                    if isinstance(n, (ast.Subscript, ast.Attribute)) and isinstance(n.ctx, ast.Store) and b is not holder:
                                        bb = n
                                        while isinstance(bb, (ast.Subscript, ast.Attribute)):
                                            bb = bb.value
                                        if isinstance(bb, ast.Name) and bb.id in operands:
                                            clobber = True
                            if isinstance(holder, (ast.For, ast.While)) :
                                clobber = True      # the use would be re-evaluated per iteration
                            if not clobber:
                                cand = (blk, i, st, use, holder)
                            break
                    if cand:
                        break
                if cand:
                    break
            if cand:
                break
        if not cand:
            break
        blk, i, st, use, holder = cand

        class _Sub(ast.NodeTransformer):
            def visit_Name(self, n):
                if n is use:
                    return ast.copy_location(st.value, n)
                return n
        _Sub().visit(holder)
        del blk[i]
        done.append(st.targets[0].id)
    return done


def normalise(prog, hints=None):
    """Rename locals in place (outer functions first).  Returns {function key: {old: new}} for the report."""
    if hints is None:
        if not os.path.exists(HINTS):
            return {}
        with open(HINTS) as f:
            hints = json.load(f)
    done = {}
    for m in prog.modules.values():
        for q in sorted(m.functions, key=lambda x: x.count('.')):
            f = m.functions[q]
            key = m.relpath + '::' + q
            if key not in hints:
                continue
            if hints[key].get('digest') == _digest(f.node):
                continue            # function unchanged since the hints were taken: identity renaming
            cur = signatures(f.node)
            if not cur:
                continue
            ren = _mapping(cur, hints[key]['sig'])
            if ren:
                _apply(f.node, ren)
                done[key] = ren
            known = set(hints[key]['sig'])
            inl = _inline_new_temporaries(f.node, known)
            if inl:
                done.setdefault(key, {})
                done[key].update({k: '<inlined>' for k in inl})
    if done:
        from . import loader
        loader.invalidate_caches()
    return done
