"""Alpha-normalisation of local variable names.

Many rules are stated over the names the routines use today (`nPATH`, `knm_o`, `Q`, `q` ...).  Renaming a local variable
is behaviour-preserving and must not change any verdict.  Before the rules run, every function's locals are therefore
renamed -- in the in-memory AST only -- to the names recorded in `sa/hints.json` for the variable with the most similar
*rename-invariant signature* (the multiset of statements it occurs in, with every other local blanked out).

The hint file is only a naming aid: an injective renaming of locals is semantics-preserving whatever suggested it, and
the verdicts are still computed from the current code.  A function whose statements changed keeps most signatures, so
unaffected variables are still recognised; variables without a good match keep their own name.
"""
import ast
import json
import os

from .loader import walk_no_nested

HINTS = os.path.join(os.path.dirname(os.path.dirname(os.path.abspath(__file__))), 'hints.json')


def _own_locals(fnode):
    a = fnode.args
    params = {x.arg for x in a.posonlyargs + a.args + a.kwonlyargs}
    if a.vararg:
        params.add(a.vararg.arg)
    if a.kwarg:
        params.add(a.kwarg.arg)
    stored = set()
    glob = set()
    nested = set()
    for n in walk_no_nested(fnode):
        if isinstance(n, ast.Name) and isinstance(n.ctx, (ast.Store, ast.Del)):
            stored.add(n.id)
        elif isinstance(n, (ast.Global, ast.Nonlocal)):
            glob |= set(n.names)
        elif isinstance(n, (ast.Import, ast.ImportFrom)):
            for al in n.names:
                glob.add((al.asname or al.name).split('.')[0])
        elif isinstance(n, (ast.FunctionDef, ast.AsyncFunctionDef)):
            nested.add(n.name)
        elif isinstance(n, ast.ExceptHandler) and n.name:
            stored.add(n.name)
    return (stored - glob - nested - params), params


def _units(fnode):
    """expression/statement units of the function's own body whose text forms the signatures"""
    out = []
    for n in walk_no_nested(fnode):
        if isinstance(n, (ast.Assign, ast.AugAssign, ast.AnnAssign, ast.Expr, ast.Return, ast.Delete, ast.Raise, ast.Assert)):
            out.append(n)
        elif isinstance(n, (ast.If, ast.While)):
            out.append(n.test)
        elif isinstance(n, (ast.For, ast.AsyncFor)):
            out.append(ast.Tuple(elts=[n.target, n.iter], ctx=ast.Load()))
    return out


class _Blank(ast.NodeTransformer):
    def __init__(self, var, locals_):
        self.var = var
        self.locals = locals_

    def visit_Name(self, n):
        if n.id == self.var:
            return ast.copy_location(ast.Name(id='__SELF__', ctx=ast.Load()), n)
        if n.id in self.locals:
            return ast.copy_location(ast.Name(id='__', ctx=ast.Load()), n)
        return ast.copy_location(ast.Name(id=n.id, ctx=ast.Load()), n)

    def visit_FunctionDef(self, n):
        return ast.copy_location(ast.Pass(), n)

    def visit_Constant(self, n):
        if isinstance(n.value, str) and len(n.value) > 12:
            return ast.copy_location(ast.Constant(value='s'), n)
        return n


def signatures(fnode):
    """{local name: sorted list of rename-invariant statement shapes it occurs in}"""
    import copy
    locs, params = _own_locals(fnode)
    units = _units(fnode)
    occ = {}
    for u in units:
        names = {n.id for n in ast.walk(u) if isinstance(n, ast.Name)}
        for v in names & locs:
            occ.setdefault(v, []).append(u)
    sig = {}
    for v, us in occ.items():
        shapes = []
        for u in us:
            t = _Blank(v, locs).visit(copy.deepcopy(u))
            try:
                shapes.append(ast.unparse(ast.fix_missing_locations(t)))
            except Exception:
                shapes.append(ast.dump(t))
        sig[v] = sorted(shapes)
    return sig


def _digest(fnode):
    import hashlib
    return hashlib.sha1(ast.dump(fnode).encode()).hexdigest()[:16]


def shapes(fnode):
    """rename-invariant texts of the function's own statements (every local blanked)"""
    import copy
    locs, params = _own_locals(fnode)
    out = []
    for u in _units(fnode):
        t = _Blank('\0none', locs).visit(copy.deepcopy(u))
        try:
            out.append(ast.unparse(ast.fix_missing_locations(t)))
        except Exception:
            out.append(ast.dump(t))
    return sorted(out)


def shape_distance(a, b):
    """(number of statements by which two shape multisets differ, Jaccard similarity of the multisets)"""
    from collections import Counter
    ca, cb = Counter(a), Counter(b)
    d = sum(((ca - cb) + (cb - ca)).values())
    u = sum((ca | cb).values())
    return d, (round(sum((ca & cb).values()) / u, 3) if u else 1.0)


def single_defs(fnode):
    """{local: text of E} for locals bound exactly once by a plain `local = E` (E not a bare name / literal)"""
    locs, params = _own_locals(fnode)
    stores = {}
    for n in walk_no_nested(fnode):
        if isinstance(n, ast.Name) and isinstance(n.ctx, (ast.Store, ast.Del)):
            stores[n.id] = stores.get(n.id, 0) + 1
    out = {}
    for st in walk_no_nested(fnode):
        if isinstance(st, ast.Assign) and len(st.targets) == 1 and isinstance(st.targets[0], ast.Name):
            v = st.targets[0].id
            if v in locs and stores.get(v) == 1 and not isinstance(st.value, (ast.Name, ast.Constant)):
                out[v] = ast.unparse(st.value)
    return out


def build_hints(prog):
    h = {}
    for m in prog.modules.values():
        for q, f in m.functions.items():
            h[m.relpath + '::' + q] = {'digest': _digest(f.node), 'sig': signatures(f.node), 'shapes': shapes(f.node), 'defs': single_defs(f.node)}
    return h


def _reextract_known_temporaries(fnode, defs, ref_shapes, respell):
    """A temporary of the reference (`v = E`, bound once) that the current text no longer has, while E still occurs as a
    sub-expression of a simple statement: the name is re-introduced in front of that statement (inverse of an inline-variable
    refactoring).  Applied only when it brings the function closer to the reference shape."""
    import copy
    done = []
    for _ in range(8):
        locs, params = _own_locals(fnode)
        progress = False
        for v, etext in sorted(defs.items()):
            if v in locs or v in params:
                continue
            base = shape_distance(shapes(fnode), ref_shapes)[0]
            trial = copy.deepcopy(fnode)
            if not _extract_one(trial, v, etext):
                continue
            respell(trial)
            if shape_distance(shapes(trial), ref_shapes)[0] < base:
                _extract_one(fnode, v, etext)
                respell(fnode)
                done.append(v)
                progress = True
                break
        if not progress:
            break
    return done


def _extract_one(fnode, v, etext):
    for owner in [fnode] + [x for x in walk_no_nested(fnode) if isinstance(x, (ast.If, ast.For, ast.While, ast.With, ast.Try))]:
        for field in ('body', 'orelse', 'finalbody'):
            blk = getattr(owner, field, None)
            if not isinstance(blk, list):
                continue
            for i, st in enumerate(blk):
                if not isinstance(st, (ast.Assign, ast.AugAssign, ast.Expr, ast.Return)):
                    continue
                hits = [x for x in ast.walk(st) if isinstance(x, ast.expr) and getattr(x, 'ctx', None).__class__ is not ast.Store
                        and not isinstance(x, (ast.Name, ast.Constant)) and ast.unparse(x) == etext]
                # not under lazy operators / comprehensions
                lazy = set()
                for x in ast.walk(st):
                    if isinstance(x, ast.BoolOp):
                        for w in x.values[1:]:
                            lazy |= {id(y) for y in ast.walk(w)}
                    elif isinstance(x, ast.IfExp):
                        lazy |= {id(y) for y in ast.walk(x.body)} | {id(y) for y in ast.walk(x.orelse)}
                    elif isinstance(x, (ast.Lambda, ast.ListComp, ast.SetComp, ast.DictComp, ast.GeneratorExp)):
                        lazy |= {id(y) for y in ast.walk(x)} - {id(x)}
                hits = [h for h in hits if id(h) not in lazy]
                if not hits:
                    continue
                first = hits[0]

                class _R(ast.NodeTransformer):
                    def generic_visit(self, n):
                        if isinstance(n, ast.expr) and not isinstance(n, (ast.Name, ast.Constant)) and getattr(n, 'ctx', None).__class__ is not ast.Store \
                                and id(n) not in lazy and ast.unparse(n) == etext:
                            return ast.copy_location(ast.Name(id=v, ctx=ast.Load()), n)
                        return super().generic_visit(n)
                import copy
                val = copy.deepcopy(first)
                _R().visit(st)
                new = ast.copy_location(ast.Assign(targets=[ast.Name(id=v, ctx=ast.Store())], value=val), st)
                ast.fix_missing_locations(new)
                ast.fix_missing_locations(st)
                blk.insert(i, new)
                return True
    return False


def _similarity(a, b):
    from collections import Counter
    ca, cb = Counter(a), Counter(b)
    inter = sum((ca & cb).values())
    union = sum((ca | cb).values())
    return inter / union if union else 0.0


def _mapping(cur, hint):
    """injective map current local -> hinted name (only entries that change the name)"""
    pairs = []
    for c, sc in cur.items():
        for h, sh in hint.items():
            s = _similarity(sc, sh)
            if s > 0:
                pairs.append((s + (0.001 if c == h else 0.0), c, h))
    pairs.sort(reverse=True)
    used_c, used_h, out = set(), set(), {}
    for s, c, h in pairs:
        if c in used_c or h in used_h:
            continue
        if s < 0.5:
            continue
        used_c.add(c)
        used_h.add(h)
        out[c] = h
    # names that keep their own name must not collide with a target name of another variable
    targets = set(out.values())
    final = {}
    for c in cur:
        t = out.get(c, c)
        final[c] = t
    # resolve collisions: an unmapped variable whose name is taken by someone else's target gets a fresh name
    taken = {}
    for c, t in final.items():
        if c in out:
            taken[t] = c
    for c, t in list(final.items()):
        if c not in out and t in taken and taken[t] != c:
            k = 1
            while (t + '_u%d' % k) in taken or (t + '_u%d' % k) in final.values():
                k += 1
            final[c] = t + '_u%d' % k
    return {c: t for c, t in final.items() if c != t}


def _apply(fnode, ren):
    """rename Name nodes referring to fnode's own locals, including free occurrences in nested functions that do not rebind them"""
    if not ren:
        return 0
    cnt = 0

    def rec(node, active):
        nonlocal cnt
        for ch in ast.iter_child_nodes(node):
            if isinstance(ch, (ast.FunctionDef, ast.AsyncFunctionDef, ast.Lambda)):
                a = ch.args
                bound = {x.arg for x in a.posonlyargs + a.args + a.kwonlyargs}
                if a.vararg:
                    bound.add(a.vararg.arg)
                if a.kwarg:
                    bound.add(a.kwarg.arg)
                if not isinstance(ch, ast.Lambda):
                    bound |= {n.id for n in walk_no_nested(ch) if isinstance(n, ast.Name) and isinstance(n.ctx, (ast.Store, ast.Del))}
                rec(ch, {k: v for k, v in active.items() if k not in bound})
            elif isinstance(ch, ast.Name):
                if ch.id in active:
                    ch.id = active[ch.id]
                    cnt += 1
            else:
                rec(ch, active)
    rec(fnode, dict(ren))
    return cnt


def _temporary_candidates(fnode, known):
    """names that `_inline_new_temporaries` could fold right now"""
    locs, params = _own_locals(fnode)
    stores, loads = {}, {}
    for n in walk_no_nested(fnode):
        if isinstance(n, ast.Name):
            (stores if isinstance(n.ctx, (ast.Store, ast.Del)) else loads).setdefault(n.id, []).append(n)
    return sorted(x for x in locs if x not in known and len(stores.get(x, [])) == 1 and loads.get(x))


def _inline_new_temporaries(fnode, known, only=None, limit=12):
    """A local that the reference version of the function does not have, that is assigned once (`x = E`, E free of random
    draws) and read only in the following statements of the same block (at most 6 of them, no loop), with none of E's operands
    (nor x) written in that stretch, is a freshly introduced temporary: its uses are replaced by E and the definition dropped
    (the inverse of an extract-variable / common-subexpression refactoring)."""
    import copy
    done = []
    for _ in range(limit):
        locs, params = _own_locals(fnode)
        cand = None
        stores, loads = {}, {}
        for n in walk_no_nested(fnode):
            if isinstance(n, ast.Name):
                (stores if isinstance(n.ctx, (ast.Store, ast.Del)) else loads).setdefault(n.id, []).append(n)
        mutated = set()
        for n in walk_no_nested(fnode):
            tg = []
            if isinstance(n, ast.Assign):
                tg = n.targets
            elif isinstance(n, (ast.AugAssign, ast.AnnAssign)):
                tg = [n.target]
            elif isinstance(n, ast.Call) and isinstance(n.func, ast.Attribute) and n.func.attr in (
                    'append', 'extend', 'sort', 'fill', 'setflags', 'add', 'update', 'remove', 'pop', 'insert', 'resize', 'put', 'itemset'):
                tg = [ast.Subscript(value=n.func.value, slice=ast.Constant(value=0), ctx=ast.Store())]
            elif isinstance(n, ast.Call) and isinstance(n.func, ast.Attribute) and n.func.attr == 'fill_diagonal' and n.args:
                tg = [ast.Subscript(value=n.args[0], slice=ast.Constant(value=0), ctx=ast.Store())]
            for t in tg:
                for tt in (t.elts if isinstance(t, (ast.Tuple, ast.List)) else [t]):
                    if isinstance(tt, (ast.Subscript, ast.Attribute)) or isinstance(n, ast.AugAssign):
                        bb = tt
                        while isinstance(bb, (ast.Subscript, ast.Attribute)):
                            bb = bb.value
                        if isinstance(bb, ast.Name):
                            mutated.add(bb.id)
        for owner in [fnode] + [x for x in walk_no_nested(fnode) if isinstance(x, (ast.If, ast.For, ast.While, ast.With, ast.Try))]:
            for field in ('body', 'orelse', 'finalbody'):
                blk = getattr(owner, field, None)
                if not isinstance(blk, list):
                    continue
                for i, st in enumerate(blk):
                    if not (isinstance(st, ast.Assign) and len(st.targets) == 1 and isinstance(st.targets[0], ast.Name)):
                        continue
                    x = st.targets[0].id
                    if x in known or x not in locs or len(stores.get(x, [])) != 1 or not loads.get(x) or (only is not None and x != only):
                        continue
                    if x in mutated:
                        continue            # written through (`x[i] = ..`, `x += ..`, `x.attr = ..`): an object with state, not a name for a value
                    txt = ast.unparse(st.value)
                    if 'rng' in txt or 'random' in txt:
                        continue
                    operands = {n.id for n in ast.walk(st.value) if isinstance(n, ast.Name)}
                    uses = loads[x]
                    # the statements of this block, right after the definition, that hold all the uses
                    holders = []
                    remaining = set(id(u) for u in uses)
                    ok = True
                    for j in range(i + 1, min(i + 7, len(blk))):
                        holder = blk[j]
                        here = {id(n) for n in ast.walk(holder)} & remaining
                        written = False
                        for n in ast.walk(holder):
                            if isinstance(n, ast.Name) and isinstance(n.ctx, (ast.Store, ast.Del)) and n.id in operands | {x}:
                                written = True
                            if isinstance(n, (ast.Subscript, ast.Attribute)) and isinstance(n.ctx, ast.Store):
                                bb = n
                                while isinstance(bb, (ast.Subscript, ast.Attribute)):
                                    bb = bb.value
                                if isinstance(bb, ast.Name) and bb.id in operands:
                                    written = True
                            if isinstance(n, ast.AugAssign):
                                bb = n.target
                                while isinstance(bb, (ast.Subscript, ast.Attribute)):
                                    bb = bb.value
                                if isinstance(bb, ast.Name) and bb.id in operands | {x}:
                                    written = True
                        remaining -= here
                        if here:
                            holders.append(holder)
                        if isinstance(holder, (ast.For, ast.While)) and here and written:
                            ok = False      # re-evaluated per iteration while an operand changes inside the loop
                            break
                        if written and remaining:
                            ok = False      # an operand changes while uses are still to come
                            break
                        if written and here and len(uses) > 1:
                            # the statement both uses x and writes an operand: fine only if it is the last use
                            pass
                        if not remaining:
                            break
                    if ok and not remaining and holders:
                        cand = (blk, i, st, uses, holders)
                    if cand:
                        break
                if cand:
                    break
            if cand:
                break
        if not cand:
            break
        blk, i, st, uses, holders = cand
        ids = {id(u) for u in uses}

        class _Sub(ast.NodeTransformer):
            def visit_Name(self, n):
                if id(n) in ids:
                    return ast.copy_location(copy.deepcopy(st.value), n)
                return n
        for h in holders:
            _Sub().visit(h)
        del blk[i]
        done.append(st.targets[0].id)
    return done


# ---------------------------------------------------------------------------------------------------------------------
# helpers introduced by an extract-function refactoring are expanded at their call sites

_HCOUNT = [0]


def _tail_returns_only(stmts):
    """True if every Return of the statement list is in tail position (never inside a loop / try / with), so that the body can
    be spliced with `return E` turned into an assignment."""
    def ok(block, tail):
        for i, st in enumerate(block):
            last = tail and i == len(block) - 1
            if isinstance(st, ast.Return):
                if not last:
                    return False
            elif isinstance(st, ast.If):
                if not ok(st.body, last) or not ok(st.orelse, last):
                    return False
            elif isinstance(st, (ast.For, ast.While, ast.With, ast.Try, ast.AsyncFor, ast.AsyncWith)):
                if any(isinstance(x, ast.Return) for x in ast.walk(st)):
                    return False
            elif isinstance(st, (ast.FunctionDef, ast.AsyncFunctionDef, ast.ClassDef, ast.Global, ast.Nonlocal)):
                return False
            elif any(isinstance(x, (ast.Yield, ast.YieldFrom, ast.Await)) for x in ast.walk(st)):
                return False
        return True
    return ok(stmts, True)


def _all_paths_return(block):
    if not block:
        return False
    last = block[-1]
    if isinstance(last, ast.Return):
        return True
    if isinstance(last, ast.If):
        return _all_paths_return(last.body) and _all_paths_return(last.orelse)
    if isinstance(last, ast.Raise):
        return True
    return False


def _bind(hnode, call):
    """{param: argument expression} or None when the call cannot be matched to the signature"""
    a = hnode.args
    if a.vararg or a.kwarg or a.posonlyargs and False:
        return None
    if any(isinstance(x, ast.Starred) for x in call.args) or any(k.arg is None for k in call.keywords):
        return None
    pos = [x.arg for x in a.posonlyargs + a.args]
    kwo = [x.arg for x in a.kwonlyargs]
    defaults = {}
    for pn, d in zip(pos[len(pos) - len(a.defaults):], a.defaults):
        defaults[pn] = d
    for pn, d in zip(kwo, a.kw_defaults):
        if d is not None:
            defaults[pn] = d
    if len(call.args) > len(pos):
        return None
    out = {}
    for pn, arg in zip(pos, call.args):
        out[pn] = arg
    for k in call.keywords:
        if k.arg in out or k.arg not in pos + kwo:
            return None
        out[k.arg] = k.value
    for pn in pos + kwo:
        if pn not in out:
            if pn not in defaults:
                return None
            out[pn] = defaults[pn]
    return out


class _Subst(ast.NodeTransformer):
    def __init__(self, mapping):
        self.mapping = mapping

    def visit_Name(self, n):
        if n.id in self.mapping:
            rep = self.mapping[n.id]
            if isinstance(rep, str):
                return ast.copy_location(ast.Name(id=rep, ctx=n.ctx), n)
            if isinstance(n.ctx, ast.Load):
                import copy
                return ast.copy_location(copy.deepcopy(rep), n)
        return n


def _expand_call(hnode, call, mode, target_stmt):
    """statements + result expression of one expanded call.  mode: 'assign' (target_stmt = Assign whose value is the call),
    'expr' (bare call), 'return', or 'value' (call inside a larger expression: only helpers whose body is straight-line)."""
    import copy
    binding = _bind(hnode, call)
    if binding is None:
        return None
    body = [st for st in hnode.body if not (isinstance(st, ast.Expr) and isinstance(st.value, ast.Constant) and isinstance(st.value.value, str))]
    if not body or not _tail_returns_only(body):
        return None
    straight = all(isinstance(st, (ast.Assign, ast.AugAssign, ast.Expr, ast.Return, ast.AnnAssign)) for st in body)
    via_temp = None
    if mode == 'value' and not (straight and isinstance(body[-1], ast.Return) and body[-1].value is not None):
        if not _all_paths_return(body):
            return None
        # a helper with branches used inside an expression: its result goes through a fresh name assigned on every path
        _HCOUNT[0] += 1
        via_temp = '_h%d_result' % _HCOUNT[0]
        mode = 'assign'
        target_stmt = ast.copy_location(ast.Assign(targets=[ast.Name(id=via_temp, ctx=ast.Store())], value=call), target_stmt)
    if mode in ('assign', 'value', 'return') and not _all_paths_return(body):
        return None
    _HCOUNT[0] += 1
    tag = '_h%d_' % _HCOUNT[0]
    locs, params = _own_locals(hnode)
    stored_params = {n.id for n in walk_no_nested(hnode) if isinstance(n, ast.Name) and isinstance(n.ctx, (ast.Store, ast.Del)) and n.id in params}
    mapping = {v: tag + v for v in locs}
    pre = []
    # `T = helper(T, ...)` where the helper rebinds that parameter and returns it on every path: the parameter *is* T
    same_name = None
    if mode == 'assign' and len(target_stmt.targets) == 1 and isinstance(target_stmt.targets[0], ast.Name):
        tname = target_stmt.targets[0].id
        rets = [x for x in ast.walk(hnode) if isinstance(x, ast.Return)]
        for pn, arg in binding.items():
            if isinstance(arg, ast.Name) and arg.id == tname and rets and all(isinstance(r.value, ast.Name) and r.value.id == pn for r in rets):
                same_name = pn
    # `T = helper(..)` where every return hands back the same helper-local `r`: that local *is* T in the expanded text
    ret_local = None
    if mode == 'assign' and same_name is None and len(target_stmt.targets) == 1 and isinstance(target_stmt.targets[0], ast.Name):
        rets = [x for x in ast.walk(hnode) if isinstance(x, ast.Return)]
        names = {r.value.id for r in rets if isinstance(r.value, ast.Name)}
        tname = target_stmt.targets[0].id
        if rets and len(names) == 1 and all(isinstance(r.value, ast.Name) for r in rets) and next(iter(names)) in locs \
                and tname not in {n.id for a_ in binding.values() for n in ast.walk(a_) if isinstance(n, ast.Name)}:
            ret_local = next(iter(names))
            mapping[ret_local] = tname
    # `A, B = helper(..)` where every return is the same tuple of distinct helper-locals: those locals *are* A and B
    ret_tuple = False
    if mode == 'assign' and same_name is None and ret_local is None and len(target_stmt.targets) == 1 \
            and isinstance(target_stmt.targets[0], (ast.Tuple, ast.List)) and all(isinstance(e, ast.Name) for e in target_stmt.targets[0].elts):
        tnames = [e.id for e in target_stmt.targets[0].elts]
        rets = [x for x in ast.walk(hnode) if isinstance(x, ast.Return)]
        forms = {tuple(e.id if isinstance(e, ast.Name) else None for e in r.value.elts) if isinstance(r.value, ast.Tuple) else None for r in rets}
        argnames = {n.id for a_ in binding.values() for n in ast.walk(a_) if isinstance(n, ast.Name)}
        if rets and len(forms) == 1:
            form = next(iter(forms))
            if form is not None and len(form) == len(tnames) and None not in form and len(set(form)) == len(form):
                # each returned name is a helper-local (then the target must not be read by the arguments), or a parameter that was
                # called with exactly the target's own name (`s0, d0 = h(s0, d0)`: the parameter is that variable)
                def fits(x, t):
                    if x in locs:
                        return t not in argnames
                    return x in binding and isinstance(binding[x], ast.Name) and binding[x].id == t
                if all(fits(x, t) for x, t in zip(form, tnames)):
                    for loc_, t_ in zip(form, tnames):
                        mapping[loc_] = t_
                    ret_tuple = True
    for pn, arg in binding.items():
        simple = not any(isinstance(x, (ast.Call, ast.Lambda, ast.IfExp, ast.BoolOp, ast.ListComp, ast.GeneratorExp)) for x in ast.walk(arg))
        if pn == same_name:
            mapping[pn] = arg.id
        elif ret_tuple and isinstance(mapping.get(pn), str):
            pass                      # parameter identified with a target of the same name above
        elif simple and pn not in stored_params:
            mapping[pn] = arg
        else:
            mapping[pn] = tag + pn
            pre.append(ast.Assign(targets=[ast.Name(id=tag + pn, ctx=ast.Store())], value=copy.deepcopy(arg)))
    new_body = [_Subst(mapping).visit(copy.deepcopy(st)) for st in body]

    def retarget(block):
        out = []
        for st in block:
            if isinstance(st, ast.Return):
                v = st.value if st.value is not None else ast.Constant(value=None)
                if mode == 'assign':
                    if ret_tuple and isinstance(v, ast.Tuple) and [getattr(e, 'id', None) for e in v.elts] == [e.id for e in target_stmt.targets[0].elts]:
                        pass
                    elif not ((same_name is not None or ret_local is not None) and isinstance(v, ast.Name) and v.id == target_stmt.targets[0].id):
                        out.append(ast.Assign(targets=copy.deepcopy(target_stmt.targets), value=v))
                elif mode == 'return':
                    out.append(ast.Return(value=v))
                elif mode == 'expr':
                    pass
                else:
                    out.append(('VALUE', v))
            elif isinstance(st, ast.If):
                st.body = retarget(st.body) or [ast.Pass()]
                st.orelse = retarget(st.orelse)
                out.append(st)
            else:
                out.append(st)
        return out
    stmts = retarget(new_body)
    value = None
    if mode == 'value':
        value = stmts[-1][1]
        stmts = stmts[:-1]
    if via_temp is not None:
        value = ast.Name(id=via_temp, ctx=ast.Load())
    stmts = [x for x in pre + stmts if not isinstance(x, ast.Pass)]
    # every node of the expansion is positioned at the call site, in evaluation order (the helper's own line numbers mean nothing here)
    counter = [getattr(target_stmt, 'col_offset', 0) * 1000]

    def place(node):
        if isinstance(node, ast.Assign):
            order = [node.value] + list(node.targets)
        elif isinstance(node, ast.AugAssign):
            order = [node.value, node.target]
        else:
            order = list(ast.iter_child_nodes(node))
        if hasattr(node, 'lineno') or isinstance(node, (ast.expr, ast.stmt)):
            node.lineno = node.end_lineno = getattr(target_stmt, 'lineno', 1)
            counter[0] += 1
            node.col_offset = node.end_col_offset = counter[0]
        for ch in order:
            place(ch)
    for x in stmts:
        place(x)
    if value is not None:
        place(value)
    return stmts, value


def _inline_new_helpers(fnode, helpers):
    """expand calls `h(...)` (h in helpers: {name: FunctionDef}) inside fnode; returns names of expanded helpers"""
    done = []
    for _round in range(4):
        changed = False
        for owner in [fnode] + [x for x in walk_no_nested(fnode) if isinstance(x, (ast.If, ast.For, ast.While, ast.With, ast.Try))]:
            for field in ('body', 'orelse', 'finalbody'):
                blk = getattr(owner, field, None)
                if not isinstance(blk, list):
                    continue
                i = 0
                while i < len(blk):
                    st = blk[i]
                    rep = None
                    hname = None

                    def is_h(e):
                        return isinstance(e, ast.Call) and isinstance(e.func, ast.Name) and e.func.id in helpers and e.func.id != fnode.name
                    if isinstance(st, ast.Assign) and is_h(st.value):
                        hname = st.value.func.id
                        r = _expand_call(helpers[hname], st.value, 'assign', st)
                        rep = r[0] if r else None
                    elif isinstance(st, ast.Expr) and is_h(st.value):
                        hname = st.value.func.id
                        r = _expand_call(helpers[hname], st.value, 'expr', st)
                        rep = r[0] if r else None
                    elif isinstance(st, ast.Return) and st.value is not None and is_h(st.value):
                        hname = st.value.func.id
                        r = _expand_call(helpers[hname], st.value, 'return', st)
                        rep = r[0] if r else None
                    if rep is None and isinstance(st, (ast.Assign, ast.AugAssign, ast.Expr, ast.Return, ast.If, ast.AnnAssign)):
                        # calls nested in the statement's own expressions (for If: its test only; not under lazy operators)
                        exprs = [st.test] if isinstance(st, ast.If) else [c for c in ast.iter_child_nodes(st) if isinstance(c, ast.expr)]
                        lazy = set()
                        for e in exprs:
                            for x in ast.walk(e):
                                if isinstance(x, ast.BoolOp):
                                    for v in x.values[1:]:
                                        lazy |= {id(y) for y in ast.walk(v)}
                                elif isinstance(x, ast.IfExp):
                                    lazy |= {id(y) for y in ast.walk(x.body)} | {id(y) for y in ast.walk(x.orelse)}
                                elif isinstance(x, (ast.Lambda, ast.ListComp, ast.SetComp, ast.DictComp, ast.GeneratorExp)):
                                    lazy |= {id(y) for y in ast.walk(x)} - {id(x)}
                        cand = None
                        for e in exprs:
                            for x in ast.walk(e):
                                if is_h(x) and id(x) not in lazy:
                                    cand = x
                                    break
                            if cand is not None:
                                break
                        if cand is not None:
                            r = _expand_call(helpers[cand.func.id], cand, 'value', st)
                            if r:
                                pre, val = r

                                class _R(ast.NodeTransformer):
                                    def visit_Call(self, n):
                                        if n is cand:
                                            return ast.copy_location(val, n)
                                        return self.generic_visit(n)
                                _R().visit(st)
                                ast.fix_missing_locations(st)
                                blk[i:i] = pre
                                done.append(cand.func.id)
                                changed = True
                                i += len(pre)
                                continue
                    if rep is not None:
                        blk[i:i + 1] = rep if rep else [ast.copy_location(ast.Pass(), st)]
                        done.append(hname)
                        changed = True
                        i += max(len(rep), 1)
                        continue
                    i += 1
        if not changed:
            break
    return done


def _merge_expanded_locals(fnode, known):
    """A local `_hK_x` created by a helper expansion whose base name `x` is a variable of the reference: the helper re-used a name
    the reference function also uses elsewhere (typically a loop variable).  The two are merged when their lifetimes cannot overlap:
    every other occurrence of `x` lies in statements entirely before the expanded region, or entirely after it and then starting with
    a store, and no loop encloses both."""
    import re
    done = {}
    names = {}
    for n in walk_no_nested(fnode):
        if isinstance(n, ast.Name):
            names.setdefault(n.id, []).append(n)
    for full in sorted(names):
        mm = re.match(r'_h\d+_(.+)$', full)
        if not mm:
            continue
        base = mm.group(1)
        if base not in known or full in known:
            continue
        mine = names[full]
        if not isinstance(sorted(mine, key=lambda n: (n.lineno, n.col_offset))[0].ctx, ast.Store):
            continue
        other = names.get(base, [])
        pm = _ParentLoops(fnode)
        region_loops = set()
        for n in mine:
            region_loops |= pm.loops_of(n)
        region_loops_common = None
        for n in mine:
            lp = pm.loops_of(n)
            region_loops_common = lp if region_loops_common is None else (region_loops_common & lp)
        ok = True
        lo = min((n.lineno, n.col_offset) for n in mine)
        hi = max((n.lineno, n.col_offset) for n in mine)
        after = []
        for n in other:
            pos = (n.lineno, n.col_offset)
            if pm.loops_of(n) & (region_loops_common or set()):
                ok = False        # shares an enclosing loop with the region: values may flow around the loop
                break
            if pos < lo:
                continue
            if pos > hi:
                after.append(n)
            else:
                ok = False
                break
        if ok and after:
            first = sorted(after, key=lambda n: (n.lineno, n.col_offset))[0]
            ok = isinstance(first.ctx, ast.Store)
        if ok:
            for n in mine:
                n.id = base
            done[full] = base
    return done


class _ParentLoops:
    def __init__(self, fnode):
        self.loops = {}

        def rec(node, stack):
            for ch in ast.iter_child_nodes(node):
                if isinstance(ch, (ast.FunctionDef, ast.AsyncFunctionDef, ast.Lambda)):
                    continue
                st2 = stack
                if isinstance(node, (ast.For, ast.While)) and (ch in node.body or ch is getattr(node, 'target', None) or ch is getattr(node, 'test', None)):
                    st2 = stack | {id(node)}
                self.loops[id(ch)] = st2
                rec(ch, st2)
        rec(fnode, frozenset())

    def loops_of(self, n):
        return set(self.loops.get(id(n), ()))


def _renumber(fnode):
    """After an expansion several statements share the line of the call.  Statements get strictly increasing line numbers in
    program order again (rules compare positions); the numbers stay inside the function's own line range where possible."""
    order = []

    def rec(block):
        for st in block:
            order.append(st)
            for field in ('body', 'orelse', 'finalbody'):
                sub = getattr(st, field, None)
                if isinstance(sub, list) and sub and isinstance(sub[0], ast.stmt):
                    rec(sub)
            for h in getattr(st, 'handlers', []) or []:
                rec(h.body)
    rec(fnode.body)
    last = fnode.lineno
    for st in order:
        want = getattr(st, 'lineno', last + 1)
        new = want if want > last else last + 1
        delta = new - getattr(st, 'lineno', new)
        if delta:
            def own(node):
                yield node
                for ch in ast.iter_child_nodes(node):
                    if not isinstance(ch, (ast.stmt, ast.ExceptHandler)):
                        yield from own(ch)
            for n in own(st):
                if hasattr(n, 'lineno'):
                    n.lineno = n.lineno + delta
                    if getattr(n, 'end_lineno', None) is not None:
                        n.end_lineno = n.end_lineno + delta
        last = new


def _fold_tuple_copies(fnode, known):
    """`a, t = f(..)` followed (next statement) by `X = t`, with t a name the reference does not have and used nowhere else:
    the element is written directly, `a, X = f(..)`."""
    done = []
    for owner in [fnode] + [x for x in walk_no_nested(fnode) if isinstance(x, (ast.If, ast.For, ast.While, ast.With, ast.Try))]:
        for field in ('body', 'orelse', 'finalbody'):
            blk = getattr(owner, field, None)
            if not isinstance(blk, list):
                continue
            i = 0
            while i + 1 < len(blk):
                st, nx = blk[i], blk[i + 1]
                if isinstance(st, ast.Assign) and len(st.targets) == 1 and isinstance(st.targets[0], ast.Tuple) \
                        and isinstance(nx, ast.Assign) and len(nx.targets) == 1 and isinstance(nx.value, ast.Name):
                    t = nx.value.id
                    elts = st.targets[0].elts
                    pos = [k for k, e in enumerate(elts) if isinstance(e, ast.Name) and e.id == t]
                    uses = [n for n in ast.walk(fnode) if isinstance(n, ast.Name) and n.id == t]
                    tgt_names = {n.id for n in ast.walk(nx.targets[0]) if isinstance(n, ast.Name)}
                    other = {n.id for k, e in enumerate(elts) for n in ast.walk(e) if isinstance(n, ast.Name) and k not in pos}
                    if t not in known and len(pos) == 1 and len(uses) == 2 and not (tgt_names & other) and t not in tgt_names:
                        new_t = nx.targets[0]
                        for n in ast.walk(new_t):
                            if hasattr(n, 'ctx') and isinstance(n, (ast.Name, ast.Subscript, ast.Attribute)) and n is new_t:
                                n.ctx = ast.Store()
                        elts[pos[0]] = new_t
                        del blk[i + 1]
                        done.append(t)
                        continue
                i += 1
    return done


def normalise(prog, hints=None):
    """Rename locals in place (outer functions first).  Returns {function key: {old: new}} for the report."""
    if hints is None:
        if not os.path.exists(HINTS):
            return {}
        with open(HINTS) as f:
            hints = json.load(f)
    done = {}
    dist = {}
    prog.restructured = dist      # {function key: statements differing from the shape the rules were written against}
    for m in prog.modules.values():
        # module-level functions the reference tree does not have (extract-function refactorings)
        helpers = {q: f.node for q, f in m.functions.items() if '.' not in q and (m.relpath + '::' + q) not in hints and f.cls is None}
        for q in sorted(m.functions, key=lambda x: x.count('.')):
            f = m.functions[q]
            key = m.relpath + '::' + q
            if key not in hints:
                continue
            if hints[key].get('digest') == _digest(f.node):
                continue            # function unchanged since the hints were taken: identity renaming
            from .spelling import canonical, numpy_alias
            if not hasattr(m, '_np_alias'):
                m._np_alias = numpy_alias(m.tree)
            if helpers:
                exp = _inline_new_helpers(f.node, helpers)
                if exp:
                    # expansions can expose idioms the load-time spelling pass could not see (e.g. `helper(x) & mask`)
                    canonical(f.node, m._np_alias)
                    _renumber(f.node)
                    done.setdefault(key, {}).update({h: '<expanded>' for h in exp})
            known = set(hints[key]['sig'])
            ref_shapes = hints[key].get('shapes')
            import copy as _copy
            for _round in range(16):
                cur = signatures(f.node)
                ren = _mapping(cur, hints[key]['sig']) if cur and hints[key]['sig'] else {}
                if ren:
                    _apply(f.node, ren)
                    done.setdefault(key, {}).update(ren)
                if not ren:
                    mrg = _merge_expanded_locals(f.node, known)
                    if mrg:
                        done.setdefault(key, {}).update(mrg)
                        ren = mrg
                # fold ONE unknown temporary per round, the one that brings the function closest to the reference shape (a renamed
                # variable of the reference must not be folded away before the renaming step had a chance to recognise it)
                inl = _fold_tuple_copies(f.node, known)
                if not inl:
                    cands = _temporary_candidates(f.node, known)
                    if ref_shapes is None:
                        inl = _inline_new_temporaries(f.node, known)
                    elif cands:
                        base = shape_distance(shapes(f.node), ref_shapes)[0]
                        best = None
                        for nm in cands:
                            trial = _copy.deepcopy(f.node)
                            if _inline_new_temporaries(trial, known, only=nm, limit=1):
                                canonical(trial, m._np_alias)
                                d_ = shape_distance(shapes(trial), ref_shapes)[0]
                                if d_ < base and (best is None or d_ < best[0]):
                                    best = (d_, nm)
                        if best is not None:
                            inl = _inline_new_temporaries(f.node, known, only=best[1], limit=1)
                if inl:
                    done.setdefault(key, {}).update({k: '<inlined>' for k in inl})
                    canonical(f.node, m._np_alias)
                rex = []
                if not ren and not inl and ref_shapes is not None and hints[key].get('defs'):
                    rex = _reextract_known_temporaries(f.node, hints[key]['defs'], ref_shapes, lambda nd: canonical(nd, m._np_alias))
                    if rex:
                        done.setdefault(key, {}).update({k: '<re-extracted>' for k in rex})
                if not ren and not inl and not rex:
                    break
            if 'shapes' in hints[key]:
                dist[key] = shape_distance(shapes(f.node), hints[key]['shapes'])
    if done:
        from . import loader
        loader.invalidate_caches()
    return done
