"""Whole-package call graph over resolved callees.

Edges: f -> g when f's own body (nested defs are separate nodes, linked by an
edge from the enclosing function) contains a call whose callee resolves to g,
or a bare reference to g (function passed as a value: map(f, ...), callbacks).
"""
import ast

from ..core.loader import FuncInfo, walk_no_nested


class CallGraph:
    def __init__(self, prog):
        self.prog = prog
        self.edges = {}        # FuncInfo -> set(FuncInfo)
        self.calls = {}        # FuncInfo -> list of (Call node, resolution)
        self.unresolved = []   # (FuncInfo, Call node, resolution)
        for f in prog.all_functions():
            self._scan(f)

    def _scan(self, f):
        es = set()
        cl = []
        for sub in f.nested.values():
            es.add(sub)
        for n in walk_no_nested(f.node):
            if isinstance(n, ast.Call):
                r = self.prog.resolve_expr(f, n.func)
                cl.append((n, r))
                if r[0] == 'func':
                    es.add(r[1])
                elif r[0] in ('unknown', 'dynamic'):
                    self.unresolved.append((f, n, r))
            elif isinstance(n, ast.Name) and isinstance(n.ctx, ast.Load):
                r = self.prog.resolve_name(f, n.id)
                if r[0] == 'func':
                    es.add(r[1])
        # decorators / defaults are evaluated at definition time: ignore
        self.edges[f] = es
        self.calls[f] = cl

    def closure(self, f):
        seen = {f}
        stack = [f]
        while stack:
            x = stack.pop()
            for y in self.edges.get(x, ()):
                if y not in seen:
                    seen.add(y)
                    stack.append(y)
        return seen

    def path(self, src, pred):
        """Shortest call path from src to a function satisfying pred (list of FuncInfo) or None."""
        from collections import deque
        prev = {src: None}
        dq = deque([src])
        while dq:
            x = dq.popleft()
            if pred(x):
                out = []
                while x is not None:
                    out.append(x)
                    x = prev[x]
                return list(reversed(out))
            for y in sorted(self.edges.get(x, ()), key=lambda z: z.key):
                if y not in prev:
                    prev[y] = x
                    dq.append(y)
        return None
