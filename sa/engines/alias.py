"""Engine A (aliasing part): interprocedural may-mutate / may-return-alias analysis.

For every function and every parameter: can some path write memory reachable
from the parameter?  Forward dataflow over the statement CFG; abstract value of
a variable = set of parameter roots it may share memory with (FRESH = none).
The NumPy view/copy table below is the trusted base (printed in the evidence).
Modes: 'default' (every copy-like flag has its default) and 'inplace' (copy-like
flags False); a branch on a bare copy-like parameter is pruned accordingly.
"""
import ast
import re

from ..core.astutil import norm
from ..core.cfg import CFG, ENTRY
from ..core.loader import AnalysisError, walk_no_nested, local_stores

FRESH = '<fresh>'

# attribute reads that keep sharing memory
VIEW_ATTRS = {'T', 'flat', 'real', 'imag', 'mT', 'base', 'data'}
# methods whose result shares memory with the receiver
VIEW_METHODS = {'reshape', 'ravel', 'squeeze', 'view', 'transpose', 'swapaxes', 'diagonal', '__array__', 'get'}
# methods whose result is fresh
FRESH_METHODS = {'copy', 'astype', 'flatten', 'tolist', 'sum', 'mean', 'max', 'min', 'any', 'all', 'dot', 'nonzero',
                 'argmax', 'argmin', 'argsort', 'cumsum', 'prod', 'std', 'var', 'round', 'conj', 'conjugate', 'item',
                 'toarray', 'todense', 'tocsc', 'tocsr', 'keys', 'values', 'items', 'index', 'count', 'format', 'join',
                 'split', 'strip', 'lower', 'upper', 'startswith', 'endswith', 'trace', 'repeat', 'take', 'clip', 'ptp',
                 'searchsorted', 'union', 'intersection', 'difference', 'issubset',
                 'rand', 'randn', 'randint', 'random_sample', 'random', 'permutation', 'choice', 'normal', 'uniform',
                 'map', 'imap', 'close', 'join', 'cdf', 'pdf', 'ppf', 'isf', 'sf', 'rvs'}
# in-place mutators of the receiver
MUTATOR_METHODS = {'sort', 'fill', 'resize', 'partition', 'itemset', 'setflags', 'put', 'setfield', 'byteswap',
                   'append', 'extend', 'insert', 'remove', 'pop', 'clear', 'update', 'reverse', 'add', 'discard',
                   'setdefault', 'popitem', '__setitem__', '__delitem__', '__iadd__'}
# numpy functions: result shares memory with first argument
NP_VIEW_FUNCS = {'asarray', 'asanyarray', 'atleast_1d', 'atleast_2d', 'atleast_3d', 'transpose', 'reshape', 'ravel',
                 'squeeze', 'real', 'imag', 'diagonal', 'swapaxes', 'moveaxis', 'rollaxis', 'broadcast_to',
                 'expand_dims', 'asmatrix', 'asfortranarray', 'ascontiguousarray', 'nan_to_num_inplace', 'flatiter',
                 'split', 'hsplit', 'vsplit', 'array_split', 'require', 'diag'}
# numpy functions that write their first (or named) argument: name -> index of mutated positional arg
NP_MUTATORS = {'fill_diagonal': 0, 'put': 0, 'place': 0, 'putmask': 0, 'copyto': 0, 'put_along_axis': 0,
               'add.at': 0, 'subtract.at': 0, 'multiply.at': 0, 'maximum.at': 0, 'minimum.at': 0}
RNG_MUTATORS = {'shuffle'}   # rng.shuffle(x) / random.shuffle(x) / np.random.shuffle(x)

SCALAR_DOC = re.compile(r'\b(int|float|bool|str|string|scalar|number|hashable|enum|callable|function|tuple of floats)\b', re.I)
ARRAY_DOC = re.compile(r'(ndarray|array|matrix|vector|N\s*x\s*N|Nx1|NxN|Mx|list|dict|sequence|iterable|\bset\b)', re.I)


def doc_param_kinds(fnode):
    """numpydoc 'name : type' lines -> {'name': 'scalar'|'array'}."""
    doc = ast.get_docstring(fnode) or ''
    out = {}
    for line in doc.splitlines():
        m = re.match(r'^\s*([A-Za-z_][A-Za-z0-9_]*(?:\s*,\s*[A-Za-z_][A-Za-z0-9_]*)*)\s*:\s*(.+)$', line)
        if not m:
            continue
        names = [x.strip() for x in m.group(1).split(',')]
        typ = m.group(2)
        kind = None
        if ARRAY_DOC.search(typ):
            kind = 'array'
        elif SCALAR_DOC.search(typ):
            kind = 'scalar'
        if kind:
            for nm in names:
                out.setdefault(nm, kind)
                out.setdefault(nm.lower(), kind)
    return out


def _held(roots):
    """roots of values placed inside a python container: the container itself is fresh, it holds references."""
    return {('*' + r) if (r != FRESH and not r.startswith('*')) else r for r in roots}


class Site:
    __slots__ = ('func', 'node', 'root', 'what', 'via')

    def __init__(self, func, node, root, what, via=None):
        self.func = func
        self.node = node
        self.root = root
        self.what = what
        self.via = via or []

    def describe(self):
        s = '%s at %s:%d in %s' % (self.what, self.func.module.relpath, getattr(self.node, 'lineno', 0), self.func.qualname)
        if self.via:
            s += ' (reached through ' + ' -> '.join(self.via) + ')'
        return s


class Summary:
    def __init__(self):
        self.mutates = {}     # param -> list[Site]
        self.returns = set()  # params the return value may alias (FRESH may be included)
        self.unknown_prims = []


class AliasEngine:
    def __init__(self, prog):
        self.prog = prog
        self.funcs = list(prog.all_functions())
        self.summ = {}          # (FuncInfo, mode) -> Summary
        self.copy_flags = {f: self._copy_flags(f) for f in self.funcs}
        self.int_kinds = {}
        self.doc_kinds = {f: doc_param_kinds(f.node) for f in self.funcs}
        self.unknown = []
        self.stats = {'write_sites': 0, 'copy_sites': 0, 'fill_diagonal_sites': 0, 'calls_with_summary': 0}
        self._fix()

    # ------------------------------------------------------------------ flags
    def _copy_flags(self, f):
        """The documented opt-in in-place switch: a parameter named `copy` with a bool default."""
        out = {}
        d = f.defaults.get('copy')
        if 'copy' in f.all_params and isinstance(d, ast.Constant) and isinstance(d.value, bool):
            out['copy'] = d.value
        return out

    @staticmethod
    def _flag_test(test, p):
        """Returns True if test == p, False if test == not p, else None."""
        if isinstance(test, ast.Name) and test.id == p:
            return True
        if isinstance(test, ast.UnaryOp) and isinstance(test.op, ast.Not) and isinstance(test.operand, ast.Name) and test.operand.id == p:
            return False
        return None

    def flag_values(self, f, mode):
        if mode == 'default':
            return dict(self.copy_flags[f])
        return {p: False for p in self.copy_flags[f]}

    # ------------------------------------------------------------------ fixpoint
    def _fix(self):
        for f in self.funcs:
            for mode in ('default', 'inplace'):
                self.summ[(f, mode)] = Summary()
        for rnd in range(8):
            changed = False
            self.stats = {k: 0 for k in self.stats}
            self.unknown = []
            for f in self.funcs:
                for mode in ('default', 'inplace'):
                    new = self._analyse(f, mode)
                    old = self.summ[(f, mode)]
                    if set(new.mutates) != set(old.mutates) or new.returns != old.returns:
                        changed = True
                    self.summ[(f, mode)] = new
            if not changed:
                break
        else:
            raise AnalysisError('alias summaries did not converge')

    # ------------------------------------------------------------------ kinds
    def _int_kinded(self, f):
        """Names in f that only ever hold python/numpy integer scalars (or None)."""
        if f in self.int_kinds:
            return self.int_kinds[f]
        defs = {}
        for n in walk_no_nested(f.node):
            if isinstance(n, ast.Assign):
                for t in n.targets:
                    if isinstance(t, ast.Name):
                        defs.setdefault(t.id, []).append(('expr', n.value))
                    elif isinstance(t, (ast.Tuple, ast.List)):
                        if isinstance(n.value, (ast.Tuple, ast.List)) and len(n.value.elts) == len(t.elts):
                            for a, b in zip(t.elts, n.value.elts):
                                if isinstance(a, ast.Name):
                                    defs.setdefault(a.id, []).append(('expr', b))
                        else:
                            for a in t.elts:
                                if isinstance(a, ast.Name):
                                    defs.setdefault(a.id, []).append(('unpack', n.value))
            elif isinstance(n, ast.AugAssign) and isinstance(n.target, ast.Name):
                defs.setdefault(n.target.id, []).append(('expr', n.value))
            elif isinstance(n, (ast.For, ast.comprehension)):
                tg = n.target
                it = n.iter
                names = [tg] if isinstance(tg, ast.Name) else [e for e in getattr(tg, 'elts', []) if isinstance(e, ast.Name)]
                for i, a in enumerate(names):
                    defs.setdefault(a.id, []).append(('iter', it, i, isinstance(tg, ast.Name)))
        dk = self.doc_kinds[f]
        ints = set()
        for p in f.all_params:
            if dk.get(p) == 'scalar':
                ints.add(p)
        changed = True
        while changed:
            changed = False
            for nm, ds in defs.items():
                if nm in ints or nm in f.all_params:
                    continue
                if all(self._def_is_int(f, d, ints) for d in ds):
                    ints.add(nm)
                    changed = True
        self.int_kinds[f] = ints
        return ints

    def _def_is_int(self, f, d, ints):
        if d[0] == 'expr':
            return self._expr_is_int(f, d[1], ints)
        if d[0] == 'iter':
            it = d[1]
            if isinstance(it, ast.Call) and isinstance(it.func, ast.Name):
                if it.func.id in ('range', 'xrange'):
                    return True
                if it.func.id == 'enumerate':
                    return d[2] == 0 and not d[3]
            return False
        if d[0] == 'unpack':
            v = d[1]
            # a, b, c, d = pick_four_unique_nodes_quickly(n, rng) ; e1, e2 = rng.randint(k, size=(2,))
            if isinstance(v, ast.Call):
                r = self.prog.resolve_expr(f, v.func)
                if r[0] == 'func' and r[1].name == 'pick_four_unique_nodes_quickly':
                    return True
                if r[0] == 'method' and v.func.attr == 'randint':
                    return True
                if r[0] == 'ext' and r[1] in ('numpy.unravel_index',):
                    return True
            return False
        return False

    def _expr_is_int(self, f, e, ints):
        if isinstance(e, ast.Constant):
            return isinstance(e.value, (int, float, bool)) or e.value is None
        if isinstance(e, ast.Name):
            return e.id in ints
        if isinstance(e, ast.UnaryOp):
            return self._expr_is_int(f, e.operand, ints)
        if isinstance(e, ast.BinOp):
            return self._expr_is_int(f, e.left, ints) and self._expr_is_int(f, e.right, ints)
        if isinstance(e, ast.IfExp):
            return self._expr_is_int(f, e.body, ints) and self._expr_is_int(f, e.orelse, ints)
        if isinstance(e, ast.Call):
            if isinstance(e.func, ast.Name) and e.func.id in ('len', 'int', 'float', 'round', 'abs', 'max', 'min', 'sum', 'bool', 'ord'):
                if e.func.id in ('max', 'min', 'sum', 'abs', 'round'):
                    return all(self._expr_is_int(f, a, ints) for a in e.args) and len(e.args) > 0
                return True
            r = self.prog.resolve_expr(f, e.func)
            if r[0] == 'ext' and r[1] in ('numpy.argmax', 'numpy.argmin', 'numpy.size', 'numpy.ndim', 'numpy.floor', 'numpy.ceil',
                                           'numpy.round', 'numpy.log2', 'numpy.sqrt', 'numpy.count_nonzero', 'numpy.trace'):
                if r[1] in ('numpy.floor', 'numpy.ceil', 'numpy.round', 'numpy.log2', 'numpy.sqrt'):
                    return all(self._expr_is_int(f, a, ints) for a in e.args)
                return True
            if r[0] == 'method' and e.func.attr in ('randint',) and not e.keywords and len(e.args) <= 2:
                return True
            if r[0] == 'method' and e.func.attr in ('argmax', 'argmin', 'item', 'index', 'count', 'pop') and not e.args:
                return e.func.attr != 'pop'
            if r[0] == 'func' and r[1].name in ('teachers_round',):
                return True
            return False
        if isinstance(e, ast.Subscript):
            # element of a shape tuple / index arrays read with int index are ints: i[e1], x.shape[0]
            if isinstance(e.value, ast.Attribute) and e.value.attr == 'shape':
                return True
            idx = e.slice
            if not isinstance(idx, (ast.Tuple, ast.Slice)) and self._expr_is_int(f, idx, ints):
                # 1-D index array element: only if base is known 1-D int array (np.where unpack) -> handled by callers
                b = e.value
                if isinstance(b, ast.Name) and b.id in self._index_arrays(f):
                    return True
            return False
        if isinstance(e, ast.Attribute) and e.attr in ('size', 'ndim'):
            return True
        return False

    def _index_arrays(self, f):
        """names bound by tuple-unpacking np.where(...) / np.nonzero (1-D integer index arrays)."""
        key = ('ia', f)
        if key in self.int_kinds:
            return self.int_kinds[key]
        out = set()
        for n in walk_no_nested(f.node):
            if isinstance(n, ast.Assign) and isinstance(n.value, ast.Call):
                r = self.prog.resolve_expr(f, n.value.func)
                if r[0] == 'ext' and r[1] in ('numpy.where', 'numpy.nonzero', 'numpy.triu_indices', 'numpy.tril_indices'):
                    for t in n.targets:
                        if isinstance(t, (ast.Tuple, ast.List)):
                            out |= {e.id for e in t.elts if isinstance(e, ast.Name)}
        self.int_kinds[key] = out
        return out

    # ------------------------------------------------------------------ expression aliasing
    def alias_of(self, f, e, st, mode, ints):
        """Set of roots expression e may share memory with."""
        A = lambda x: self.alias_of(f, x, st, mode, ints)
        if e is None:
            return {FRESH}
        if isinstance(e, ast.Name):
            if e.id in st:
                return set(st[e.id])
            return {FRESH}
        if isinstance(e, ast.Constant):
            return {FRESH}
        if isinstance(e, ast.Attribute):
            if e.attr in VIEW_ATTRS:
                return A(e.value)
            if e.attr in ('shape', 'size', 'ndim', 'dtype', 'nbytes', 'itemsize', 'strides'):
                return {FRESH}
            return A(e.value)      # unknown attribute of an aliasing object: assume it shares
        if isinstance(e, ast.Subscript):
            base = A(e.value)
            if base == {FRESH}:
                return base
            held = {r for r in base if r.startswith('*')}
            direct = base - held
            out = set()
            if held:
                # element (or sub-list) of a python container that holds references
                if isinstance(e.slice, ast.Slice):
                    out |= held | {FRESH}
                else:
                    out |= {r[1:] for r in held} | {FRESH}
            if direct - {FRESH}:
                if self._index_is_fancy(f, e.slice, ints):
                    out.add(FRESH)
                else:
                    out |= direct
            return out or {FRESH}
        if isinstance(e, ast.Starred):
            return A(e.value)
        if isinstance(e, (ast.BinOp, ast.UnaryOp, ast.Compare, ast.JoinedStr, ast.Lambda, ast.FormattedValue)):
            return {FRESH}
        if isinstance(e, ast.BoolOp):
            out = set()
            for v in e.values:
                out |= A(v)
            return out
        if isinstance(e, ast.IfExp):
            return A(e.body) | A(e.orelse)
        if isinstance(e, (ast.Tuple, ast.List, ast.Set)):
            out = {FRESH}
            for v in e.elts:
                out |= _held(A(v))
            return out
        if isinstance(e, ast.Dict):
            out = {FRESH}
            for v in e.values:
                if v is not None:
                    out |= _held(A(v))
            return out
        if isinstance(e, (ast.ListComp, ast.SetComp, ast.GeneratorExp)):
            st2 = dict(st)
            for g in e.generators:
                self._bind_target(f, g.target, self._iter_alias(f, g.iter, st2, mode, ints), st2)
            return _held(self.alias_of(f, e.elt, st2, mode, ints)) | {FRESH}
        if isinstance(e, ast.DictComp):
            return {FRESH}
        if isinstance(e, ast.NamedExpr):
            return A(e.value)
        if isinstance(e, ast.Call):
            return self._call_alias(f, e, st, mode, ints)
        return {FRESH}

    def _index_is_fancy(self, f, idx, ints):
        elts = idx.elts if isinstance(idx, ast.Tuple) else [idx]
        for x in elts:
            if isinstance(x, ast.Slice):
                continue
            if isinstance(x, ast.Constant) and (x.value is None or x.value is Ellipsis or isinstance(x.value, int)):
                continue
            if self._expr_is_int(f, x, ints):
                continue
            if isinstance(x, (ast.Tuple, ast.List, ast.Compare, ast.ListComp)):
                return True
            if isinstance(x, ast.Call):
                return True      # np.where / np.ix_ / np.arange / rng.permutation(...) ... all produce arrays (or ints -> copy of scalar)
            if isinstance(x, ast.UnaryOp) and isinstance(x.op, (ast.Invert, ast.Not)):
                return True
            if isinstance(x, ast.Name):
                if x.id in self._array_kinded(f):
                    return True
                return False     # unknown kind: assume basic (may alias) -- the safe direction
            if isinstance(x, (ast.BinOp, ast.Subscript, ast.Attribute, ast.BoolOp)):
                # arithmetic on arrays gives arrays; on ints handled above. Unknown -> basic (may alias)
                names = [n.id for n in ast.walk(x) if isinstance(n, ast.Name)]
                if any(n in self._array_kinded(f) for n in names):
                    return True
                return False
        return False

    def _array_kinded(self, f):
        """Names whose every definition is an array-producing expression (result of np.* call, comparison, ...)."""
        key = ('ak', f)
        if key in self.int_kinds:
            return self.int_kinds[key]
        defs = {}
        for n in walk_no_nested(f.node):
            if isinstance(n, ast.Assign):
                for t in n.targets:
                    if isinstance(t, ast.Name):
                        defs.setdefault(t.id, []).append(n.value)
                    elif isinstance(t, (ast.Tuple, ast.List)):
                        for a in t.elts:
                            if isinstance(a, ast.Name):
                                defs.setdefault(a.id, []).append(('unpack', n.value))
            elif isinstance(n, ast.AugAssign) and isinstance(n.target, ast.Name):
                pass
            elif isinstance(n, (ast.For, ast.comprehension)):
                for a in ast.walk(n.target):
                    if isinstance(a, ast.Name):
                        defs.setdefault(a.id, []).append(('iter', n.iter))
        out = set()
        ARR_FUNCS = ('numpy.where', 'numpy.nonzero', 'numpy.arange', 'numpy.unique', 'numpy.argsort', 'numpy.array', 'numpy.zeros',
                     'numpy.ones', 'numpy.setdiff1d', 'numpy.intersect1d', 'numpy.union1d', 'numpy.ix_', 'numpy.logical_not',
                     'numpy.logical_and', 'numpy.logical_or', 'numpy.isinf', 'numpy.isnan', 'numpy.sort', 'numpy.delete',
                     'numpy.append', 'numpy.concatenate', 'numpy.hstack', 'numpy.triu_indices', 'numpy.tril_indices',
                     'numpy.flatnonzero', 'numpy.argwhere', 'numpy.lexsort', 'numpy.cumsum', 'numpy.squeeze', 'numpy.eye',
                     'numpy.tile', 'numpy.repeat', 'numpy.triu', 'numpy.tril', 'numpy.zeros_like', 'numpy.ones_like')
        ints = self.int_kinds.get(f, set())

        def is_arr(d):
            if isinstance(d, tuple):
                if d[0] == 'unpack' and isinstance(d[1], ast.Call):
                    r = self.prog.resolve_expr(f, d[1].func)
                    return r[0] == 'ext' and r[1] in ARR_FUNCS
                return False
            if isinstance(d, ast.Compare):
                return True
            if isinstance(d, (ast.List, ast.Tuple, ast.ListComp)):
                return True
            if isinstance(d, ast.Call):
                r = self.prog.resolve_expr(f, d.func)
                if r[0] == 'ext' and r[1] in ARR_FUNCS:
                    return True
                if r[0] == 'method' and d.func.attr in ('permutation', 'astype', 'copy', 'flatten', 'nonzero') :
                    return True
                if r[0] == 'method' and d.func.attr == 'randint' and any(k.arg == 'size' for k in d.keywords):
                    return True
                if isinstance(d.func, ast.Name) and d.func.id in ('range', 'list', 'sorted', 'tuple'):
                    return True
                return False
            if isinstance(d, ast.Subscript):
                # slice of an array-kinded name is an array
                if isinstance(d.value, ast.Name) and d.value.id in out and isinstance(d.slice, ast.Slice):
                    return True
                if isinstance(d.value, ast.Name) and d.value.id in out and not self._expr_is_int(f, d.slice, ints) \
                        and not isinstance(d.slice, ast.Tuple):
                    return True
                return False
            if isinstance(d, ast.UnaryOp) and isinstance(d.op, ast.Invert):
                return True
            return False
        changed = True
        while changed:
            changed = False
            for nm, ds in defs.items():
                if nm in out or nm in f.all_params:
                    continue
                if ds and all(is_arr(d) for d in ds):
                    out.add(nm)
                    changed = True
        self.int_kinds[key] = out
        return out

    def _iter_alias(self, f, it, st, mode, ints):
        """alias set of the *elements* produced by iterating `it` (tuple structure flattened)."""
        if isinstance(it, ast.Call) and isinstance(it.func, ast.Name):
            if it.func.id in ('range', 'xrange'):
                return {FRESH}
            if it.func.id in ('zip', 'enumerate', 'reversed', 'sorted', 'list', 'tuple', 'iter', 'set'):
                out = {FRESH}
                for a in it.args:
                    out |= self._iter_alias(f, a, st, mode, ints)
                return out
            if it.func.id in ('map', 'filter'):
                return {FRESH}
        a = self.alias_of(f, it, st, mode, ints)
        return {r[1:] if r.startswith('*') else r for r in a}

    def _call_alias(self, f, call, st, mode, ints):
        A = lambda x: self.alias_of(f, x, st, mode, ints)
        r = self.prog.resolve_expr(f, call.func)
        if r[0] == 'method':
            meth = call.func.attr
            recv = A(call.func.value)
            if meth in VIEW_METHODS:
                return recv
            if meth in FRESH_METHODS or recv == {FRESH}:
                return {FRESH}
            if meth in MUTATOR_METHODS:
                return {FRESH}
            self.unknown.append((f, call, 'method .%s on an argument alias' % meth))
            return recv | {FRESH}
        if r[0] == 'ext':
            q = r[1]
            if q.startswith('numpy.') or q.startswith('scipy.'):
                tail = q.split('.', 1)[1]
                if q.startswith('numpy.') and tail in NP_VIEW_FUNCS:
                    return A(call.args[0]) if call.args else {FRESH}
                if q in ('numpy.array', 'numpy.matrix'):
                    cp = None
                    for k in call.keywords:
                        if k.arg == 'copy':
                            cp = k.value
                    if cp is not None and not (isinstance(cp, ast.Constant) and cp.value is True):
                        return A(call.args[0]) if call.args else {FRESH}
                    return {FRESH}
                if q == 'numpy.ma.masked_array' or q == 'numpy.ma.array':
                    return A(call.args[0]) if call.args else {FRESH}
                for k in call.keywords:
                    if k.arg == 'out':
                        return A(k.value)
                return {FRESH}
            return {FRESH}
        if r[0] == 'builtin':
            if r[1] in ('list', 'tuple', 'zip', 'enumerate', 'reversed', 'iter', 'sorted', 'set', 'dict'):
                # shallow containers keep references to their elements (rows of an array are views)
                out = {FRESH}
                for a in call.args:
                    out |= _held(self._iter_alias(f, a, st, mode, ints))
                return out
            if r[1] == 'next':
                out = {FRESH}
                for a in call.args:
                    out |= self._iter_alias(f, a, st, mode, ints)
                return out
            return {FRESH}
        if r[0] == 'func':
            callee = r[1]
            cmode = self._callee_mode(f, callee, call, mode)
            sm = self.summ.get((callee, cmode))
            if sm is None or not sm.returns:
                return {FRESH}
            out = set()
            binding = self._bind_args(callee, call)
            for p in sm.returns:
                if p == FRESH or p.startswith('^'):
                    out.add(FRESH)
                    continue
                star = p.startswith('*')
                pp = p[1:] if star else p
                if pp not in binding:
                    out.add(FRESH)      # default value of the callee's parameter
                for a in binding.get(pp, []):
                    out |= _held(A(a)) if star else A(a)
            return out or {FRESH}
        if r[0] == 'class':
            return {FRESH}
        # local callable (parameter / lambda): unknown -> may return any argument
        out = {FRESH}
        for a in call.args:
            out |= A(a)
        return out

    def _bind_args(self, callee, call):
        """param -> [arg expr] for a call (positional, keyword; *args unknown -> bound to every param)."""
        b = {}
        params = callee.params
        star = False
        for i, a in enumerate(call.args):
            if isinstance(a, ast.Starred):
                star = True
                for p in callee.all_params:
                    b.setdefault(p, []).append(a.value)
                continue
            if i < len(params):
                b.setdefault(params[i], []).append(a)
            elif callee.vararg:
                b.setdefault(callee.vararg, []).append(a)
        for k in call.keywords:
            if k.arg is None:
                for p in callee.all_params:
                    b.setdefault(p, []).append(k.value)
            elif k.arg in callee.all_params:
                b.setdefault(k.arg, []).append(k.value)
            elif callee.kwarg:
                b.setdefault(callee.kwarg, []).append(k.value)
        return b

    def _callee_mode(self, f, callee, call, mode):
        """Which mode of the callee applies at this call site."""
        flags = self.copy_flags.get(callee, {})
        if not flags:
            return 'default'
        binding = self._bind_args(callee, call)
        my = self.flag_values(f, mode)
        for p, dflt in flags.items():
            if p not in binding:
                continue
            v = binding[p][0]
            if isinstance(v, ast.Constant) and isinstance(v.value, bool):
                if v.value != dflt:
                    return 'inplace'
            elif isinstance(v, ast.Name) and v.id in my:
                if my[v.id] != dflt:
                    return 'inplace'
            else:
                return 'inplace'
        return 'default'

    # ------------------------------------------------------------------ statement transfer
    def _bind_target(self, f, tgt, al, st):
        if isinstance(tgt, ast.Name):
            st[tgt.id] = frozenset(al)
        elif isinstance(tgt, (ast.Tuple, ast.List)):
            for e in tgt.elts:
                self._bind_target(f, e, al, st)
        elif isinstance(tgt, ast.Starred):
            self._bind_target(f, tgt.value, al, st)

    def _analyse(self, f, mode):
        sm = Summary()
        cfg = CFG(f.node)
        ints = self._int_kinded(f)
        flags = self.flag_values(f, mode)
        dk = self.doc_kinds[f]
        init = {p: frozenset([p]) for p in f.all_params}
        # free variables of nested functions: conservatively alias the enclosing function's parameters of the same name
        if f.parent is not None:
            g = f.parent
            loc = local_stores(f) | set(f.all_params)
            while g is not None:
                for p in g.all_params:
                    if p not in loc and p not in init:
                        init[p] = frozenset(['^' + p])
                g = g.parent
        IN = {ENTRY: init}
        work = [ENTRY]
        seen_edges = set()

        def merge(a, b):
            out = dict(a)
            for k, v in b.items():
                out[k] = (out[k] | v) if k in out else (v | frozenset([FRESH]))
            for k in a:
                if k not in b:
                    out[k] = a[k] | frozenset([FRESH])
            return out

        def record(root, node, what, via=None):
            if root == FRESH or root.startswith('*'):
                return
            sm.mutates.setdefault(root, []).append(Site(f, node, root, what, via))

        def effects_of_calls(stmt_expr, st):
            """mutations performed by calls inside an expression/statement."""
            for n in self._walk_expr(stmt_expr):
                if not isinstance(n, ast.Call):
                    continue
                r = self.prog.resolve_expr(f, n.func)
                # out= keyword
                for k in n.keywords:
                    if k.arg == 'out':
                        for rt in self.alias_of(f, k.value, st, mode, ints):
                            record(rt, n, 'out= argument written')
                if r[0] == 'ext':
                    q = r[1]
                    tail = q.split('.', 1)[1] if '.' in q else q
                    if q.startswith('numpy.') and tail in NP_MUTATORS:
                        if tail == 'fill_diagonal':
                            self.stats['fill_diagonal_sites'] += 1
                        idx = NP_MUTATORS[tail]
                        if len(n.args) > idx:
                            for rt in self.alias_of(f, n.args[idx], st, mode, ints):
                                record(rt, n, 'np.%s writes its argument' % tail)
                    elif q.rsplit('.', 1)[-1] in RNG_MUTATORS and (q.startswith('numpy.random') or q.startswith('random')):
                        if n.args:
                            for rt in self.alias_of(f, n.args[0], st, mode, ints):
                                record(rt, n, 'shuffle permutes its argument in place')
                elif r[0] == 'method':
                    meth = n.func.attr
                    if meth in MUTATOR_METHODS:
                        for rt in self.alias_of(f, n.func.value, st, mode, ints):
                            record(rt, n, '.%s() mutates the receiver' % meth)
                    elif meth in RNG_MUTATORS and n.args:
                        for rt in self.alias_of(f, n.args[0], st, mode, ints):
                            record(rt, n, 'rng.shuffle permutes its argument in place')
                elif r[0] == 'func':
                    callee = r[1]
                    cmode = self._callee_mode(f, callee, n, mode)
                    csm = self.summ.get((callee, cmode))
                    if csm is None:
                        continue
                    self.stats['calls_with_summary'] += 1
                    binding = self._bind_args(callee, n)
                    for p, sites in csm.mutates.items():
                        if p.startswith('^'):
                            # callee writes a free variable of an enclosing function: that variable in our scope
                            nm = p[1:]
                            roots = st.get(nm, frozenset([FRESH])) if nm in st else frozenset(['^' + nm])
                            for rt in roots:
                                record(rt, n, 'closure variable %s written by %s' % (nm, callee.qualname),
                                       [callee.qualname] + sites[0].via + [sites[0].describe()])
                            continue
                        for a in binding.get(p, []):
                            for rt in self.alias_of(f, a, st, mode, ints):
                                s0 = sites[0]
                                record(rt, n, 'passed as `%s` to %s which writes it%s' % (
                                    p, callee.qualname, '' if cmode == 'default' else ' (copy=False)'),
                                    [callee.qualname] + s0.via + [s0.describe()])

        def transfer(node, st):
            st = dict(st)
            if isinstance(node, ast.Assign):
                effects_of_calls(node.value, st)
                al = self.alias_of(f, node.value, st, mode, ints)
                if isinstance(node.value, ast.Call):
                    r = self.prog.resolve_expr(f, node.value.func)
                    if (r[0] == 'method' and node.value.func.attr == 'copy') or (r[0] == 'ext' and r[1] in ('numpy.copy', 'numpy.array')):
                        self.stats['copy_sites'] += 1
                for t in node.targets:
                    if isinstance(t, (ast.Tuple, ast.List)) and isinstance(node.value, (ast.Tuple, ast.List)) \
                            and len(t.elts) == len(node.value.elts):
                        vals = [self.alias_of(f, v, st, mode, ints) for v in node.value.elts]
                        for a, v in zip(t.elts, vals):
                            self._store(f, a, v, st, record, node, mode, ints)
                    else:
                        self._store(f, t, al, st, record, node, mode, ints)
            elif isinstance(node, ast.AugAssign):
                effects_of_calls(node.value, st)
                t = node.target
                if isinstance(t, ast.Name):
                    roots = st.get(t.id, frozenset([FRESH]))
                    for rt in roots:
                        if rt == FRESH:
                            continue
                        pname = rt.lstrip('^')
                        if dk.get(pname) == 'scalar' or (pname in ints):
                            continue
                        if t.id in ints:
                            continue
                        self.stats['write_sites'] += 1
                        record(rt, node, 'augmented assignment `%s` operates in place on an array' % norm(node).split('\n')[0])
                else:
                    self.stats['write_sites'] += 1
                    for rt in self.alias_of(f, t.value if isinstance(t, (ast.Subscript, ast.Attribute)) else t, st, mode, ints):
                        record(rt, node, 'in-place update `%s`' % norm(node).split('\n')[0])
            elif isinstance(node, ast.AnnAssign):
                if node.value is not None:
                    effects_of_calls(node.value, st)
                    self._store(f, node.target, self.alias_of(f, node.value, st, mode, ints), st, record, node, mode, ints)
            elif isinstance(node, (ast.For, ast.AsyncFor)):
                effects_of_calls(node.iter, st)
                self._bind_target(f, node.target, self._iter_alias(f, node.iter, st, mode, ints), st)
            elif isinstance(node, (ast.If, ast.While)):
                effects_of_calls(node.test, st)
            elif isinstance(node, (ast.With, ast.AsyncWith)):
                for it in node.items:
                    effects_of_calls(it.context_expr, st)
                    if it.optional_vars is not None:
                        self._bind_target(f, it.optional_vars, self.alias_of(f, it.context_expr, st, mode, ints), st)
            elif isinstance(node, ast.Return):
                if node.value is not None:
                    effects_of_calls(node.value, st)
                    sm.returns |= self.alias_of(f, node.value, st, mode, ints)
                else:
                    sm.returns.add(FRESH)
            elif isinstance(node, ast.Expr):
                effects_of_calls(node.value, st)
            elif isinstance(node, ast.Delete):
                for t in node.targets:
                    if isinstance(t, ast.Subscript):
                        for rt in self.alias_of(f, t.value, st, mode, ints):
                            record(rt, node, 'del of an element')
            elif isinstance(node, (ast.Raise, ast.Assert)):
                for ch in ast.iter_child_nodes(node):
                    effects_of_calls(ch, st)
            elif isinstance(node, (ast.FunctionDef, ast.AsyncFunctionDef)):
                st[node.name] = frozenset([FRESH])
            return st

        # worklist
        OUT = {}
        order = 0
        while work:
            n = work.pop()
            st_in = IN[n]
            if n == ENTRY:
                st_out = st_in
            else:
                before = {k: len(v) for k, v in sm.mutates.items()}
                st_out = transfer(n, st_in)
            OUT[n] = st_out
            for s in cfg.succ(n):
                labs = cfg.edge_labels(n, s)
                # prune on copy-like flags
                if isinstance(n, ast.If):
                    pruned = False
                    for p, v in flags.items():
                        ft = self._flag_test(n.test, p)
                        if ft is not None:
                            want = (v == ft)   # truth value of the test
                            if labs <= {True, False} and (want not in labs):
                                pruned = True
                    if pruned:
                        continue
                if s in ('EXIT', 'RAISE'):
                    continue
                if s not in IN:
                    IN[s] = st_out
                    work.append(s)
                else:
                    m = merge(IN[s], st_out)
                    if m != IN[s]:
                        IN[s] = m
                        work.append(s)
            order += 1
            if order > 20000:
                raise AnalysisError('alias dataflow did not converge in %s' % f.key)
        # dedupe sites (worklist revisits)
        for p, sites in sm.mutates.items():
            seen = set()
            uniq = []
            for s in sites:
                k = (id(s.node), s.what)
                if k not in seen:
                    seen.add(k)
                    uniq.append(s)
            sm.mutates[p] = uniq
        if not cfg.returns:
            sm.returns.add(FRESH)
        return sm

    def _store(self, f, tgt, al, st, record, node, mode, ints):
        if isinstance(tgt, ast.Name):
            st[tgt.id] = frozenset(al)
        elif isinstance(tgt, (ast.Tuple, ast.List)):
            for e in tgt.elts:
                self._store(f, e, al, st, record, node, mode, ints)
        elif isinstance(tgt, ast.Starred):
            self._store(f, tgt.value, al, st, record, node, mode, ints)
        elif isinstance(tgt, (ast.Subscript, ast.Attribute)):
            self.stats['write_sites'] += 1
            base = tgt.value
            for rt in self.alias_of(f, base, st, mode, ints):
                record(rt, node, 'element store `%s`' % norm(node).split('\n')[0][:80])
            # container now may hold the stored alias
            b = base
            while isinstance(b, (ast.Subscript, ast.Attribute)):
                b = b.value
            if isinstance(b, ast.Name) and b.id in st and isinstance(tgt, ast.Subscript):
                # storing an array *into* an ndarray copies values; into a list/dict keeps the reference
                pass

    @staticmethod
    def _walk_expr(e):
        """walk an expression without entering lambdas' bodies."""
        stack = [e]
        while stack:
            n = stack.pop()
            yield n
            if isinstance(n, ast.Lambda):
                continue
            stack.extend(ast.iter_child_nodes(n))

    # ------------------------------------------------------------------ public queries
    def mutated_params(self, f, mode='default'):
        sm = self.summ[(f, mode)]
        return {p: s for p, s in sm.mutates.items() if not p.startswith('^') and not p.startswith('*')}

    def return_aliases(self, f, mode='default'):
        return set(self.summ[(f, mode)].returns)
