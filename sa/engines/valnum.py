"""Straight-line value numbering of a function body into canonical terms (engine G helper).

Statements are processed in order (branches are not followed: the routines this is used on are
straight-line or are analysed branch by branch by the caller); each local name maps to a sympy
term over opaque function symbols.  Mask stores  X[np.where(c)] = v  /  X[c] = v  become
maskset(X, c, v).  Optional rewrite table specialises terms (e.g. cuberoot(x) -> x on 0/1 input).
"""
import ast

import sympy as sp

from ..core.astutil import norm
from ..core.canon import Canon


class ValNum:
    def __init__(self, prog, fn, rewrites=None, param_map=None):
        self.prog = prog
        self.fn = fn
        self.canon = Canon(prog, fn)
        self.env = {}
        self.rewrites = rewrites or []
        self.param_map = param_map or {}
        self.unsupported = []

    def term(self, e):
        c = self.canon
        saved = c.defs
        t = c.term(e)
        # substitute known locals
        subs = {sp.Symbol(k): v for k, v in self.env.items()}
        subs.update({sp.Symbol(k): sp.Symbol(v) for k, v in self.param_map.items() if k not in self.env})
        t = t.xreplace(subs)
        return self.rewrite(t)

    def rewrite(self, t):
        changed = True
        n = 0
        while changed and n < 20:
            changed = False
            n += 1
            for rule in self.rewrites:
                t2 = rule(t)
                if t2 != t:
                    t = t2
                    changed = True
        return t

    def run(self, stmts):
        for s in stmts:
            if isinstance(s, ast.Expr):
                continue
            if isinstance(s, ast.Assign) and len(s.targets) == 1:
                t = s.targets[0]
                if isinstance(t, ast.Name):
                    self.env[t.id] = self.term(s.value)
                    continue
                if isinstance(t, ast.Subscript) and isinstance(t.value, ast.Name):
                    base = t.value.id
                    idx = self.term(t.slice) if not isinstance(t.slice, (ast.Tuple, ast.Slice)) else sp.Symbol(norm(t.slice))
                    # np.where(c) used as index == boolean mask c
                    idx = idx.replace(lambda x: isinstance(x, sp.Function) and x.func.__name__ == 'np.where' and len(x.args) == 1, lambda x: x.args[0])
                    cur = self.env.get(base, sp.Symbol(self.param_map.get(base, base)))
                    self.env[base] = sp.Function('maskset')(cur, idx, self.term(s.value))
                    continue
                if isinstance(t, ast.Tuple) and isinstance(s.value, ast.Tuple) and len(t.elts) == len(s.value.elts):
                    vals = [self.term(v) for v in s.value.elts]
                    for e, v in zip(t.elts, vals):
                        if isinstance(e, ast.Name):
                            self.env[e.id] = v
                    continue
                if isinstance(t, ast.Tuple) and isinstance(s.value, ast.Call):
                    v = self.term(s.value)
                    for i, e in enumerate(t.elts):
                        if isinstance(e, ast.Name):
                            self.env[e.id] = sp.Function('item%d' % i)(v)
                    continue
            if isinstance(s, ast.Return):
                self.env['<return>'] = self.term(s.value) if s.value is not None else sp.Symbol('None')
                continue
            if isinstance(s, ast.AugAssign) and isinstance(s.target, ast.Name):
                cur = self.env.get(s.target.id, sp.Symbol(s.target.id))
                v = self.term(s.value)
                op = s.op
                self.env[s.target.id] = cur + v if isinstance(op, ast.Add) else cur - v if isinstance(op, ast.Sub) else \
                    cur * v if isinstance(op, ast.Mult) else cur / v if isinstance(op, ast.Div) else sp.Function('aug')(cur, v)
                continue
            self.unsupported.append(s)
        return self.env


def fn_rule(name, builder):
    """rewrite rule: every application name(args...) -> builder(*args)"""
    def rule(t):
        return t.replace(lambda x: isinstance(x, sp.Function) and x.func.__name__ == name, lambda x: builder(*x.args))
    return rule
