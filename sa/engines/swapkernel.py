"""Engine B: typestate analysis of one rewiring attempt (DESIGN 4.B).

The loop body of a rewiring routine is abstractly interpreted over a finite
symbolic state:
  nodes   : symbols  N(<slot>,0|1)  (edge-list kernels)  or the four picked nodes
  cells   : (node,node) -> EMPTY | VAL(tag)   tag = origin cell; everything not
            mentioned is 'unchanged'
  slots   : slot symbol -> (node, node)   invariant: the cell named by a slot HOLDS a value
  facts   : pairwise node inequalities, slot inequalities, sign-class equalities
Every path through the attempt is followed (forking at `if` statements that are
not a guard of the accept block); no values are computed and no solver is used.
The abstract post-state of each path is compared with the specification.
"""
import ast
import itertools

from ..core.astutil import norm, conjuncts
from ..core.loader import AnalysisError, walk_no_nested

EMPTY = ('EMPTY',)


class Unsupported(AnalysisError):
    pass


class State:
    def __init__(self):
        self.env = {}        # local name -> symbolic value
        self.cells = {}      # (node, node) -> content
        self.orig = {}       # (node, node) -> content at attempt start (first observation)
        self.slots = {}      # slot symbol -> (node, node)
        self.slot0 = {}      # initial slots
        self.neq = set()     # frozenset({x, y}) known distinct (nodes or slots)
        self.signeq = []     # (content, content) equal sign classes
        self.signne = []
        self.flags = {}      # name -> bool constant
        self.accepted = False
        self.trace = []
        self.counter_incremented = False
        self.tested_empty = set()
        self.guards = []

    def copy(self):
        s = State()
        s.env = dict(self.env)
        s.cells = dict(self.cells)
        s.orig = dict(self.orig)
        s.slots = dict(self.slots)
        s.slot0 = dict(self.slot0)
        s.neq = set(self.neq)
        s.signeq = list(self.signeq)
        s.signne = list(self.signne)
        s.flags = dict(self.flags)
        s.accepted = self.accepted
        s.trace = list(self.trace)
        s.counter_incremented = self.counter_incremented
        s.tested_empty = set(self.tested_empty)
        s.guards = list(self.guards)
        return s


class Kernel:
    """Description of a rewiring routine located by dataflow."""

    def __init__(self, fn, undirected, matrix, I=None, J=None, where_stmt=None, where_arg=None,
                 attempt_loop=None, accept_block=None, counter=None, mask=None, picker_stmt=None):
        self.fn = fn
        self.undirected = undirected
        self.matrix = matrix
        self.I = I
        self.J = J
        self.where_stmt = where_stmt
        self.where_arg = where_arg
        self.attempt_loop = attempt_loop
        self.accept_block = accept_block
        self.counter = counter
        self.mask = mask
        self.picker_stmt = picker_stmt


def _is_cell(t, M):
    return (isinstance(t, ast.Subscript) and isinstance(t.value, ast.Name) and t.value.id == M
            and isinstance(t.slice, ast.Tuple) and len(t.slice.elts) == 2
            and all(isinstance(e, ast.Name) for e in t.slice.elts))


def locate_kernel(prog, fn, undirected):
    """Find matrix, edge arrays, attempt loop and accept block of an edge-list or four-node kernel."""
    from ..core.astutil import ParentMap
    pm = ParentMap(fn.node)
    # matrix: the array whose cells M[x, y] (x, y plain names) are stored to
    writes = []
    for n in walk_no_nested(fn.node):
        if isinstance(n, ast.Assign):
            for t in n.targets:
                if isinstance(t, ast.Subscript) and isinstance(t.value, ast.Name) and isinstance(t.slice, ast.Tuple) \
                        and len(t.slice.elts) == 2 and all(isinstance(e, ast.Name) for e in t.slice.elts):
                    writes.append((n, t.value.id))
    if not writes:
        raise AnalysisError('%s: no matrix cell writes found' % fn.qualname)
    names = {}
    for n, m in writes:
        names[m] = names.get(m, 0) + 1
    M = max(names, key=names.get)
    wstmts = [n for n, m in writes if m == M]
    # accept block = block (statement list) holding the cell writes; all must share it
    blocks = {id(pm.block_of[s][2]): pm.block_of[s] for s in wstmts}
    if len(blocks) != 1:
        raise AnalysisError('%s: matrix %s is written in %d different blocks; expected one accept block' % (fn.qualname, M, len(blocks)))
    blk = list(blocks.values())[0]
    accept_block = blk[2]
    # edge arrays: I, J = np.where(...)
    I = J = where_stmt = where_arg = None
    for n in walk_no_nested(fn.node):
        if isinstance(n, ast.Assign) and len(n.targets) == 1 and isinstance(n.targets[0], ast.Tuple) \
                and len(n.targets[0].elts) == 2 and isinstance(n.value, ast.Call):
            r = prog.resolve_expr(fn, n.value.func)
            if r[0] == 'ext' and r[1] in ('numpy.where', 'numpy.nonzero') and len(n.value.args) == 1 \
                    and all(isinstance(e, ast.Name) for e in n.targets[0].elts):
                arg = n.value.args[0]
                if M in {x.id for x in ast.walk(arg) if isinstance(x, ast.Name)}:
                    # the last such statement before the loop wins
                    I, J = n.targets[0].elts[0].id, n.targets[0].elts[1].id
                    where_stmt, where_arg = n, arg
    # attempt loop: innermost loop that contains both the accept block and the node reads
    loops = pm.loops(wstmts[0])
    if not loops:
        raise AnalysisError('%s: cell writes are not inside a loop' % fn.qualname)
    # choose the innermost loop whose body contains a read of I[...] / a picker call (start of an attempt)
    attempt = None
    for lp in loops:
        txt = [x for x in ast.walk(lp) if isinstance(x, ast.Subscript) and isinstance(x.value, ast.Name) and x.value.id in (I, J)
               and isinstance(x.ctx, ast.Load)] if I else []
        picks = [x for x in ast.walk(lp) if isinstance(x, ast.Call) and prog.resolve_expr(fn, x.func)[0] == 'func'
                 and prog.resolve_expr(fn, x.func)[1].name == 'pick_four_unique_nodes_quickly']
        if txt or picks:
            attempt = lp
            break
    if attempt is None:
        raise AnalysisError('%s: cannot find the attempt loop' % fn.qualname)
    counter = None
    for s in accept_block:
        if isinstance(s, ast.AugAssign) and isinstance(s.op, ast.Add) and isinstance(s.target, ast.Name) \
                and isinstance(s.value, ast.Constant) and s.value.value == 1:
            counter = s.target.id
    return Kernel(fn, undirected, M, I, J, where_stmt, where_arg, attempt, accept_block, counter)


class Interp:
    def __init__(self, prog, kernel, mask=None):
        self.prog = prog
        self.k = kernel
        self.fn = kernel.fn
        self.M = kernel.matrix
        self.mask = mask            # name of forbidden-cell mask array (C11) or None
        self.notes = []
        self.mask_tested = None

    # ---- symbolic values ----------------------------------------------------
    def node(self, st, slot, which):
        return 'N(%s,%d)' % (slot, which)

    def slot_of(self, st, name):
        """slot symbol for an index expression name (e1, e2, it ...)"""
        v = st.env.get(name)
        if isinstance(v, tuple) and v[0] == 'slot':
            return v[1]
        # first use of a slot variable that was drawn opaquely
        s = 'S(%s)' % name
        st.env[name] = ('slot', s)
        return s

    def ensure_slot(self, st, s):
        if s not in st.slots:
            a, b = self.node(st, s, 0), self.node(st, s, 1)
            st.slots[s] = (a, b)
            st.slot0[s] = (a, b)
            # invariant: the cell named by a slot holds an edge; empty diagonal => endpoints distinct
            self._init_cell(st, (a, b), ('VAL', self._ukey((a, b))))
            st.neq.add(frozenset((a, b)))
        return st.slots[s]

    def _ukey(self, cell):
        if self.k.undirected:
            return tuple(sorted(cell))
        return cell

    def _init_cell(self, st, cell, content):
        if cell not in st.cells:
            st.cells[cell] = content
            st.orig[cell] = content
            if self.k.undirected:
                m = (cell[1], cell[0])
                if m not in st.cells:
                    st.cells[m] = content
                    st.orig[m] = content

    def cell_content(self, st, cell):
        if cell not in st.cells:
            self._init_cell(st, cell, ('UNK', self._ukey(cell)))
        return st.cells[cell]

    # ---- expression evaluation ------------------------------------------------
    def ev(self, st, e):
        if isinstance(e, ast.Name):
            return st.env.get(e.id, ('opaque', e.id))
        if isinstance(e, ast.Constant):
            if e.value == 0 and not isinstance(e.value, bool):
                return EMPTY
            return ('CONST', e.value)
        if isinstance(e, ast.Subscript) and isinstance(e.value, ast.Name):
            b = e.value.id
            if b in (self.k.I, self.k.J) and isinstance(e.slice, ast.Name):
                s = self.slot_of(st, e.slice.id)
                ij = self.ensure_slot(st, s)
                return ('node', ij[0 if b == self.k.I else 1])
            if b == self.M and isinstance(e.slice, ast.Tuple) and len(e.slice.elts) == 2:
                x, y = (self.ev(st, z) for z in e.slice.elts)
                if x[0] == 'node' and y[0] == 'node':
                    return self.cell_content(st, (x[1], y[1]))
        return ('opaque', norm(e))

    # ---- guards ----------------------------------------------------------------
    def assume(self, st, test, positive):
        """Refine st with the atoms implied by `test` being `positive`; returns False if contradictory."""
        for atom, pol in conjuncts(test, positive):
            if not self._assume_atom(st, atom, pol):
                return False
        return True

    def _assume_atom(self, st, atom, pol):
        # node / slot inequalities
        if isinstance(atom, ast.Compare) and len(atom.ops) == 1:
            l, r = self.ev(st, atom.left), self.ev(st, atom.comparators[0])
            op = atom.ops[0]
            if isinstance(op, (ast.Eq, ast.NotEq)):
                ne = isinstance(op, ast.NotEq) == pol
                if l[0] == 'node' and r[0] == 'node':
                    if ne:
                        if l[1] == r[1]:
                            return False
                        st.neq.add(frozenset((l[1], r[1])))
                    else:
                        if frozenset((l[1], r[1])) in st.neq:
                            return False
                    return True
                if l[0] == 'slot' and r[0] == 'slot':
                    if ne:
                        st.neq.add(frozenset((l[1], r[1])))
                    return True
                # sign comparisons  np.sign(x) == np.sign(y)
                sl, sr = self._sign_operand(st, atom.left), self._sign_operand(st, atom.comparators[0])
                if sl is not None and sr is not None:
                    (st.signne if ne else st.signeq).append((sl, sr))
                    return True
                # flag == const
                return True
            return True
        # truthiness of a cell / mask cell / flag
        if isinstance(atom, ast.Name):
            if atom.id in st.flags:
                return st.flags[atom.id] == pol
            return True
        v = self.ev(st, atom)
        if isinstance(atom, ast.Subscript) and isinstance(atom.value, ast.Name):
            b = atom.value.id
            if b == self.M and isinstance(atom.slice, ast.Tuple):
                x, y = (self.ev(st, z) for z in atom.slice.elts)
                if x[0] == 'node' and y[0] == 'node':
                    cell = (x[1], y[1])
                    cur = self.cell_content(st, cell)
                    if not pol:      # cell is falsy -> empty
                        if cur[0] == 'VAL':
                            return False
                        self._set_known_empty(st, cell)
                    else:
                        if cur == EMPTY:
                            return False
                    return True
            if self.mask and b == self.mask and isinstance(atom.slice, ast.Tuple):
                x, y = (self.ev(st, z) for z in atom.slice.elts)
                if x[0] == 'node' and y[0] == 'node' and not pol:
                    st.guards.append(('mask-zero', (x[1], y[1])))
                    if self.k.undirected:
                        st.guards.append(('mask-zero', (y[1], x[1])))
                return True
        return True

    def _set_known_empty(self, st, cell):
        for c in ([cell, (cell[1], cell[0])] if self.k.undirected else [cell]):
            st.cells[c] = EMPTY
            st.orig[c] = EMPTY
            st.tested_empty.add(c)

    def _sign_operand(self, st, e):
        if isinstance(e, ast.Call) and len(e.args) == 1:
            r = self.prog.resolve_expr(self.fn, e.func)
            if r[0] == 'ext' and r[1] == 'numpy.sign':
                v = self.ev(st, e.args[0])
                if v[0] in ('UNK', 'VAL') or v == EMPTY:
                    return v
        return None

    # ---- statements ----------------------------------------------------------------
    def run_attempt(self):
        """Interpret one iteration of the attempt loop. Returns list of final states."""
        st = State()
        outs = self.block(self.k.attempt_loop.body, [st])
        return outs

    def block(self, stmts, states):
        """states: list of live states. Returns list of states after the block (states that hit
        break/continue carry st.done = True and are passed through)."""
        for s in stmts:
            nxt = []
            for st in states:
                if getattr(st, 'done', False):
                    nxt.append(st)
                else:
                    nxt.extend(self.stmt(s, st))
            states = nxt
            if len(states) > 64:
                raise Unsupported('%s: path explosion in the attempt loop' % self.fn.qualname)
        return states

    def _contains_accept(self, node):
        ab = self.k.accept_block
        for x in ast.walk(node):
            for f in ('body', 'orelse'):
                if getattr(x, f, None) is ab:
                    return True
        return False

    def _touches_tracked(self, node):
        """does the statement store into M / I / J (outside the accept block)?"""
        for x in ast.walk(node):
            if isinstance(x, (ast.Assign, ast.AugAssign)):
                tg = x.targets if isinstance(x, ast.Assign) else [x.target]
                for t in tg:
                    for tt in (t.elts if isinstance(t, ast.Tuple) else [t]):
                        b = tt
                        while isinstance(b, (ast.Subscript, ast.Attribute)):
                            b = b.value
                        if isinstance(b, ast.Name) and b.id in (self.M, self.k.I, self.k.J) and isinstance(tt, (ast.Subscript, ast.Name)):
                            return True
        return False

    def _store(self, st, t, v, val, s):
        """effect of storing the already evaluated value v (expression val) into target t"""
        M, I, J = self.M, self.k.I, self.k.J
        if isinstance(t, ast.Name):
            if isinstance(val, ast.Constant) and isinstance(val.value, bool):
                st.flags[t.id] = val.value
                st.env[t.id] = ('CONST', val.value)
            else:
                st.flags.pop(t.id, None)
                st.env[t.id] = v
        elif isinstance(t, ast.Subscript) and isinstance(t.value, ast.Name):
            b = t.value.id
            if b in (I, J) and I is not None:
                if not isinstance(t.slice, ast.Name):
                    raise Unsupported('%s: edge-list store with non-name index %s' % (self.fn.qualname, norm(t)))
                sl = self.slot_of(st, t.slice.id)
                ij = list(self.ensure_slot(st, sl))
                if v[0] != 'node':
                    raise Unsupported('%s: edge-list slot receives a non-node value %s' % (self.fn.qualname, norm(s)))
                ij[0 if b == I else 1] = v[1]
                st.slots[sl] = tuple(ij)
                st.trace.append(norm(s))
            elif b == M:
                if not _is_cell(t, M):
                    raise Unsupported('%s: matrix store %s is not a single cell' % (self.fn.qualname, norm(t)))
                x, y = (self.ev(st, z) for z in t.slice.elts)
                if x[0] != 'node' or y[0] != 'node':
                    raise Unsupported('%s: cell index of %s is not a node symbol' % (self.fn.qualname, norm(t)))
                cell = (x[1], y[1])
                self.cell_content(st, cell)
                if v[0] == 'CONST':
                    v2 = ('VAL', ('const', v[1]))
                elif v == EMPTY or v[0] in ('VAL', 'UNK'):
                    v2 = v
                else:
                    raise Unsupported('%s: value stored in %s is not a cell value/constant: %s' % (self.fn.qualname, norm(t), norm(val)))
                st.cells[cell] = v2
                st.trace.append(norm(s))
            # other arrays (P, PN): no effect on tracked state

    def stmt(self, s, st):
        st = st.copy()
        M, I, J = self.M, self.k.I, self.k.J
        if isinstance(s, ast.Assign):
            val = s.value
            # tuple draw of slots / picker
            if len(s.targets) == 1 and isinstance(s.targets[0], ast.Tuple) and isinstance(val, ast.Call):
                names = [e.id for e in s.targets[0].elts if isinstance(e, ast.Name)]
                r = self.prog.resolve_expr(self.fn, val.func)
                if r[0] == 'func' and r[1].name == 'pick_four_unique_nodes_quickly' and len(names) == 4:
                    nodes = ['P%d' % i for i in range(4)]
                    for nm, nd in zip(names, nodes):
                        st.env[nm] = ('node', nd)
                    if picker_postcondition(self.prog):
                        for x, y in itertools.combinations(nodes, 2):
                            st.neq.add(frozenset((x, y)))
                    else:
                        self.notes.append('pick_four_unique_nodes_quickly does not guarantee distinct nodes')
                    return [st]
                if r[0] == 'method' and val.func.attr == 'randint':
                    for nm in names:
                        st.env[nm] = ('slot', 'S(%s)' % nm)
                    return [st]
                for nm in names:
                    st.env[nm] = ('opaque', nm)
                return [st]
            v = self.ev(st, val)
            if isinstance(val, ast.Call):
                r = self.prog.resolve_expr(self.fn, val.func)
                if r[0] == 'method' and val.func.attr == 'randint' and len(s.targets) == 1 and isinstance(s.targets[0], ast.Name):
                    # fresh draw of a slot: forget inequalities about it
                    nm = s.targets[0].id
                    sym = 'S(%s)' % nm
                    st.neq = {p for p in st.neq if sym not in p}
                    if sym in st.slots:
                        raise Unsupported('%s: slot %s redrawn after its nodes were read' % (self.fn.qualname, nm))
                    st.env[nm] = ('slot', sym)
                    return [st]
            for t in s.targets:
                if isinstance(t, (ast.Tuple, ast.List)):
                    if isinstance(val, (ast.Tuple, ast.List)) and len(val.elts) == len(t.elts) \
                            and not any(isinstance(e, ast.Starred) for e in list(t.elts) + list(val.elts)):
                        # parallel assignment: every right-hand side is read before any store happens
                        vs = [self.ev(st, e) for e in val.elts]
                        for tt, vv, ve in zip(t.elts, vs, val.elts):
                            self._store(st, tt, vv, ve, s)
                    else:
                        for e in t.elts:
                            if isinstance(e, ast.Name):
                                st.env[e.id] = ('opaque', e.id)
                            else:
                                b = e
                                while isinstance(b, (ast.Subscript, ast.Attribute, ast.Starred)):
                                    b = b.value
                                if isinstance(b, ast.Name) and b.id in (M, I, J):
                                    raise Unsupported('%s: unpacking store into tracked array: %s' % (self.fn.qualname, norm(s)))
                else:
                    self._store(st, t, v, val, s)
            return [st]
        if isinstance(s, ast.AugAssign):
            if isinstance(s.target, ast.Name):
                if s.target.id == self.k.counter:
                    st.counter_incremented = True
                st.env[s.target.id] = ('opaque', s.target.id)
                b = s.target.id
                if b in (M, I, J):
                    raise Unsupported('%s: in-place operator on %s' % (self.fn.qualname, b))
            else:
                b = s.target
                while isinstance(b, (ast.Subscript, ast.Attribute)):
                    b = b.value
                if isinstance(b, ast.Name) and b.id in (M, I, J):
                    raise Unsupported('%s: in-place update %s of tracked array' % (self.fn.qualname, norm(s)))
            return [st]
        if isinstance(s, ast.Expr):
            return [st]          # setflags etc.
        if isinstance(s, ast.Break):
            st.done = 'break'
            return [st]
        if isinstance(s, ast.Continue):
            st.done = 'continue'
            return [st]
        if isinstance(s, ast.Pass):
            return [st]
        if isinstance(s, ast.If):
            outs = []
            s1 = st.copy()
            if self.assume(s1, s.test, True):
                if s.body is self.k.accept_block:
                    s1.accepted = True
                outs += self.block(s.body, [s1])
            s2 = st.copy()
            if self.assume(s2, s.test, False):
                if s.orelse is self.k.accept_block:
                    s2.accepted = True
                outs += self.block(s.orelse, [s2]) if s.orelse else [s2]
            return outs
        if isinstance(s, ast.While):
            # (1) `while x == y: y = redraw` -> after the loop x != y
            if not self._contains_accept(s):
                if self._touches_tracked(s):
                    raise Unsupported('%s: loop at line %d writes the matrix/edge list outside the accept block' % (self.fn.qualname, s.lineno))
                if isinstance(s.test, ast.Constant) and s.test.value is True:
                    # `while True: body; if cond: break`  (selection loop) or connectivity search loop
                    # interpret body once; states that `break` leave with the break condition assumed
                    outs = []
                    for o in self.block(s.body, [st]):
                        if getattr(o, 'done', None) == 'break':
                            o.done = False
                            outs.append(o)
                        # states that fall through would iterate again: covered by the same abstract state
                    if not outs:
                        raise Unsupported('%s: `while True` at line %d has no reachable break' % (self.fn.qualname, s.lineno))
                    return outs
                # general loop: havoc assigned names, then assume the negated test
                for x in ast.walk(s):
                    if isinstance(x, ast.Name) and isinstance(x.ctx, ast.Store):
                        if isinstance(st.env.get(x.id), tuple) and st.env[x.id][0] == 'slot':
                            sym = st.env[x.id][1]
                            if sym in st.slots:
                                raise Unsupported('%s: slot %s redrawn after use' % (self.fn.qualname, x.id))
                            st.neq = {p for p in st.neq if sym not in p}
                        else:
                            st.env[x.id] = ('opaque', x.id)
                            st.flags.pop(x.id, None)
                self.assume(st, s.test, False)
                return [st]
            raise Unsupported('%s: nested loop containing the accept block inside the attempt loop' % self.fn.qualname)
        if isinstance(s, ast.For):
            if self._touches_tracked(s) or self._contains_accept(s):
                raise Unsupported('%s: for-loop at line %d touches tracked arrays' % (self.fn.qualname, s.lineno))
            for x in ast.walk(s):
                if isinstance(x, ast.Name) and isinstance(x.ctx, ast.Store):
                    st.env[x.id] = ('opaque', x.id)
                    st.flags.pop(x.id, None)
            return [st]
        raise Unsupported('%s: statement kind %s in the attempt loop' % (self.fn.qualname, type(s).__name__))


_picker_cache = {}


def picker_postcondition(prog):
    """pick_four_unique_nodes_quickly: every return is either the 4-tuple guarded by all six pairwise
    inequalities, or the result of the recursive call."""
    cached = getattr(prog, '_picker_postcondition', None)
    if cached is not None:
        return cached
    from ..core.astutil import ParentMap
    f = prog.func('bct.utils.miscellaneous_utilities', 'pick_four_unique_nodes_quickly')
    pm = ParentMap(f.node)
    ok = True
    nret = 0
    for n in walk_no_nested(f.node):
        if isinstance(n, ast.Return):
            nret += 1
            v = n.value
            if isinstance(v, ast.Call) and prog.resolve_expr(f, v.func) == ('func', f):
                continue
            if isinstance(v, ast.Tuple) and len(v.elts) == 4 and all(isinstance(e, ast.Name) for e in v.elts):
                names = [e.id for e in v.elts]
                have = set()
                for t, pol, k, o in pm.guards(n):
                    for atom, p in conjuncts(t, pol):
                        if isinstance(atom, ast.Compare) and len(atom.ops) == 1 and isinstance(atom.ops[0], ast.NotEq) and p \
                                and isinstance(atom.left, ast.Name) and isinstance(atom.comparators[0], ast.Name):
                            have.add(frozenset((atom.left.id, atom.comparators[0].id)))
                need = {frozenset(p) for p in itertools.combinations(names, 2)}
                if not need <= have:
                    ok = False
            else:
                ok = False
    ok = ok and nret >= 1
    prog._picker_postcondition = ok
    return ok


# ======================================================================================
# Specification checks on the final states
# ======================================================================================
def _is_val(c):
    return c[0] == 'VAL'


def check_states(kernel, interp, states, out, binary_consts=False, need_counter=True, sign_mode=False):
    """out(rule, ok, why, construct=None).  Returns number of accepted paths."""
    und = kernel.undirected
    acc = [s for s in states if s.accepted]
    rej = [s for s in states if not s.accepted]
    out('B.accept-path-exists', bool(acc), 'no path through the attempt reaches the accept block', None)
    for pi, st in enumerate(acc):
        tag = 'path %d: %s' % (pi + 1, '; '.join(st.trace)[:150])
        changed = {c for c in st.cells if st.cells[c] != st.orig.get(c)}
        removed = [c for c in changed if _is_val(st.orig[c]) and st.cells[c] == EMPTY]
        added = [c for c in changed if st.orig[c] == EMPTY and _is_val(st.cells[c])]
        over = [c for c in changed if st.orig[c][0] == 'UNK']
        repl = [c for c in changed if _is_val(st.orig[c]) and _is_val(st.cells[c])]
        nodes = set()
        for c in st.cells:
            nodes |= set(c)
        # -- all node symbols pairwise distinct (needed for the cell abstraction and for no-self-loop)
        undist = [tuple(sorted(p)) for p in (frozenset(x) for x in itertools.combinations(sorted(nodes), 2)) if p not in st.neq]
        out('B3.endpoints-distinct', not undist,
            'endpoints %s are not provably distinct on the accept path: a swap could create a self-connection or hit the same cell twice' % undist, tag)
        if sign_mode:
            _check_sign(kernel, st, out, tag)
            continue
        # -- target cells tested empty
        out('B4.target-tested-empty', not over,
            'cell(s) %s are overwritten without having been tested empty by a dominating guard' % [_fmt(c) for c in over], tag)
        # -- support: rows / cols (directed) or incident nodes (undirected)
        if und:
            def inc(cells):
                m = {}
                for c in {tuple(sorted(c)) for c in cells}:
                    for x in c:
                        m[x] = m.get(x, 0) + 1
                return m
            ok = inc(removed) == inc(added)
            out('B1.degree-preserved', ok, 'incident-edge counts differ: removed %s, added %s' % (
                sorted({tuple(sorted(c)) for c in removed}), sorted({tuple(sorted(c)) for c in added})), tag)
        else:
            rr = sorted(c[0] for c in removed)
            ra = sorted(c[0] for c in added)
            cr = sorted(c[1] for c in removed)
            ca = sorted(c[1] for c in added)
            out('B1.out-degree-preserved', rr == ra, 'rows losing an entry %s != rows gaining one %s' % (rr, ra), tag)
            out('B1.in-degree-preserved', cr == ca, 'columns losing an entry %s != columns gaining one %s' % (cr, ca), tag)
        out('B1.swap-is-nontrivial', bool(added) and bool(removed), 'accept path moves nothing', tag)
        # -- weights: multiset of values moved
        def vals(cells, which):
            src = st.cells if which == 'new' else st.orig
            if und:
                seen = {}
                for c in cells:
                    seen[tuple(sorted(c))] = src[c][1]
                return sorted(map(str, seen.values()))
            return sorted(str(src[c][1]) for c in cells)
        vr, va = vals(removed, 'old'), vals(added, 'new')
        if binary_consts:
            okw = all(st.cells[c][1] in (('const', 1), ('const', True)) for c in added) and len(vr) == len(va)
            out('B2.weights-permuted', okw, 'binary kernel must write the constant 1 into as many cells as it clears', tag)
        else:
            out('B2.weights-permuted', vr == va and not repl,
                'values written %s are not a permutation of the values removed %s%s' % (va, vr, ' (and %d cells replaced in place)' % len(repl) if repl else ''), tag)
        # -- mirror
        if und:
            bad = [c for c in st.cells if st.cells[c] != st.cells.get((c[1], c[0]), st.cells[c] if c[0] == c[1] else None)]
            out('B5.mirrored-writes', not bad, 'matrix no longer symmetric at %s' % sorted({tuple(sorted(c)) for c in bad}), tag)
        else:
            # -- row locality (out-strength)
            moved = [(c, st.cells[c][1]) for c in added if isinstance(st.cells[c][1], tuple) and st.cells[c][1][0] != 'const']
            bad = [(c, o) for c, o in moved if c[0] != o[0]]
            out('B6.row-locality', not bad, 'a weight leaves its row (out-strength changes): %s' % [(_fmt(c), _fmt(o)) for c, o in bad], tag)
        # -- edge list coherence
        if kernel.I is not None:
            _check_slots(kernel, st, out, tag, accepted=True)
        if need_counter and kernel.counter:
            out('B8.counter-counts-accepts', st.counter_incremented, 'accept path does not increment %s' % kernel.counter, tag)
        # -- mask (C11) handled by caller through st.guards
    for pi, st in enumerate(rej):
        tag = 'reject path %d' % (pi + 1)
        changed = {c for c in st.cells if st.cells[c] != st.orig.get(c)}
        out('B8.reject-leaves-matrix', not changed, 'matrix cells %s change on a path that does not count as a rewiring' % [_fmt(c) for c in changed], tag)
        if kernel.I is not None:
            _check_slots(kernel, st, out, tag, accepted=False)
    return len(acc)


def _fmt(c):
    return '(%s,%s)' % c if isinstance(c, tuple) and len(c) == 2 and all(isinstance(x, str) for x in c) else str(c)


def _check_slots(kernel, st, out, tag, accepted):
    und = kernel.undirected
    bad = []
    for s, (a, b) in st.slots.items():
        c = st.cells.get((a, b))
        if c is None or not _is_val(c):
            bad.append('%s=(%s,%s) names %s' % (s, a, b, 'an empty cell' if c == EMPTY else 'a cell not known to hold an edge'))
    out('B7.slots-name-edges', not bad, 'edge list out of step with the matrix: %s' % bad, tag)
    # every present touched edge is named by exactly one slot
    held = {}
    for s, (a, b) in st.slots.items():
        k = tuple(sorted((a, b))) if und else (a, b)
        held.setdefault(k, []).append(s)
    touched_edges = {(tuple(sorted(c)) if und else c) for c in st.cells if _is_val(st.cells[c]) and (c in st.orig) and
                     (st.orig[c] != st.cells[c] or any(c == v or (und and (c[1], c[0]) == v) for v in st.slot0.values()))}
    missing = [e for e in touched_edges if e not in held]
    dup = [e for e, ss in held.items() if len(ss) > 1]
    out('B7.edges-have-slots', not missing and not dup,
        'edges %s are present but no longer listed%s' % ([_fmt(e) for e in missing], '; listed twice: %s' % dup if dup else ''), tag)


def _check_sign(kernel, st, out, tag):
    """Signed four-node kernels: rows and columns keep their multiset of sign classes; values are permuted."""
    und = kernel.undirected
    # union-find over contents by sign equalities
    parent = {}

    def find(x):
        parent.setdefault(x, x)
        while parent[x] != x:
            parent[x] = parent[parent[x]]
            x = parent[x]
        return x

    def union(a, b):
        parent[find(a)] = find(b)
    for a, b in st.signeq:
        union(a, b)
    changed = {c for c in st.cells if st.cells[c] != st.orig.get(c)}
    out('B1.swap-is-nontrivial', bool(changed), 'accept path moves nothing', tag)
    # the swap must exchange entries of different sign (otherwise it may be a no-op but never harmful)
    rows = {}
    cols = {}
    for c in changed:
        rows.setdefault(c[0], []).append(c)
        cols.setdefault(c[1], []).append(c)
    bad = []
    for axis, grp in (('row', rows), ('column', cols)):
        for k, cells in grp.items():
            before = sorted(str(find(st.orig[c])) for c in cells)
            after = sorted(str(find(st.cells[c])) for c in cells)
            if before != after:
                bad.append('%s %s: sign classes %s -> %s' % (axis, k, before, after))
    out('B9.sign-degree-preserved', not bad, 'positive/negative degree changes: %s' % bad, tag)
    vb = sorted(str(st.orig[c]) for c in changed)
    va = sorted(str(st.cells[c]) for c in changed)
    out('B9.values-permuted', vb == va, 'the values written %s are not a permutation of the values read %s' % (va, vb), tag)
    if not und:
        # out-strength: each row keeps its multiset of values
        badr = [k for k, cells in rows.items() if sorted(str(st.orig[c]) for c in cells) != sorted(str(st.cells[c]) for c in cells)]
        out('B6.row-locality', not badr, 'rows %s do not keep their own values (out-strength changes)' % badr, tag)
    else:
        badm = [c for c in st.cells if st.cells[c] != st.cells.get((c[1], c[0]))]
        out('B5.mirrored-writes', not badm, 'matrix no longer symmetric at %s' % sorted({tuple(sorted(c)) for c in badm}), tag)
    diag = [c for c in changed if c[0] == c[1]]
    out('B3.diagonal-untouched', not diag, 'diagonal cell written', tag)
    # the guard must make the exchanged entries differ in sign, else nothing to check; and must tie the pairs
    out('B9.guard-has-sign-equalities', len(st.signeq) >= 2 and len(st.signne) >= 1,
        'accept path is not guarded by the two sign equalities and the sign inequality', tag)
