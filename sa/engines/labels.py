"""Engine C: label taint.

A partition parameter is RAW on entry.  It becomes CANON only through
`_, x = np.unique(<raw>, return_inverse=True)` (0..k-1), CANON1 after `+ 1`.
Forward dataflow over the statement CFG gives, for every statement, the set of
statuses each label variable may have there.  RAW values may only flow into
label-safe operations (size/shape, np.unique, equality between labels, zero test of
a label difference, grouping by argsort, hand-over to another partition consumer,
being returned unchanged); everything else is a sink.
"""
import ast

from ..core.astutil import norm, ParentMap
from ..core.cfg import CFG, ENTRY
from ..core.loader import walk_no_nested

RAW, CANON, CANON1, FRESH, ZERO, UNKNOWN, GAPPY = 'RAW', 'CANON', 'CANON1', 'FRESH', 'ZERO', 'UNKNOWN', 'GAPPY'


def is_unique_inverse(prog, fn, call):
    if not isinstance(call, ast.Call):
        return False
    r = prog.resolve_expr(fn, call.func)
    if r[0] != 'ext' or r[1] != 'numpy.unique':
        return False
    for k in call.keywords:
        if k.arg == 'return_inverse' and isinstance(k.value, ast.Constant) and k.value.value is True:
            return True
    return False


class LabelFlow:
    """statuses of label variables of function fn, seeded with {param: RAW}."""

    def __init__(self, prog, fn, seeds, lists=()):
        self.prog = prog
        self.fn = fn
        self.cfg = CFG(fn.node)
        self.pm = ParentMap(fn.node)
        self.seeds = dict(seeds)
        self.lists = set(lists)
        self.stores = []
        self.IN = {}
        self._run()

    # status of an expression given variable statuses
    def status(self, e, st):
        if isinstance(e, ast.Name):
            return set(st.get(e.id, ()))
        if isinstance(e, ast.Call):
            r = self.prog.resolve_expr(self.fn, e.func)
            q = r[1] if r[0] == 'ext' else None
            if q in ('numpy.array', 'numpy.asarray', 'numpy.squeeze', 'numpy.ravel', 'numpy.copy', 'numpy.atleast_1d', 'numpy.tile',
                     'numpy.transpose', 'numpy.int_', 'numpy.sort') and e.args:
                return self.status(e.args[0], st)
            if r[0] == 'method' and e.func.attr in ('copy', 'astype', 'flatten', 'ravel', 'reshape', 'squeeze', 'tolist', 'transpose'):
                return self.status(e.func.value, st)
            if r[0] == 'func' and r[1].name == 'ls2ci':
                return {CANON1}
            if q == 'numpy.arange' and len(e.args) == 2 and isinstance(e.args[0], ast.Constant) and e.args[0].value == 1 \
                    and isinstance(e.args[1], ast.BinOp) and isinstance(e.args[1].op, ast.Add) \
                    and isinstance(e.args[1].right, ast.Constant) and e.args[1].right.value == 1:
                return {CANON1}       # 1..n : singleton partition
            if q == 'numpy.arange' and len(e.args) == 1:
                return {CANON}        # 0..n-1
            return set()
        if isinstance(e, ast.Attribute) and e.attr in ('T', 'flat'):
            return self.status(e.value, st)
        if isinstance(e, ast.Subscript):
            if is_unique_inverse(self.prog, self.fn, e.value) and norm(e.slice) == '1':
                return {CANON}
            s = self.status(e.value, st)
            return s
        if isinstance(e, ast.BinOp) and isinstance(e.op, (ast.Add, ast.Sub)):
            l, r = self.status(e.left, st), self.status(e.right, st)
            # canonical + 1
            if isinstance(e.op, ast.Add) and isinstance(e.right, ast.Constant) and e.right.value == 1 and l:
                return {CANON1 if x == CANON else x for x in l}
            return set()
        if isinstance(e, ast.IfExp):
            return self.status(e.body, st) | self.status(e.orelse, st)
        if isinstance(e, ast.List):
            out = set()
            for x in e.elts:
                if isinstance(x, ast.Constant) and x.value is None:
                    continue
                out |= self.status(x, st) or {UNKNOWN}
            return out
        return set()

    def _transfer(self, node, st):
        st = {k: set(v) for k, v in st.items()}
        if isinstance(node, ast.Assign):
            v = node.value
            for t in node.targets:
                if isinstance(t, ast.Tuple) and is_unique_inverse(self.prog, self.fn, v) and len(t.elts) >= 2 and isinstance(t.elts[1], ast.Name):
                    if isinstance(t.elts[0], ast.Name):
                        # the first output holds the (sorted) label *values*: as raw as the argument they were taken from
                        src = self.status(v.args[0], st) if v.args else set()
                        st.pop(t.elts[0].id, None)
                        if src:
                            st[t.elts[0].id] = set(src)
                    st[t.elts[1].id] = {CANON}      # inverse indices of np.unique are canonical whatever the source
                elif isinstance(t, ast.Name):
                    s = self.status(v, st)
                    if isinstance(v, ast.Subscript) and is_unique_inverse(self.prog, self.fn, v.value) and norm(v.slice) == '1':
                        s = {CANON}
                    if s:
                        st[t.id] = s
                    else:
                        st.pop(t.id, None)
                elif isinstance(t, ast.Tuple):
                    for e in t.elts:
                        if isinstance(e, ast.Name):
                            st.pop(e.id, None)
                elif isinstance(t, ast.Subscript):
                    b = t
                    while isinstance(b, ast.Subscript):
                        b = b.value
                    if isinstance(b, ast.Name) and b.id in st and st[b.id]:
                        rs = self.status(v, st)
                        self.stores.append((node, b.id, frozenset(rs), frozenset(st[b.id])))
                        single = isinstance(t.value, ast.Name) and not isinstance(t.slice, (ast.Compare, ast.Call, ast.Tuple, ast.Slice))
                        if single and (st[b.id] & {CANON1, CANON}):
                            # one node gets another module: labels stay inside 1..k but a module may have been emptied
                            st[b.id] = {GAPPY if x in (CANON1, CANON) else x for x in st[b.id]}
        elif isinstance(node, ast.Expr) and isinstance(node.value, ast.Call) and isinstance(node.value.func, ast.Attribute) \
                and node.value.func.attr == 'append' and isinstance(node.value.func.value, ast.Name) and node.value.args:
            L = node.value.func.value.id
            if L in st or L in self.lists:
                a0 = node.value.args[0]
                sa = self.status(a0, st)
                if not sa and isinstance(a0, ast.Call) and self.prog.resolve_expr(self.fn, a0.func) == ('ext', 'numpy.zeros'):
                    sa = {ZERO}        # allocated, to be filled by the relabelling loop
                st[L] = set(st.get(L, set())) | (sa or {UNKNOWN})
        elif isinstance(node, ast.AugAssign) and isinstance(node.target, ast.Name):
            nm = node.target.id
            if nm in st and isinstance(node.op, ast.Add) and isinstance(node.value, ast.Constant) and node.value.value == 1:
                st[nm] = {CANON1 if x == CANON else x for x in st[nm]}
        elif isinstance(node, (ast.For,)):
            for e in ast.walk(node.target):
                if isinstance(e, ast.Name):
                    st.pop(e.id, None)
            # relabelling loop  `for i in range(n): L[h][np.where(L[h - 1] == i + 1)] = m[i]` fills the freshly appended level completely
            fill = self._fill_loop(node, st)
            if fill:
                st[fill] = (st[fill] - {ZERO}) | {CANON1}
        return st

    def _fill_loop(self, loop, st):
        if not (isinstance(loop.target, ast.Name) and isinstance(loop.iter, ast.Call) and isinstance(loop.iter.func, ast.Name)
                and loop.iter.func.id == 'range' and len(loop.iter.args) == 1 and len(loop.body) == 1 and isinstance(loop.body[0], ast.Assign)):
            return None
        i = loop.target.id
        a = loop.body[0]
        t = a.targets[0]
        if not (isinstance(t, ast.Subscript) and isinstance(t.value, ast.Subscript) and isinstance(t.value.value, ast.Name)):
            return None
        L = t.value.value.id
        if L not in st or ZERO not in st[L]:
            return None
        h = norm(t.value.slice)
        want = {'np.where(%s[%s - 1] == %s + 1)' % (L, h, i), '%s[%s - 1] == %s + 1' % (L, h, i)}
        if norm(t.slice) not in want:
            return None
        v = a.value
        if not (isinstance(v, ast.Subscript) and isinstance(v.value, ast.Name) and norm(v.slice) == i and st.get(v.value.id) == {CANON1}):
            return None
        return L

    def _run(self):
        cfg = self.cfg
        init = {k: {v} for k, v in self.seeds.items()}
        IN = {ENTRY: init}
        work = [ENTRY]
        n = 0
        while work:
            x = work.pop()
            out = IN[x] if x == ENTRY else self._transfer(x, IN[x])
            for s in cfg.succ(x):
                if s in ('EXIT', 'RAISE'):
                    continue
                if s not in IN:
                    IN[s] = {k: set(v) for k, v in out.items()}
                    work.append(s)
                else:
                    ch = False
                    for k, v in out.items():
                        if k not in IN[s]:
                            IN[s][k] = set(v)
                            ch = True
                        elif not v <= IN[s][k]:
                            IN[s][k] |= v
                            ch = True
                    if ch:
                        work.append(s)
            n += 1
            if n > 50000:
                raise RuntimeError('label flow did not converge')
        self.IN = IN

    def at(self, stmt):
        return self.IN.get(stmt, {})


SAFE_FUNCS = {'numpy.size', 'numpy.shape', 'numpy.unique', 'numpy.ndim', 'numpy.array', 'numpy.asarray', 'numpy.tile',
              'numpy.squeeze', 'numpy.copy', 'numpy.argsort', 'numpy.atleast_1d', 'numpy.transpose', 'numpy.prod'}
SAFE_BUILTINS = {'len', 'isinstance', 'type', 'print', 'id'}


def raw_sinks(prog, fn, flow, partition_callees, raw_ok_return=True):
    """Uses of RAW label values that are not label-safe.  Returns list of (node, why)."""
    out = []
    pm = flow.pm
    for stmt in [n for n in walk_no_nested(fn.node) if isinstance(n, ast.stmt)]:
        st = flow.at(stmt)
        rawnames = {k for k, v in st.items() if RAW in v}
        if not rawnames:
            continue
        # expressions evaluated *by this statement* (not nested blocks)
        exprs = []
        if isinstance(stmt, (ast.If, ast.While)):
            exprs = [stmt.test]
        elif isinstance(stmt, ast.For):
            exprs = [stmt.iter]
        elif isinstance(stmt, (ast.FunctionDef, ast.AsyncFunctionDef, ast.ClassDef)):
            # closure capture of a RAW label by a nested helper
            free = {n.id for n in ast.walk(stmt) if isinstance(n, ast.Name) and isinstance(n.ctx, ast.Load)} - \
                {a.arg for a in stmt.args.args} if isinstance(stmt, ast.FunctionDef) else set()
            for nm in sorted(free & rawnames):
                out.append((stmt, 'nested helper %s reads `%s` while it may still hold the caller\'s raw labels' % (stmt.name, nm)))
            continue
        elif isinstance(stmt, (ast.With,)):
            exprs = [i.context_expr for i in stmt.items]
        elif isinstance(stmt, ast.Try):
            exprs = []
        else:
            exprs = [stmt]
        for ex in exprs:
            for n in ast.walk(ex):
                if isinstance(n, ast.Name) and isinstance(n.ctx, ast.Load) and n.id in rawnames:
                    why = _classify_use(prog, fn, pm, n, stmt, flow, st, partition_callees)
                    if why:
                        out.append((n, why))
    return out


def _classify_use(prog, fn, pm, name, stmt, flow, st, partition_callees):
    """None if the use of RAW `name` is label-safe, else a description of the sink."""
    node = name
    par = pm.parent.get(node)
    # climb through label-preserving wrappers: x.T, x[...], np.tile(x), x.copy()
    while True:
        if isinstance(par, ast.Attribute) and par.value is node:
            if par.attr in ('T', 'flat', 'copy', 'astype', 'reshape', 'flatten', 'ravel', 'squeeze', 'tolist'):
                node, par = par, pm.parent.get(par)
                if isinstance(par, ast.Call) and par.func is node:
                    node, par = par, pm.parent.get(par)
                continue
            if par.attr in ('shape', 'size', 'ndim', 'dtype'):
                return None
            return 'attribute .%s of raw labels' % par.attr
        if isinstance(par, ast.Subscript) and par.value is node:
            node, par = par, pm.parent.get(par)
            continue
        if isinstance(par, ast.Call) and node in par.args:
            r = prog.resolve_expr(fn, par.func)
            if r[0] == 'ext' and r[1] in ('numpy.tile', 'numpy.array', 'numpy.asarray', 'numpy.squeeze', 'numpy.copy', 'numpy.transpose', 'numpy.atleast_1d'):
                node, par = par, pm.parent.get(par)
                continue
        break
    if par is None:
        return None
    if isinstance(par, ast.Call):
        r = prog.resolve_expr(fn, par.func)
        if r[0] == 'ext' and r[1] in SAFE_FUNCS:
            return None
        if r[0] == 'builtin' and r[1] in SAFE_BUILTINS:
            return None
        if r[0] == 'func':
            callee = r[1]
            # which parameter receives it?
            idx = None
            for i, a in enumerate(par.args):
                if a is node:
                    idx = i
            pname = callee.params[idx] if idx is not None and idx < len(callee.params) else None
            for k in par.keywords:
                if k.value is node:
                    pname = k.arg
            if (callee.name, pname) in partition_callees:
                return None
            return 'raw labels passed to %s(%s=...), which is not a known partition consumer' % (callee.name, pname)
        if r[0] == 'ext':
            return 'raw labels passed to %s' % r[1]
        if r[0] == 'method':
            return 'raw labels passed to .%s()' % par.func.attr
        return 'raw labels passed to a call'
    if isinstance(par, ast.Compare):
        # equality between two label expressions is safe; `is None` is safe
        ops = par.ops
        others = [par.left] + list(par.comparators)
        if len(ops) == 1 and isinstance(ops[0], (ast.Is, ast.IsNot)):
            return None
        if len(ops) == 1 and isinstance(ops[0], (ast.Eq, ast.NotEq)):
            other = others[1] if others[0] is node else others[0]
            if RAW in flow.status(other, st) or _mentions_raw(other, st):
                return None          # equality between two raw label expressions (same label namespace)
            if isinstance(other, ast.Constant) and other.value is None:
                return None
            return 'raw labels compared with `%s` (a module index or literal): result depends on the label values' % norm(other)
        return 'raw labels ordered/compared with `%s`' % norm(par)
    if isinstance(par, ast.BinOp):
        other = par.right if par.left is node else par.left
        if isinstance(par.op, ast.Sub) and (RAW in flow.status(other, st) or _mentions_raw(other, st)):
            # label difference: safe only if it is immediately zero-tested
            gp = pm.parent.get(par)
            if isinstance(gp, ast.Call):
                r = prog.resolve_expr(fn, gp.func)
                if r[0] == 'ext' and r[1] == 'numpy.logical_not':
                    return None
            if isinstance(gp, ast.UnaryOp) and isinstance(gp.op, ast.Not):
                return None
            if isinstance(gp, ast.Compare) and len(gp.ops) == 1 and isinstance(gp.ops[0], (ast.Eq, ast.NotEq)) and \
                    any(isinstance(c, ast.Constant) and c.value == 0 for c in [gp.left] + gp.comparators):
                return None
            return 'difference of raw labels is used as a number'
        if isinstance(par.op, ast.Add) and isinstance(other, ast.BinOp) and isinstance(other.op, ast.Mult) and \
                any(isinstance(c, ast.Constant) and isinstance(c.value, complex) for c in ast.walk(other)):
            return 'raw labels combined into a pairing key before canonicalisation'
        return 'arithmetic on raw labels (`%s`)' % norm(par)
    if isinstance(par, ast.Return) or (isinstance(par, ast.Tuple) and isinstance(pm.parent.get(par), ast.Return)):
        return None
    if isinstance(par, (ast.Assign, ast.AnnAssign)):
        return None          # plain alias: the target inherits RAW through the flow
    if isinstance(par, ast.Subscript) and par.slice is node:
        return 'raw labels used as an index'
    if isinstance(par, (ast.Tuple,)) and isinstance(pm.parent.get(par), ast.Subscript):
        return 'raw labels used as an index'
    if isinstance(par, ast.AugAssign):
        return 'raw labels modified arithmetically (`%s`)' % norm(par).split('\n')[0]
    if isinstance(par, (ast.For, ast.comprehension)):
        return 'iteration over raw label values'
    if isinstance(par, ast.UnaryOp):
        return 'arithmetic on raw labels'
    if isinstance(par, ast.Expr):
        return None
    return 'raw labels used in `%s`' % norm(par)[:60]


def _mentions(e, st):
    return any(isinstance(n, ast.Name) and n.id in st and st[n.id] for n in ast.walk(e))


def _mentions_raw(e, st):
    return any(isinstance(n, ast.Name) and RAW in st.get(n.id, ()) for n in ast.walk(e))
