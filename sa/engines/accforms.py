"""Engine H: accumulator forms for the greedy modularity optimisers (DESIGN 4.H).

Located by dataflow in each optimiser:
  node loop      for u in rng.permutation(n)
  current module ma = L[u] - 1                      (L = label vector)
  gain vector    dq ... ; dq[ma] = 0 ; max_dq = np.max(dq) ; mb = np.argmax(dq)
  move block     if max_dq > eps:  T[:, mb] += E ; T[:, ma] -= E ; K[mb] += e ; K[ma] -= e ; L[u] = mb + 1
Forms are selector triples (matrix, row selector, column selector) with selectors
'v' (the accumulator's node axis), 'in-m' (members of the module), '*' (all nodes).
"""
import ast

from ..core.astutil import norm, ParentMap
from ..core.loader import AnalysisError, walk_no_nested
from ..core.pattern import Matcher


class MoveSite:
    def __init__(self):
        self.fn = None
        self.loop = None          # for u in rng.permutation(n)
        self.u = None
        self.ma = None
        self.mb = None
        self.L = None             # label vector name
        self.guard = None         # ast.If of the move block
        self.block = None
        self.dq = None            # name of the gain vector
        self.max_name = None
        self.t_updates = []       # (T, sign, stmt, rhs expr, module index name)
        self.k_updates = []       # (K, sign, stmt, rhs expr, module index name)
        self.label_store = None
        self.order = {}           # stmt kinds in loop body order


def _stmts(f):
    return [n for n in walk_no_nested(f.node) if isinstance(n, ast.stmt)]


def locate_moves(prog, f):
    """All node-move sites of optimiser f (usually one)."""
    m = Matcher(prog, f)
    pm = ParentMap(f.node)
    sites = []
    for lp in _stmts(f):
        if not (isinstance(lp, ast.For) and isinstance(lp.target, ast.Name) and isinstance(lp.iter, ast.Call)
                and isinstance(lp.iter.func, ast.Attribute) and lp.iter.func.attr == 'permutation'):
            continue
        s = MoveSite()
        s.fn = f
        s.loop = lp
        s.u = lp.target.id
        body = [x for x in ast.walk(lp) if isinstance(x, ast.stmt) and x is not lp]
        for x in body:
            b = m.match(x, '$MA = $L[%s] - 1' % s.u)
            if b and isinstance(b['MA'], ast.Name) and isinstance(b['L'], ast.Name):
                s.ma, s.L = b['MA'].id, b['L'].id
                s.order['ma'] = x
        if s.ma is None:
            continue
        for x in body:
            b = m.match(x, '$MB = np.argmax($DQ)')
            if b and isinstance(b['MB'], ast.Name) and isinstance(b['DQ'], ast.Name):
                s.mb, s.dq = b['MB'].id, b['DQ'].id
                s.order['argmax'] = x
            b = m.match(x, '$MX = np.max($DQ)')
            if b and isinstance(b['MX'], ast.Name) and isinstance(b['DQ'], ast.Name):
                s.max_name = b['MX'].id
                s.order['max'] = x
                s.max_of = b['DQ'].id
        if s.mb is None:
            continue
        for x in body:
            if m.match(x, '%s[%s] = 0' % (s.dq, s.ma)):
                s.order['zero'] = x
        # label store
        for x in body:
            if m.match(x, '%s[%s] = %s + 1' % (s.L, s.u, s.mb)):
                s.label_store = x
        # accumulator updates anywhere in the loop body
        for x in body:
            if isinstance(x, ast.AugAssign) and isinstance(x.op, (ast.Add, ast.Sub)) and isinstance(x.target, ast.Subscript) \
                    and isinstance(x.target.value, ast.Name):
                sign = '+' if isinstance(x.op, ast.Add) else '-'
                sl = x.target.slice
                if isinstance(sl, ast.Tuple) and len(sl.elts) == 2 and isinstance(sl.elts[0], ast.Slice) and isinstance(sl.elts[1], ast.Name):
                    s.t_updates.append((x.target.value.id, sign, x, x.value, sl.elts[1].id))
                elif isinstance(sl, ast.Name):
                    s.k_updates.append((x.target.value.id, sign, x, x.value, sl.id))
        if s.label_store is not None:
            g = [(t, pol, kind, owner) for t, pol, kind, owner in pm.guards(s.label_store) if owner in body and kind == 'if']
            if g:
                s.guard = g[-1][3]
                s.block = s.guard.body
        sites.append(s)
    return sites


def strip_T(e):
    """X.T -> X (for 1-D slices transposition is the identity)"""
    while isinstance(e, ast.Attribute) and e.attr == 'T':
        e = e.value
    return e


def slice_form(e, u):
    """M[:, u] -> (M, 'col'); M[u, :] / M[u, :].T / M[u] -> (M, 'row'); else None"""
    e = strip_T(e)
    if isinstance(e, ast.Subscript) and isinstance(e.value, ast.Name):
        sl = e.slice
        if isinstance(sl, ast.Tuple) and len(sl.elts) == 2:
            a, b = sl.elts
            if isinstance(a, ast.Slice) and a.lower is None and a.upper is None and isinstance(b, ast.Name) and b.id == u:
                return (e.value.id, 'col')
            if isinstance(b, ast.Slice) and b.lower is None and b.upper is None and isinstance(a, ast.Name) and a.id == u:
                return (e.value.id, 'row')
        elif isinstance(sl, ast.Name) and sl.id == u:
            return (e.value.id, 'row')
    return None


# A node-to-module accumulator T[v, m]:
#   'out' : T[v, m] = sum_{j in m} M[v, j]   (row v of M, columns of the module)    increment when u joins m: M[:, u]
#   'in'  : T[v, m] = sum_{j in m} M[j, v]   (column v of M, rows of the module)    increment when u joins m: M[u, :]
def t_update_form(rhs, u):
    sf = slice_form(rhs, u)
    if sf is None:
        return None
    return (sf[0], 'out' if sf[1] == 'col' else 'in')


def t_init_forms(prog, f, T, label_names, before_line=None):
    """Forms implied by the initialisations of T in f.  Returns list of (stmt, (M, 'out'|'in')) and unknown inits."""
    m = Matcher(prog, f)
    out = []
    unknown = []
    for s in _stmts(f):
        if isinstance(s, ast.Assign) and len(s.targets) == 1:
            t = s.targets[0]
            if isinstance(t, ast.Name) and t.id == T:
                b = m.match(s.value, '$M.copy()')
                if b and isinstance(b['M'], ast.Name):
                    out.append((s, (b['M'].id, 'out'), 'singletons'))
                    continue
                b = m.match(s.value, '$M.T.copy()')
                if b and isinstance(b['M'], ast.Name):
                    out.append((s, (b['M'].id, 'in'), 'singletons'))
                    continue
                b = m.match(s.value, 'np.zeros(($N, $N2))') or m.match(s.value, 'np.zeros(($N, $N2), dtype=$D)')
                if b:
                    continue      # allocation; the real init is the column fill
                unknown.append(s)
            elif isinstance(t, ast.Subscript) and isinstance(t.value, ast.Name) and t.value.id == T:
                # T[:, idx] = np.sum(M[:, L == lab], axis=1)   -> out ; np.sum(M[L == lab, :], axis=0) -> in
                b = m.match(s.value, 'np.sum($M[:, $MASK], axis=1)')
                if b and isinstance(b['M'], ast.Name) and _is_label_mask(b['MASK'], label_names):
                    out.append((s, (b['M'].id, 'out'), 'partition'))
                    continue
                b = m.match(s.value, 'np.sum($M[$MASK, :], axis=0)') or m.match(s.value, 'np.sum($M[$MASK], axis=0)')
                if b and isinstance(b['M'], ast.Name) and _is_label_mask(b['MASK'], label_names):
                    out.append((s, (b['M'].id, 'in'), 'partition'))
                    continue
                b = m.match(s.value, 'np.sum($M[:, $MASK], axis=0)') or m.match(s.value, 'np.sum($M[$MASK, :], axis=1)')
                if b:
                    unknown.append(s)
                    continue
                unknown.append(s)
    return out, unknown


def _is_label_mask(e, label_names):
    return isinstance(e, ast.Compare) and len(e.ops) == 1 and isinstance(e.ops[0], ast.Eq) and \
        any(isinstance(x, ast.Name) and x.id in label_names for x in ast.walk(e))


# 1-D degree vectors:  'rowsum' : k[v] = sum_j M[v, j] (out-degree) ; 'colsum' : k[v] = sum_j M[j, v] (in-degree)
def degree_form(prog, f, name, tforms, depth=0):
    """Form of node-degree vector `name` from its definitions: set of (M, 'rowsum'|'colsum')."""
    m = Matcher(prog, f)
    forms = set()
    unknown = []
    for s in _stmts(f):
        if isinstance(s, ast.Assign) and len(s.targets) == 1 and isinstance(s.targets[0], ast.Name) and s.targets[0].id == name:
            b = m.match(s.value, 'np.sum($X, axis=$A)')
            if b and isinstance(b['X'], ast.Name) and isinstance(b['A'], ast.Constant):
                X, ax = b['X'].id, b['A'].value
                if X in tforms:
                    # summing a node-to-module table over all modules (axis=1) gives the node degree
                    for (M, kind) in tforms[X]:
                        if ax == 1:
                            forms.add((M, 'rowsum' if kind == 'out' else 'colsum'))
                        else:
                            forms.add((M, 'MODULE:' + ('colsum' if kind == 'out' else 'rowsum')))
                else:
                    forms.add((X, 'rowsum' if ax == 1 else 'colsum'))
                continue
            b = m.match(s.value, '$Y.copy()')
            if b and isinstance(b['Y'], ast.Name) and depth < 3:
                fs, un = degree_form(prog, f, b['Y'].id, tforms, depth + 1)
                forms |= {(M, 'MODULE:' + k if not k.startswith('MODULE:') else k) for (M, k) in fs}
                unknown += un
                continue
            unknown.append(s)
    return forms, unknown
