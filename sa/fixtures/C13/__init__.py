# fixture package for the alias engine (parsed only, never imported)
import numpy as np


def helper_inplace(X, copy=True):
    if copy:
        X = X.copy()
    X[X != 0] = 1
    return X


def pos_basic_slice_view(W):
    '''
    W : NxN np.ndarray
    '''
    row = W[0, :]
    row[1] = 5
    return row


def pos_transpose_view(W):
    V = W.T
    V[0, 0] = 1
    return V


def pos_asarray(W):
    A = np.asarray(W)
    np.fill_diagonal(A, 0)
    return A


def pos_callee_copy_false(W):
    return helper_inplace(W, copy=False)


def pos_augassign(W):
    '''
    W : NxN np.ndarray
    '''
    W /= 2
    return W


def pos_rebind_after_write(W):
    W[0, 0] = 0
    W = W.copy()
    return W


def pos_branch_copy(W, flag):
    if flag:
        W = W.copy()
    W[0, 0] = 1
    return W


def pos_method_sort(ci):
    ci.sort()
    return ci


def pos_reshape_view(W):
    v = W.reshape(-1)
    v[0] = 3
    return v


def neg_copy_first(W):
    W = W.copy()
    W[0, 0] = 0
    np.fill_diagonal(W, 0)
    return W


def neg_fancy_copy(W, idx):
    '''
    idx : np.ndarray
    '''
    sub = W[np.ix_([0, 1], [0, 1])]
    sub[0, 0] = 9
    m = W[W > 0]
    m[0] = 1
    return sub


def neg_callee_copy_true(W):
    B = helper_inplace(W)
    B[0, 0] = 2
    return B


def neg_arith(W):
    Z = W * 2
    Z[0, 0] = 1
    Z += 1
    return Z


def neg_int_param(itr, k):
    '''
    itr : int
    k : int
    '''
    itr *= k
    return itr


def neg_np_array(W):
    A = np.array(W)
    A[0] = 0
    return A


def neg_none_default(n, D=None):
    if D is None:
        D = np.zeros((n, n))
        D[0, 0] = 1
    return D


def neg_list_container(source):
    Q = [source]
    Q.append(3)
    Q = Q[1:]
    return Q
