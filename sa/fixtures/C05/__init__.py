# fixture package for C05 rule R3/R5 (never imported, only parsed)
import random
import numpy as np


def get_rng(seed=None):
    if seed is None or seed == np.random:
        return np.random.mtrand._rand
    elif isinstance(seed, np.random.RandomState):
        return seed
    return np.random.RandomState(seed)


def pos_global_draw(n, seed=None):
    rng = get_rng(seed)
    return rng.rand(n) + np.random.rand(n)


def pos_alias_draw(n, seed=None):
    rng = get_rng(seed)
    r = np.random
    return r.permutation(n)


def _helper(n):
    return np.random.randint(n)


def pos_callee_draw(n, seed=None):
    rng = get_rng(seed)
    return rng.rand() + _helper(n)


def pos_stdlib_random(x, seed=None):
    rng = get_rng(seed)
    random.shuffle(x)
    return x


def neg_local_draw(n, seed=None):
    rng = get_rng(seed)
    return rng.permutation(n)


def neg_local_ctor(n, seed=None):
    rng = get_rng(seed)
    other = np.random.RandomState(12345)
    return rng.rand(n), isinstance(seed, np.random.RandomState)
