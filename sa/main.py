"""CLI: ./check <id> [--tier quick|thorough] [--replay path] [--root DIR]"""
import argparse
import importlib
import json
import os
import sys
import traceback

from .core.loader import Program, AnalysisError
from .core.report import Report


def run_property(pid, root, tier='quick', seed=0, quiet=False, write_evidence=True):
    rep = Report(pid, tier=tier, seed=seed, root=root, quiet=quiet)
    try:
        prog = Program(root)
        from .core import alpha
        renamed = alpha.normalise(prog)
        rep.stat('alpha_normalised_functions', len(renamed))
        rep.restructured = dict(getattr(prog, 'restructured', {}) or {})
        if renamed:
            rep.info('locals renamed to their reference names before analysis (behaviour-preserving): %s' % (
                '; '.join('%s %s' % (k.split('::')[1], v) for k, v in sorted(renamed.items()))[:600]))
        mod = importlib.import_module('sa.rules.' + pid)
        mod.check(prog, rep)
        rep.stat('modules_parsed', len(prog.modules))
        rep.stat('functions_in_package', sum(len(m.functions) for m in prog.modules.values()))
        rep.stat('source_digest', prog.digest())
    except AnalysisError as e:
        rep.error(str(e))
    except SyntaxError as e:
        rep.error('source does not parse: %s' % e)
    except Exception:
        rep.error('checker crashed: ' + traceback.format_exc().strip().replace('\n', ' | '))
    return rep


def main(argv=None):
    ap = argparse.ArgumentParser()
    ap.add_argument('pid')
    ap.add_argument('--tier', default=os.environ.get('VERIF_TIER', 'quick'), choices=['quick', 'thorough'])
    ap.add_argument('--replay')
    ap.add_argument('--root', default=os.environ.get('VERIF_ROOT', '/repo'))
    ap.add_argument('--no-selftest', action='store_true')
    a = ap.parse_args(argv)
    try:
        seed = int(os.environ.get('VERIF_SEED', '0'))
    except ValueError:
        seed = 0
    if a.replay:
        with open(a.replay) as f:
            rp = json.load(f)
        rep = run_property(a.pid, a.root, 'quick', seed, quiet=True, write_evidence=False)
        want = {(v['rule'], v['module'], v['function'], v['construct']) for v in rp['violations']}
        still = [o for o in rep.obs if not o.ok and o.key() in want]
        for o in still:
            print('REPRODUCED %s:%d %s rule=%s [%s] -- %s' % (o.module, o.line, o.function, o.rule, o.construct, o.why))
        if still:
            print('VIOLATION property=%s replay=%s' % (a.pid, a.replay))
            return 1
        for e in rep.errors:
            print('ANALYSIS-ERROR property=%s %s' % (a.pid, e))
        print('replay: none of the %d recorded violations is present on %s' % (len(want), a.root))
        return 2 if rep.errors else 0
    rep = run_property(a.pid, a.root, a.tier, seed)
    if a.tier == 'thorough' and not a.no_selftest:
        try:
            from . import selftest
            selftest.run_for(a.pid, a.root, rep, seed)
        except Exception:
            rep.error('selftest crashed: ' + traceback.format_exc().strip().replace('\n', ' | '))
    return rep.finish()


if __name__ == '__main__':
    sys.exit(main())
