"""C20 - synthetic generators deliver the requested size, edge count and symmetry.

Decided structurally:
 * makerandCIJ_dir/_und: candidate cells come from a mask that excludes the diagonal, exactly the first k entries of a
   permutation of all candidates are set; _und output is symmetric by construction (upper-triangular fill mirrored);
 * maketoeplitzCIJ: the only non-raising exit of the sampling loop is its condition `sum == k`; template diagonal is zero;
 * makefractalCIJ: the reported count is np.sum of the returned matrix, probabilities exclude the diagonal;
 * makeevenCIJ: the rem_k random cells are drawn from the complement of clusters and diagonal, rem_k = k - (cluster cells);
 * makeringlatticeCIJ: constant propagation over the band counter: first offsets are 1 and n-1, one band per iteration,
   excess removed from np.where of the last band only, by distinct positions;
 * makerandCIJdegreesfixed: index arrays are integer-kinded; stub tables are filled from the two degree vectors; the repair
   block keeps the matrix in step with the edge table in both cases (partner already placed / not yet placed).
"""
import ast

from ..core.astutil import where_unpack, norm, ParentMap
from ..core.cfg import CFG
from ..core.loader import walk_no_nested
from ..core.pattern import Matcher

REF = 'bct.algorithms.reference'


def _stmts(f):
    return [n for n in walk_no_nested(f.node) if isinstance(n, ast.stmt)]


def _defs(f, name):
    return [s for s in _stmts(f) if isinstance(s, ast.Assign) and len(s.targets) == 1 and norm(s.targets[0]) == name]


def check(prog, rep):
    rep.explanation = (
        'Exact-count and symmetry contracts of the generators reduced to structural facts that hold for every (N, K) and every random draw: '
        'the set of candidate cells excludes the diagonal; the cells set are a prefix of length K of a permutation of all candidates (distinct, '
        'hence exactly K when K <= #candidates); undirected output is the mirror of an upper-triangular fill; rejection loops can only leave '
        'through the exact-count test; ring-lattice band offsets are obtained by constant propagation through the counter; stub matching keeps '
        'matrix and edge table coherent in the repair step and uses integer index arrays.')
    rep.assume('feasible parameters (K not larger than the number of candidate cells; graphical degree sequences); termination is not decided')
    _makerand(prog, rep)
    _toeplitz(prog, rep)
    _fractal(prog, rep)
    _even(prog, rep)
    _ring(prog, rep)
    _degreesfixed(prog, rep)
    rep.floor('E.', 6)
    rep.floor('D.', 14)


# ------------------------------------------------------------------ makerandCIJ
def _makerand(prog, rep):
    for name, und in (('makerandCIJ_dir', False), ('makerandCIJ_und', True)):
        f = prog.func(REF, name)
        m = Matcher(prog, f)
        stmts = _stmts(f)
        ix = [s for s in stmts if where_unpack(s) is not None and norm(s.value.func).endswith('flatnonzero')]      # flat positions
        ok = False
        why = 'candidate cells are not taken from np.where(<mask>.flat)'
        IX = None
        if ix:
            IX = norm(where_unpack(ix[0])[0])
            arg = where_unpack(ix[0])[1]
            if und:
                ok = any(m.match(arg, t) for t in ('np.triu(np.logical_not(np.eye(n)))', 'np.triu(np.ones((n, n)), 1)', 'np.triu(np.logical_not(np.eye(n)), 1)'))
                why = 'undirected candidates must be the strict upper triangle (each connection once, diagonal excluded); got %s' % norm(arg)
            else:
                ok = any(m.match(arg, t) for t in ('np.logical_not(np.eye(n))', '(1 - np.eye(n))', '(np.eye(n) == 0)'))
                why = 'directed candidates must be all off-diagonal cells; got %s' % norm(arg)
        rep.ob('E.candidates-exclude-diagonal', f, ix[0] if ix else 'ix, = np.where(mask.flat)', ok, why, line=f.node.lineno)
        rp = [s for s in stmts if isinstance(s, ast.Assign) and isinstance(s.value, ast.Call) and isinstance(s.value.func, ast.Attribute) and s.value.func.attr == 'permutation']
        okp = len(rp) == 1 and IX is not None and (m.match(rp[0].value.args[0], 'np.size(%s)' % IX) or m.match(rp[0].value.args[0], 'len(%s)' % IX)) is not None
        rep.ob('D.permutation-of-all-candidates', f, rp[0] if rp else 'rp = rng.permutation(np.size(ix))', bool(okp), 'random order must be a permutation of all candidate positions', line=f.node.lineno)
        RP = norm(rp[0].targets[0]) if rp else 'rp'
        z = [s for s in stmts if isinstance(s, ast.Assign) and m.match(s.value, 'np.zeros((n, n))')]
        C = norm(z[0].targets[0]) if z else 'CIJ'
        st = [s for s in stmts if m.match(s, '%s.flat[%s[%s][:k]] = 1' % (C, IX, RP)) or m.match(s, '%s.flat[%s[%s[:k]]] = 1' % (C, IX, RP))]
        rep.ob('D.exactly-k-distinct-cells-set', f, st[0] if st else '%s.flat[ix[rp][:k]] = 1' % C, len(st) == 1 and bool(z),
               'exactly the first k positions of the permuted candidate list must be set to 1 in a zero matrix', line=f.node.lineno)
        others = [s for s in stmts if isinstance(s, (ast.Assign, ast.AugAssign)) and s not in st and s not in z and
                  any(isinstance(n, ast.Name) and n.id == C for t in (s.targets if isinstance(s, ast.Assign) else [s.target]) for n in ast.walk(t))]
        cfg = CFG(f.node)
        if und:
            sym = [s for s in others if m.match(s, '%s = %s + %s.T' % (C, C, C)) or m.match(s, '%s += %s.T' % (C, C))]
            ok = len(sym) == 1 and len(others) == 1 and bool(st) and sym[0].lineno > st[0].lineno and all(cfg.dominates(sym[0], r) for r in cfg.returns)
            rep.ob('E.und-output-symmetric-by-construction', f, sym[0] if sym else '%s = %s + %s.T' % (C, C, C), ok,
                   'the strict-upper-triangular fill must be mirrored exactly once before returning; otherwise the "undirected" matrix is asymmetric', line=f.node.lineno)
        else:
            rep.ob('D.no-other-write', f, others[0] if others else 'writes to %s' % C, not others, 'additional write changes the edge count', line=f.node.lineno)
        for r in cfg.returns:
            rep.ob('D.returns-the-matrix', f, r, norm(r.value) == C, 'must return the generated matrix')


# ------------------------------------------------------------------ toeplitz
def _toeplitz(prog, rep):
    f = prog.func(REF, 'maketoeplitzCIJ')
    m = Matcher(prog, f)
    stmts = _stmts(f)
    loops = [s for s in stmts if isinstance(s, ast.While)]
    ok = len(loops) == 1 and (m.match(loops[0].test, 'np.sum($C) != k') is not None)
    rep.ob('D.sampling-loop-exits-only-at-exact-count', f, loops[0].test if loops else 'while np.sum(CIJ) != k', ok, 'rejection loop must continue until the count is exactly k', line=f.node.lineno)
    if ok:
        C = norm(m.match(loops[0].test, 'np.sum($C) != k')['C'])
        brk = [x for x in ast.walk(loops[0]) if isinstance(x, (ast.Break, ast.Return))]
        rep.ob('D.no-other-exit-from-sampling-loop', f, brk[0] if brk else 'no break/return', not brk, 'a break/return leaves the loop with a wrong count', line=loops[0].lineno)
        cfg = CFG(f.node)
        for r in cfg.returns:
            rep.ob('D.returns-the-matrix', f, r, norm(r.value) == C, 'must return the sampled matrix')
        smp = [s for s in loops[0].body if isinstance(s, ast.Assign) and norm(s.targets[0]) == C]
        okd = len(smp) == 1 and m.match(smp[0].value, 'rng.random_sample((n, n)) < $T') is not None
        rep.ob('D.sample-is-bernoulli-of-template', f, smp[0] if smp else C, okd, 'each cell must be an independent Bernoulli draw against the template', line=loops[0].lineno)
    t = _defs(f, 'template')
    okt = bool(t) and m.match(t[0].value, 'linalg.toeplitz(np.append((0,), $P), r=np.append((0,), $P))') is not None
    rep.ob('E.template-diagonal-zero', f, t[0] if t else 'template', okt, 'the Toeplitz template must have 0 as first element of row and column (empty diagonal)', line=f.node.lineno)


# ------------------------------------------------------------------ fractal
def _fractal(prog, rep):
    f = prog.func(REF, 'makefractalCIJ')
    m = Matcher(prog, f)
    cfg = CFG(f.node)
    for r in cfg.returns:
        ok = False
        if isinstance(r.value, ast.Tuple) and len(r.value.elts) == 2:
            mat, cnt = r.value.elts
            b = m.match(mat, 'np.array($C, dtype=int)')
            C = norm(b['C']) if b else norm(mat)
            kd = _defs(f, norm(cnt))
            ok = len(kd) == 1 and m.match(kd[0].value, 'np.sum(%s)' % C) is not None and \
                not [s for s in _stmts(f) if s.lineno > kd[0].lineno and isinstance(s, ast.Assign) and norm(s.targets[0]).split('[')[0].split('.')[0] == C]
        rep.ob('D.reported-count-is-sum-of-returned-matrix', f, r, ok, 'the reported number of connections must be np.sum of the very matrix returned')
    p = _defs(f, 'prob')
    okp = bool(p) and any(m.match(p[0].value, t) for t in ('1 / E ** ee * (np.ones((s, s)) - np.eye(s))', '(np.ones((s, s)) - np.eye(s)) * (1 / E ** ee)'))
    rep.ob('E.probabilities-exclude-diagonal', f, p[0] if p else 'prob', okp, 'connection probabilities must be multiplied by (1 - I): empty diagonal', line=f.node.lineno)


# ------------------------------------------------------------------ even
def _even(prog, rep):
    f = prog.func(REF, 'makeevenCIJ')
    m = Matcher(prog, f)
    stmts = _stmts(f)
    rk = _defs(f, 'rem_k')
    okr = bool(rk) and any(m.match(rk[0].value, t) for t in ('k - np.size(np.where(CIJp.flatten()))', 'k - np.sum(CIJp)', 'k - np.count_nonzero(CIJp)'))
    rep.ob('D.remaining-count', f, rk[0] if rk else 'rem_k', okr, 'remaining connections must be k minus the number of cluster connections', line=f.node.lineno)
    ab = [s for s in stmts if isinstance(s, ast.Assign) and isinstance(s.targets[0], ast.Tuple) and isinstance(s.value, ast.Call) and norm(s.value.func) == 'np.where']
    oka = bool(ab) and any(m.match(ab[0].value.args[0], t) for t in ('np.logical_not(CIJp + np.eye(n))', 'np.logical_not(np.logical_or(CIJp, np.eye(n)))',
                                                                         'CIJp + np.eye(n) == 0', 'np.logical_or(CIJp, np.eye(n)) == 0'))
    rep.ob('E.fill-cells-exclude-clusters-and-diagonal', f, ab[0] if ab else 'a, b = np.where(...)', oka,
           'random connections must be drawn from cells that are neither in a cluster nor on the diagonal', line=f.node.lineno)
    if ab:
        A, B = (norm(e) for e in ab[0].targets[0].elts)
        rp = [s for s in stmts if isinstance(s, ast.Assign) and isinstance(s.value, ast.Call) and isinstance(s.value.func, ast.Attribute) and s.value.func.attr == 'permutation']
        okp = len(rp) == 1 and m.match(rp[0].value.args[0], 'len(%s)' % A) is not None
        RP = norm(rp[0].targets[0]) if rp else 'rp'
        sa = [s for s in stmts if m.match(s, '%s = %s[%s[:rem_k]]' % (A, A, RP))]
        sb = [s for s in stmts if m.match(s, '%s = %s[%s[:rem_k]]' % (B, B, RP))]
        rep.ob('D.exactly-rem_k-distinct-cells', f, sa[0] if sa else 'a = a[rp[:rem_k]]', bool(okp) and len(sa) == 1 and len(sb) == 1,
               'row and column indices must both be the first rem_k entries of one permutation of all free cells', line=f.node.lineno)
        st = [s for s in stmts if m.match(s, 'CIJp[$I, $J] = 1')]
        okz = False
        if st:
            pm = ParentMap(f.node)
            lp = pm.loops(st[0])
            okz = bool(lp) and norm(lp[0].iter) == 'zip(%s, %s)' % (A, B)
        rep.ob('D.fill-sets-the-chosen-cells', f, st[0] if st else 'CIJp[ai, bi] = 1', okz, 'the chosen (row, column) pairs must be set to 1', line=f.node.lineno)


# ------------------------------------------------------------------ ring lattice
def _ring(prog, rep):
    f = prog.func(REF, 'makeringlatticeCIJ')
    m = Matcher(prog, f)
    stmts = _stmts(f)
    loops = [s for s in stmts if isinstance(s, ast.While)]
    okl = len(loops) == 1 and m.match(loops[0].test, 'kk < k') is not None
    rep.ob('D.bands-added-until-count-reached', f, loops[0].test if loops else 'while kk < k', okl, 'bands must be added while fewer than k connections exist', line=f.node.lineno)
    if not okl:
        return
    lp = loops[0]
    cnt = None
    for s in lp.body:
        if isinstance(s, ast.AugAssign) and isinstance(s.target, ast.Name) and isinstance(s.op, ast.Add) and isinstance(s.value, ast.Constant) and s.value.value == 1:
            cnt = s
    init = _defs(f, cnt.target.id) if cnt is not None else []
    init = [s for s in init if s.lineno < lp.lineno]
    seqs = {}
    for s in stmts:
        if isinstance(s, ast.Assign) and isinstance(s.value, ast.Call) and norm(s.value.func) == 'range' and s.lineno < lp.lineno:
            seqs[norm(s.targets[0])] = s.value
    uses = [s for s in lp.body if isinstance(s, ast.Assign) and cnt is not None and any(isinstance(n, ast.Subscript) and norm(n.slice) == cnt.target.id for n in ast.walk(s.value))]
    ok = cnt is not None and len(init) == 1 and isinstance(init[0].value, (ast.Constant, ast.UnaryOp)) and bool(uses)
    first = None
    if ok:
        c0 = ast.literal_eval(init[0].value)
        before = all(lp.body.index(cnt) < lp.body.index(u) for u in uses)
        after = all(lp.body.index(cnt) > lp.body.index(u) for u in uses)
        if before:
            first = c0 + 1
        elif after:
            first = c0
        else:
            ok = False
    rep.ob('E.band-counter-shape', f, cnt if cnt is not None else 'count += 1', ok, 'the band counter must start at a constant and advance by one per iteration, consistently before or after its uses', line=lp.lineno)
    if first is None:
        return
    # evaluate seq[first] for every range sequence indexed by the counter in the loop
    offsets = {}
    for u in uses:
        for n in ast.walk(u.value):
            if isinstance(n, ast.Subscript) and norm(n.slice) == cnt.target.id and norm(n.value) in seqs:
                r = seqs[norm(n.value)]
                a = [norm(x) for x in r.args]
                if len(a) == 2:
                    start, step = a[0], '1'
                elif len(a) == 3:
                    start, step = a[0], a[2]
                else:
                    start, step = '0', '1'
                offsets[norm(n.value)] = (start, step)
    near = [k for k, (st, sp_) in offsets.items() if sp_ == '1']
    far = [k for k, (st, sp_) in offsets.items() if sp_ == '-1']
    okn = len(near) == 1 and first == 0 and offsets[near[0]][0] == '1'
    if len(near) == 1 and offsets[near[0]][0] not in ('1',):
        try:
            okn = int(offsets[near[0]][0]) + first == 1
        except ValueError:
            okn = False
    elif len(near) == 1:
        okn = int(offsets[near[0]][0]) + first == 1
    rep.ob('E.first-band-is-the-nearest-off-diagonal', f, '%s[%s] on first iteration = %s + %d' % (near[0] if near else 'seq', cnt.target.id, offsets[near[0]][0] if near else '?', first),
           okn, 'the first band added must be the off-diagonal at distance 1; with the counter advanced before use the lattice starts at distance %s and '
           'the nearest band stays empty' % (str(int(offsets[near[0]][0]) + first) if near and offsets[near[0]][0].lstrip('-').isdigit() else '?'), line=lp.lineno)
    okf = len(far) == 1 and first == 0 and offsets[far[0]][0] in ('n - 1',)
    rep.ob('E.first-wrap-band-is-n-1', f, '%s[%s] on first iteration' % (far[0] if far else 'seq2', cnt.target.id), okf,
           'the wrap-around partner of band 1 is band n-1 (first element of range(n-1, 0, -1))', line=lp.lineno)
    # band matrices: triu(ones, d) - triu(ones, d+1), symmetrised and added
    d1 = [s for s in lp.body if isinstance(s, ast.Assign) and m.match(s.value, 'np.triu($O, $S[$C]) - np.triu($O, $S[$C] + 1)')]
    rep.ob('D.band-is-one-off-diagonal', f, d1[0] if d1 else 'dCIJ = np.triu(ones, d) - np.triu(ones, d + 1)', len(d1) == 2, 'each band must be exactly one off-diagonal', line=lp.lineno)
    plain = [s for s in lp.body if m.match(s, '$D = $D + $D.T + $D2 + $D2.T')]
    clipped = [s for s in lp.body if m.match(s, '$D = (($D + $D.T + $D2 + $D2.T) > 0).astype($T)') or m.match(s, '$D = np.minimum($D + $D.T + $D2 + $D2.T, 1)')
               or m.match(s, '$D = np.clip($D + $D.T + $D2 + $D2.T, 0, 1)') or m.match(s, '$D = ($D + $D.T + $D2 + $D2.T) > 0')]
    comb = plain + clipped
    rep.ob('E.coinciding-bands-not-double-counted', f, comb[0] if comb else 'dCIJ = ((dCIJ + dCIJ.T + dCIJ2 + dCIJ2.T) > 0)', bool(clipped) and not plain,
           'for even n the offsets d and n-d coincide at d = n/2: a plain sum of the two bands puts 2s into the matrix, over-counts the connections and lets the '
           'excess removal index past the band; the combined band must be clipped to 0/1 (or the coincidence guarded)', line=lp.lineno)
    add = [s for s in lp.body if m.match(s, 'CIJ += $D')]
    kk = [s for s in lp.body if m.match(s, 'kk = int(np.sum(CIJ))') or m.match(s, 'kk = np.sum(CIJ)')]
    rep.ob('D.band-added-and-counted', f, add[0] if add else 'CIJ += dCIJ', len(comb) == 1 and len(add) == 1 and len(kk) == 1 and
           lp.body.index(comb[0]) < lp.body.index(add[0]) < lp.body.index(kk[0]), 'the symmetrised band must be added and the count refreshed from the matrix', line=lp.lineno)
    # excess removal from the last band only
    D = norm(add[0].value) if add else 'dCIJ'
    ov = _defs(f, 'overby')
    okov = bool(ov) and m.match(ov[0].value, 'kk - k') is not None
    ij = [s for s in stmts if isinstance(s, ast.Assign) and isinstance(s.targets[0], ast.Tuple) and m.match(s.value, 'np.where(%s)' % D) and s.lineno > lp.lineno]
    rep.ob('D.excess-removed-from-last-band-only', f, ij[0] if ij else 'i, j = np.where(dCIJ)', okov and len(ij) == 1,
           'connections in excess of k must be removed from the cells of the last band added', line=f.node.lineno)
    if ij:
        I, J = (norm(e) for e in ij[0].targets[0].elts)
        rp = [s for s in stmts if isinstance(s, ast.Assign) and isinstance(s.value, ast.Call) and isinstance(s.value.func, ast.Attribute) and s.value.func.attr == 'permutation']
        rm = [s for s in stmts if m.match(s, 'CIJ[%s[$R[$X]], %s[$R[$X]]] = 0' % (I, J))]
        okr = len(rp) == 1 and len(rm) == 1
        if okr:
            pm = ParentMap(f.node)
            l2 = pm.loops(rm[0])
            okr = bool(l2) and m.match(l2[0].iter, 'range(overby)') is not None and m.match(rp[0].value.args[0], 'np.size(%s)' % I) is not None
        rep.ob('D.excess-removed-at-distinct-positions', f, rm[0] if rm else 'CIJ[i[rp[ii]], j[rp[ii]]] = 0', okr,
               'exactly `overby` distinct cells of the last band must be cleared (positions from one permutation)', line=f.node.lineno)


# ------------------------------------------------------------------ degrees fixed
def _degreesfixed(prog, rep):
    from .C09 import _kind
    f = prog.func(REF, 'makerandCIJdegreesfixed')
    m = Matcher(prog, f)
    stmts = _stmts(f)
    pm = ParentMap(f.node)
    # index arrays must be integer-kinded
    env = {}
    for s in stmts:
        if isinstance(s, ast.Assign) and len(s.targets) == 1 and isinstance(s.targets[0], ast.Name):
            env[s.targets[0].id] = _kind(prog, f, s.value, env)
    ed = _defs(f, 'edges')
    kinds = {}
    if ed and isinstance(ed[0].value, ast.Call) and ed[0].value.args and isinstance(ed[0].value.args[0], ast.Tuple):
        for e in ed[0].value.args[0].elts:
            b = e
            while isinstance(b, ast.Subscript):
                b = b.value
            if isinstance(b, ast.Name):
                kinds[b.id] = env.get(b.id, 'TOP')
    idx_use = [s for s in stmts if any(isinstance(n, ast.Subscript) and norm(n.value) == 'CIJ' and 'edges[' in norm(n.slice) for n in ast.walk(s))]
    rep.ob('E.index-arrays-are-integer', f, ed[0] if ed else 'edges', bool(kinds) and all(k == 'INT' for k in kinds.values()) and bool(idx_use),
           'the stub tables %s are used as matrix indices but are %s-kinded (np.zeros without dtype=int): every call raises IndexError' % (
               sorted(kinds), sorted(set(kinds.values()))), line=f.node.lineno)
    # stub tables filled from the degree vectors
    fills = {norm(s.targets[0].value): s for s in stmts if isinstance(s, ast.Assign) and isinstance(s.targets[0], ast.Subscript) and isinstance(s.targets[0].slice, ast.Slice)}
    okf = False
    if len(fills) >= 2:
        vals = {k: norm(v) for k, v in fills.items()}
        okf = any(m.match(s, '$T[$A:$A + inv[i]] = i') for s in fills.values()) and any(m.match(s, '$T[$A:$A + outv[i]] = i') for s in fills.values())
    rep.ob('D.stub-tables-from-degree-vectors', f, '; '.join(norm(s) for s in fills.values())[:150], okf,
           'node i must appear inv[i] times in the in-stub table and outv[i] times in the out-stub table', line=f.node.lineno)
    edok = bool(ed) and m.match(ed[0].value, 'np.array((out_inv, in_inv[rng.permutation(k)]))') is not None
    rep.ob('D.edge-table-pairs-out-with-permuted-in', f, ed[0] if ed else 'edges', edok, 'edge table row 0 must be the out-stubs, row 1 a permutation of the in-stubs', line=f.node.lineno)
    start = [s for s in stmts if m.match(s, 'CIJ = np.eye(n)')]
    end = [s for s in stmts if m.match(s, 'CIJ -= np.eye(n)') or m.match(s, 'CIJ = CIJ - np.eye(n)') or m.match(s, 'np.fill_diagonal(CIJ, 0)')]
    rep.ob('D.diagonal-blocked-then-cleared', f, '%s ... %s' % (norm(start[0]) if start else '?', norm(end[0]) if end else '?'), len(start) == 1 and len(end) == 1,
           'the diagonal must be pre-occupied (no self-connections can be placed) and cleared before returning', line=f.node.lineno)
    # ---- repair block: symbolic cells
    blk = None
    for s in stmts:
        if isinstance(s, ast.If) and m.match(s.test, 'not (CIJ[edges[0, i], edges[1, switch]] or CIJ[edges[0, switch], edges[1, i]])'):
            blk = s
    rep.ob('D.repair-tests-both-target-cells', f, blk.test if blk is not None else 'if not (CIJ[o_i, in_s] or CIJ[o_s, in_i])', blk is not None,
           'a partner edge may be used only if both swapped cells are free', line=f.node.lineno)
    if blk is None:
        return
    for case in ('placed', 'unplaced'):
        cells = {('oi', 'ii'): 'occ', ('oi', 'is'): 0, ('os', 'ii'): 0, ('os', 'is'): 1 if case == 'placed' else 'other'}
        table = {'i': ['oi', 'ii'], 's': ['os', 'is']}
        unsupported = []

        def ev_idx(e):
            b = m.match(e, 'edges[$R, $E]')
            if not b:
                return None
            r = norm(b['R'])
            e2 = norm(b['E'])
            if e2 not in ('i', 'switch') or r not in ('0', '1'):
                return None
            return table['i' if e2 == 'i' else 's'][int(r)]

        def run(block):
            for s in block:
                if isinstance(s, ast.If):
                    if norm(s.test) in ('switch < i', 'i > switch'):
                        run(s.body if case == 'placed' else s.orelse)
                    elif norm(s.test) in ('switch > i', 'i < switch', 'switch >= i'):
                        run(s.body if case == 'unplaced' else s.orelse)
                    else:
                        unsupported.append(s)
                elif isinstance(s, ast.Assign) and len(s.targets) == 1:
                    t = s.targets[0]
                    if isinstance(t, ast.Subscript) and norm(t.value) == 'CIJ' and isinstance(t.slice, ast.Tuple):
                        a, b_ = ev_idx(t.slice.elts[0]), ev_idx(t.slice.elts[1])
                        if a is None or b_ is None or not isinstance(s.value, ast.Constant):
                            unsupported.append(s)
                        else:
                            cells[(a, b_)] = s.value.value
                    elif isinstance(t, ast.Subscript) and norm(t.value) == 'edges':
                        src = ev_idx(s.value) if isinstance(s.value, ast.Subscript) else vals.get(norm(s.value))
                        bb = m.match(t, 'edges[$R, $E]')
                        if bb and src is not None:
                            table['i' if norm(bb['E']) == 'i' else 's'][int(norm(bb['R']))] = src
                        else:
                            unsupported.append(s)
                    elif isinstance(t, ast.Name):
                        v = ev_idx(s.value)
                        if v is not None:
                            vals[t.id] = v
                elif isinstance(s, ast.Break):
                    return
                else:
                    unsupported.append(s)
        vals = {}
        run(blk.body)
        oi, ii = table['i']
        os_, is_ = table['s']
        ok = not unsupported and cells.get((oi, ii)) == 1
        why = 'after the repair, edge i is listed as (%s,%s) but that cell holds %s: the connection is never placed, so row/column sums miss the requested degrees' % (oi, ii, cells.get((oi, ii)))
        if ok:
            if case == 'placed':
                ok = cells.get((os_, is_)) == 1 and cells.get(('os', 'is')) == 0
                why = 'partner already placed: its old cell must be cleared and its new cell (%s,%s) set' % (os_, is_)
            else:
                ok = cells.get(('os', 'is')) == 'other' and cells.get((os_, is_)) in (0,)
                why = 'partner not yet placed: its cells must not be touched (old cell %s, new cell %s)' % (cells.get(('os', 'is')), cells.get((os_, is_)))
        if unsupported:
            why = 'repair block contains a statement the analysis cannot interpret: %s' % norm(unsupported[0]).split('\n')[0]
        rep.ob('D.repair-keeps-matrix-and-edge-table-coherent', f, 'partner %s' % ('already placed (switch < i)' if case == 'placed' else 'not yet placed (switch > i)'),
               ok, why, line=blk.lineno)


def variants(root):
    from ..selftest import Variant as V
    R = 'bct/algorithms/reference.py'
    out = []

    def B(name, fn, old, new, expect, **kw):
        out.append(V('%s: %s' % (fn, name), 'break', R, old, new, expect, fn, scope='def %s(' % fn, **kw))

    def N(name, fn, old, new, **kw):
        out.append(V('%s: neutral %s' % (fn, name), 'neutral', R, old, new, scope='def %s(' % fn, **kw))
    B('not symmetrised', 'makerandCIJ_und', '    CIJ = CIJ + CIJ.T\n', '', 'E.und-output')
    B('candidates include diagonal', 'makerandCIJ_und', 'np.triu(np.logical_not(np.eye(n)))', 'np.triu(np.ones((n, n)))', 'E.candidates')
    B('candidates include diagonal', 'makerandCIJ_dir', 'np.where(np.logical_not(np.eye(n)).flat)', 'np.where(np.ones((n, n)).flat)', 'E.candidates')
    B('k+1 cells', 'makerandCIJ_dir', 'CIJ.flat[ix[rp][:k]] = 1', 'CIJ.flat[ix[rp][:k + 1]] = 1', 'D.exactly-k')
    B('random cells with repetition', 'makerandCIJ_dir', 'rp = rng.permutation(np.size(ix))', 'rp = rng.randint(np.size(ix), size=np.size(ix))', 'D.permutation')
    B('loop accepts >= k', 'maketoeplitzCIJ', 'while np.sum(CIJ) != k:', 'while np.sum(CIJ) < k:', 'D.sampling-loop')
    B('gives up silently', 'maketoeplitzCIJ', "            raise BCTParamError('Infinite loop was caught generating toeplitz '\n                                'matrix.  This means the matrix could not be resolved with the '\n                                'specified parameters.')", "            break", 'D.no-other-exit')
    B('template diagonal nonzero', 'maketoeplitzCIJ', 'linalg.toeplitz(np.append((0,), pf), r=np.append((0,), pf))', 'linalg.toeplitz(np.append((1,), pf), r=np.append((1,), pf))', 'E.template')
    B('count of another matrix', 'makefractalCIJ', 'k = np.sum(CIJ)', 'k = np.sum(prob > 0.5)', 'D.reported-count')
    B('diagonal allowed', 'makefractalCIJ', 'prob = (1 / E**ee) * (np.ones((s, s)) - np.eye(s))', 'prob = (1 / E**ee) * np.ones((s, s))', 'E.probabilities')
    B('fill may hit clusters', 'makeevenCIJ', 'np.where(np.logical_not(CIJp + np.eye(n)))', 'np.where(np.logical_not(np.eye(n)))', 'E.fill-cells')
    B('rows and columns from different prefixes', 'makeevenCIJ', 'b = b[rp[:rem_k]]', 'b = b[rp[-rem_k:]]', 'D.exactly-rem_k')
    B('counter advanced before use', 'makeringlatticeCIJ', '    while kk < k:\n        dCIJ', '    while kk < k:\n        count += 1\n        dCIJ', 'E.',
      also=[(R, '        kk = int(np.sum(CIJ))\n        count += 1\n', '        kk = int(np.sum(CIJ))\n', 1)])
    B('middle band double counted', 'makeringlatticeCIJ', 'dCIJ = ((dCIJ + dCIJ.T + dCIJ2 + dCIJ2.T) > 0).astype(float)', 'dCIJ = dCIJ + dCIJ.T + dCIJ2 + dCIJ2.T', 'E.coinciding')
    N('clip via minimum', 'makeringlatticeCIJ', 'dCIJ = ((dCIJ + dCIJ.T + dCIJ2 + dCIJ2.T) > 0).astype(float)', 'dCIJ = np.minimum(dCIJ + dCIJ.T + dCIJ2 + dCIJ2.T, 1)')
    B('excess removed from whole matrix', 'makeringlatticeCIJ', 'i, j = np.where(dCIJ)', 'i, j = np.where(CIJ)', 'D.excess-removed-from')
    B('excess positions may repeat', 'makeringlatticeCIJ', 'rp = rng.permutation(np.size(i))', 'rp = rng.randint(np.size(i), size=np.size(i))', 'D.excess-removed-at')
    B('float stub tables', 'makerandCIJdegreesfixed', 'in_inv = np.zeros((k,), dtype=int)', 'in_inv = np.zeros((k,))', 'E.index-arrays')
    B('edge i never placed', 'makerandCIJdegreesfixed', '                    CIJ[edges[0, i], edges[1, switch]] = 1\n', '', 'D.repair-keeps')
    B('partner moved even if unplaced', 'makerandCIJdegreesfixed', '                    if switch < i:\n                        CIJ[edges[0, switch], edges[1, switch]] = 0\n                        CIJ[edges[0, switch], edges[1, i]] = 1\n',
      '                    CIJ[edges[0, switch], edges[1, switch]] = 0\n                    CIJ[edges[0, switch], edges[1, i]] = 1\n', 'D.repair-keeps')
    B('in-stubs from out-degrees', 'makerandCIJdegreesfixed', 'in_inv[i_in:i_in + inv[i]] = i', 'in_inv[i_in:i_in + outv[i]] = i', 'D.stub-tables')
    N('sym via +=', 'makerandCIJ_und', 'CIJ = CIJ + CIJ.T', 'CIJ += CIJ.T')
    N('prefix inside', 'makerandCIJ_dir', 'CIJ.flat[ix[rp][:k]] = 1', 'CIJ.flat[ix[rp[:k]]] = 1')
    return out
