"""C11 - constrained rewiring honours connectivity, lattice cost and forbidden cells.

Decided statically (engine B + dominance):
 * precondition raises of the undirected _connected routines dominate every draw and write;
 * in the four _connected kernels every matrix write is gated by the `rewire` flag, the flag is
   reset at the start of each attempt, cleared only on the 'frontier stalled' exit of the
   reachability search, the search loop has exactly the two exits stalled / target-met, reads the
   working matrix, and is skipped only under the shortcut test on the cells the code states;
 * in the four latticisers the accept path is dominated by a guard equal to old cost >= new cost,
   with both costs derived from the cells the swap removes and creates;
 * randomize_graph_partial_und: every cell that becomes nonzero was tested zero in the mask.
That the frontier search really decides connectivity is a graph lemma that is not mechanised:
"output connected" itself is not claimed, only that the test cannot be bypassed.
"""
import ast

import sympy as sp

from ..core.astutil import norm, ParentMap, conjuncts
from ..core.cfg import CFG
from ..core.loader import walk_no_nested
from ..core.pattern import Matcher
from ..engines import swapkernel as SK

MOD = 'bct.algorithms.reference'
CONNECTED = [('randmio_und_connected', True), ('randmio_dir_connected', False), ('latmio_und_connected', True), ('latmio_dir_connected', False)]
LATT = [('latmio_und', True), ('latmio_dir', False), ('latmio_und_connected', True), ('latmio_dir_connected', False)]


def _stmts(f):
    return [n for n in walk_no_nested(f.node) if isinstance(n, ast.stmt)]


def check(prog, rep):
    rep.explanation = (
        'Guards of the constrained rewiring routines decided by dominance and by abstract interpretation of one attempt: '
        'precondition raises dominate all draws/writes; every matrix write of the _connected kernels is gated by the rewire flag, '
        'which is cleared exactly on the stalled-frontier exit of the reachability loop (two exits only) and the loop is skipped '
        'only under the stated shortcut; the lattice guard equals removed-cost >= created-cost computed from the cells the swap '
        'actually touches; cells created by randomize_graph_partial_und were tested zero in the mask. The adequacy of the '
        'frontier search as a connectivity test is not decided.')
    rep.assume('distance-to-diagonal matrix D is symmetric for the undirected latticisers (the guard reads one orientation)')
    rep.assume('mask B of randomize_graph_partial_und is symmetric')
    for name, und in CONNECTED:
        f = prog.func(MOD, name)
        _gating(prog, rep, f, und)
        if und:
            _preconditions(prog, rep, f)
    for name, und in LATT:
        _lattice_guard(prog, rep, prog.func(MOD, name), und)
    _mask(prog, rep, prog.func(MOD, 'randomize_graph_partial_und'))
    rep.floor('D.precondition', 4)
    rep.floor('B11.', 36)
    rep.floor('B10.', 4)
    rep.floor('B4.mask', 2)


# ------------------------------------------------------------------ preconditions
def _preconditions(prog, rep, f):
    m = Matcher(prog, f)
    cfg = CFG(f.node)
    pm = ParentMap(f.node)
    stmts = _stmts(f)
    arg = f.params[0]
    sym = comp = None
    for s in stmts:
        if isinstance(s, ast.If) and any(isinstance(x, ast.Raise) for x in s.body):
            r = [x for x in s.body if isinstance(x, ast.Raise)][0]
            exc = r.exc.func if isinstance(r.exc, ast.Call) else r.exc
            is_param_err = exc is not None and norm(exc) == 'BCTParamError'
            if m.match(s.test, 'not np.allclose(%s, %s.T)' % (arg, arg)) or m.match(s.test, 'not np.all(%s == %s.T)' % (arg, arg)):
                sym = (s, is_param_err)
            b = m.match(s.test, 'number_of_components(%s) > 1' % arg) or m.match(s.test, 'number_of_components(%s) != 1' % arg)
            if b:
                callee = prog.resolve_expr(f, [x for x in (s.test.left, s.test.comparators[0]) if isinstance(x, ast.Call)][0].func)
                comp = (s, is_param_err and callee[0] == 'func' and callee[1].name == 'number_of_components'
                        and callee[1].module.modname == 'bct.algorithms.clustering')
    rep.ob('D.precondition-asymmetric-rejected', f, sym[0].test if sym else 'if not np.allclose(R, R.T): raise BCTParamError', bool(sym and sym[1]),
           'asymmetric input is not rejected with BCTParamError', line=f.node.lineno)
    rep.ob('D.precondition-disconnected-rejected', f, comp[0].test if comp else 'if number_of_components(R) > 1: raise BCTParamError', bool(comp and comp[1]),
           'disconnected input is not rejected with BCTParamError (via clustering.number_of_components on the argument)', line=f.node.lineno)
    effects = []
    for s in stmts:
        if isinstance(s, (ast.Assign, ast.AugAssign)):
            tg = s.targets if isinstance(s, ast.Assign) else [s.target]
            for t in tg:
                b = t
                while isinstance(b, (ast.Subscript, ast.Attribute)):
                    b = b.value
                if isinstance(b, ast.Name) and b.id == arg:
                    effects.append(s)
        for c in ast.walk(s) if not isinstance(s, (ast.If, ast.While, ast.For)) else ast.walk(getattr(s, 'test', getattr(s, 'iter', s))):
            if isinstance(c, ast.Call) and isinstance(c.func, ast.Attribute) and isinstance(c.func.value, ast.Name) and c.func.value.id == 'rng':
                effects.append(s)
    for pre, label in ((sym, 'asymmetric'), (comp, 'disconnected')):
        if pre:
            bad = [e for e in effects if not cfg.dominates(pre[0], e)]
            rep.ob('D.precondition-dominates-effects', f, pre[0].test, not bad,
                   'the %s-input test does not dominate %s: work is done on an invalid input' % (label, norm(bad[0]).split('\n')[0] if bad else ''))


# ------------------------------------------------------------------ rewire gating
def _gating(prog, rep, f, und):
    m = Matcher(prog, f)
    pm = ParentMap(f.node)
    cfg = CFG(f.node)
    k = SK.locate_kernel(prog, f, und)
    M = k.matrix
    first_write = k.accept_block[0]
    guards = pm.guards(first_write)
    flag = None
    for t, pol, kind, owner in guards:
        if isinstance(t, ast.Name) and pol and kind == 'if':
            flag = t.id
            gate = owner
    rep.ob('B11.writes-gated-by-flag', f, 'if %s:' % (flag or 'rewire'), flag is not None,
           'matrix writes of a connectivity-preserving kernel are not inside `if rewire:`', line=first_write.lineno)
    if flag is None:
        return
    # all M writes inside the gate (locate_kernel already insists on one block)
    assigns = [s for s in _stmts(f) if isinstance(s, ast.Assign) and any(isinstance(t, ast.Name) and t.id == flag for t in s.targets)]
    trues = [s for s in assigns if isinstance(s.value, ast.Constant) and s.value.value is True]
    falses = [s for s in assigns if isinstance(s.value, ast.Constant) and s.value.value is False]
    other = [s for s in assigns if s not in trues and s not in falses]
    rep.ob('B11.flag-only-constants', f, other[0] if other else flag, not other, 'flag %s receives a computed value' % flag, line=f.node.lineno)
    # reset at the start of each attempt: `flag = True` in the attempt loop body, dominating the gate, and executed in every iteration
    att = k.attempt_loop
    okr = len(trues) == 1 and any(trues[0] is s for s in att.body) and cfg.dominates(trues[0], gate)
    rep.ob('B11.flag-reset-each-attempt', f, trues[0] if trues else '%s = True' % flag, okr,
           'the flag must be set to True once, unconditionally, at the start of every attempt (otherwise a failed test leaks into later attempts '
           'or a stale True bypasses the test)', line=att.lineno)
    # the search block
    rep.ob('B11.flag-cleared-once', f, falses[0] if falses else '%s = False' % flag, len(falses) == 1,
           'expected exactly one place where the swap is vetoed', line=f.node.lineno)
    if len(falses) != 1:
        return
    veto = falses[0]
    loops = pm.loops(veto)
    search = loops[0] if loops else None
    is_wt = isinstance(search, ast.While) and isinstance(search.test, ast.Constant) and search.test.value is True
    rep.ob('B11.search-loop-shape', f, 'while True: (reachability search)', is_wt, 'the veto is not inside the reachability `while True` loop', line=veto.lineno)
    if not is_wt:
        return
    # veto is followed by break, under the stalled-frontier test
    vg = pm.guards(veto)
    inner = [(t, pol) for t, pol, kind, owner in vg if owner in list(ast.walk(search))]
    stalled = inner[-1] if inner else None
    stalled_ok = stalled is not None and stalled[1] and (
        m.match(stalled[0], 'not np.all(np.any($P, axis=1))') or m.match(stalled[0], 'not np.any($P, axis=1).all()') or
        m.match(stalled[0], 'not np.all(np.any($P, 1))'))
    rep.ob('B11.veto-iff-frontier-stalled', f, stalled[0] if stalled else veto, bool(stalled_ok),
           'the swap must be vetoed exactly when one of the two frontiers stops growing (not np.all(np.any(P, axis=1)))')
    blk = pm.block_of[veto][2]
    idx = pm.block_of[veto][3]
    rep.ob('B11.veto-then-break', f, veto, idx + 1 < len(blk) and isinstance(blk[idx + 1], ast.Break), 'the veto is not followed by break')
    # exits of the search loop: exactly two breaks, no return/continue
    brs = [x for x in ast.walk(search) if isinstance(x, ast.Break) and pm.loops(x)[0] is search]
    others = [x for x in ast.walk(search) if isinstance(x, (ast.Return, ast.Continue, ast.Raise))]
    rep.ob('B11.search-has-two-exits', f, 'breaks: %d' % len(brs), len(brs) == 2 and not others,
           'the reachability loop must leave only by "stalled" (veto) or "target met"; found %d breaks, %d other exits' % (len(brs), len(others)),
           line=search.lineno)
    # the other break is guarded by a target-met test over the frontier/visited arrays
    for b in brs:
        g = pm.guards(b)
        if any(x is veto for x in pm.block_of[b][2]):
            continue
        tests = [t for t, pol, kind, owner in g if owner in list(ast.walk(search))]
        tgt = tests[-1] if tests else None
        reads = {n.id for n in ast.walk(tgt) if isinstance(n, ast.Name)} if tgt is not None else set()
        P = _frontier_names(search)
        rep.ob('B11.accept-exit-tests-targets', f, tgt if tgt is not None else b, tgt is not None and bool(reads & P) and bool(reads & {'a', 'b', 'c', 'd'}),
               'the accepting exit of the search must test that the target nodes were reached')
    # the search expands along the working matrix
    exp = [s for s in ast.walk(search) if isinstance(s, ast.Assign) and M in {n.id for n in ast.walk(s.value) if isinstance(n, ast.Name)}]
    rep.ob('B11.search-reads-working-matrix', f, exp[0] if exp else 'P[.] = np.any(%s[...])' % M, bool(exp),
           'the frontier is not expanded along the working matrix %s' % M, line=search.lineno)
    # skipped only under the shortcut
    sg = [(t, pol, owner) for t, pol, kind, owner in pm.guards(search) if owner in list(ast.walk(att)) and kind == 'if']
    sc = sg[-1] if sg else None
    if und:
        want = {('a', 'c'), ('b', 'd')}
    else:
        want = None
    cells = set()
    if sc is not None:
        for n in ast.walk(sc[0]):
            if isinstance(n, ast.Subscript) and isinstance(n.value, ast.Name) and n.value.id == M and isinstance(n.slice, ast.Tuple) \
                    and all(isinstance(e, ast.Name) for e in n.slice.elts):
                cells.add(tuple(e.id for e in n.slice.elts))
    if und:
        norm_cells = {tuple(sorted(c)) for c in cells}
        ok = sc is not None and norm_cells == {('a', 'c'), ('b', 'd')} and (m.match(sc[0], 'not ($X or $Y)') is not None or m.match(sc[0], 'not $X and not $Y') is not None) and sc[1]
        why = 'undirected search may be skipped only when a-c or b-d are already linked (cells %s)' % sorted(cells)
    else:
        ok = sc is not None and sc[1] and cells == {('a', 'c'), ('d', 'b'), ('d', 'c'), ('c', 'a'), ('b', 'd'), ('b', 'a')} and \
            m.match(sc[0], 'not (np.any(($A, $B, $C)) and np.any(($D, $E, $F)))') is not None
        if ok:
            b = m.match(sc[0], 'not (np.any(($A, $B, $C)) and np.any(($D, $E, $F)))')
            g1 = {norm(b[x]) for x in 'ABC'}
            g2 = {norm(b[x]) for x in 'DEF'}
            ok = {frozenset(g1), frozenset(g2)} == {frozenset({'%s[a, c]' % M, '%s[d, b]' % M, '%s[d, c]' % M}),
                                                   frozenset({'%s[c, a]' % M, '%s[b, d]' % M, '%s[b, a]' % M})}
        why = 'directed search may be skipped only under (a->c or d->b or d->c) and (c->a or b->d or b->a) (cells %s)' % sorted(cells)
    rep.ob('B11.search-skipped-only-under-shortcut', f, sc[0] if sc is not None else search, bool(ok), why, line=search.lineno)
    # the shortcut `if` holds nothing but the search (no write to the flag = True, no matrix write)
    # seeds of the search exclude the two edges being removed
    if und:
        setup = pm.block_of[search][2]
        zero = {norm(s.targets[0]) for s in setup if isinstance(s, ast.Assign) and isinstance(s.value, ast.Constant) and s.value.value == 0}
        src = [s for s in setup if isinstance(s, ast.Assign) and m.match(s.value, '%s[(a, d), :].copy()' % M)]
        rep.ob('B11.search-starts-from-a-and-d-without-removed-edges', f, src[0] if src else 'P = %s[(a, d), :].copy()' % M,
               bool(src) and any(z.endswith('[0, b]') for z in zero) and any(z.endswith('[1, c]') for z in zero),
               'frontiers must start from the neighbours of a and d in a *copy* of the rows, with the edges a-b and d-c removed', line=search.lineno)
    else:
        setup = pm.block_of[search][2]
        src = [s for s in setup if isinstance(s, ast.Assign) and m.match(s.value, '%s[(a, c), :].copy()' % M)]
        sets = {norm(s.targets[0]): s.value.value for s in setup if isinstance(s, ast.Assign) and isinstance(s.value, ast.Constant)}
        ok = bool(src)
        if ok:
            P = norm(src[0].targets[0])
            ok = sets.get('%s[0, b]' % P) == 0 and sets.get('%s[0, d]' % P) == 1 and sets.get('%s[1, d]' % P) == 0 and sets.get('%s[1, b]' % P) == 1
        rep.ob('B11.search-starts-from-swapped-out-edges', f, src[0] if src else 'P = %s[(a, c), :].copy()' % M, ok,
               'frontiers must start from the out-neighbours of a and c after the swap (a: -b +d, c: -d +b) in a copy of the rows', line=search.lineno)
    # visited mask: the search walks along the *old* matrix, which still holds the two edges being removed.  It models the matrix
    # without them only if their tails can never be expanded again: undirected - a and d blocked for both frontiers (a would step
    # over a-b, d over d-c); directed - each frontier's own start node.
    setup = pm.block_of[search][2]
    masks = set()
    for s_ in [x for x in ast.walk(search) if isinstance(x, (ast.Assign, ast.AugAssign))]:
        b_ = m.match(s_, '$P *= np.logical_not($PN)') or m.match(s_, '$P = $P * np.logical_not($PN)') or m.match(s_, '$P[$PN != 0] = 0')
        if b_ and isinstance(b_['PN'], ast.Name):
            masks.add(b_['PN'].id)
    marked = set()
    for s_ in setup[:pm.block_of[search][3]]:
        if not (isinstance(s_, ast.Assign) and isinstance(s_.value, ast.Constant) and s_.value.value in (1, True)):
            continue
        for t_ in s_.targets:
            if isinstance(t_, ast.Subscript) and isinstance(t_.value, ast.Name) and t_.value.id in masks \
                    and isinstance(t_.slice, ast.Tuple) and len(t_.slice.elts) == 2:
                r_, c_ = t_.slice.elts
                rows = {0, 1} if (isinstance(r_, ast.Slice) and r_.lower is None and r_.upper is None and r_.step is None) else \
                    {r_.value} if isinstance(r_, ast.Constant) else set()
                cols = {e.id for e in (c_.elts if isinstance(c_, (ast.Tuple, ast.List)) else [c_]) if isinstance(e, ast.Name)}
                marked |= {(r, c) for r in rows for c in cols}
    need = {(0, 'a'), (1, 'a'), (0, 'd'), (1, 'd')} if und else {(0, 'a'), (1, 'c')}
    rep.ob('B11.removed-edge-tails-blocked-in-visited-mask', f, 'visited mask %s marks %s before the search' % (sorted(masks), sorted(marked)),
           bool(masks) and need <= marked,
           'the search expands along the unmodified matrix, which still contains the edges being removed; unless %s are marked visited from the '
           'start (missing: %s) a frontier can cross a removed edge and the test accepts swaps that disconnect the network' % (
               sorted(need), sorted(need - marked)), line=search.lineno)
    # one step of the search: both frontiers move along rows of the working matrix, lose what was already visited, and the
    # visited mask grows by the new frontier
    P_ = _frontier_names(search)
    for r_ in (0, 1):
        hit = None
        for s_ in [x for x in ast.walk(search) if isinstance(x, ast.Assign)]:
            for pat in ('$P[%d, :] = np.any(%s[$P[%d, :] != 0, :], axis=0)', '$P[%d, :] = np.any(%s[$P[%d, :] != 0], axis=0)',
                        '$P[%d, :] = %s[$P[%d, :] != 0, :].any(axis=0)', '$P[%d] = np.any(%s[$P[%d] != 0], axis=0)',
                        '$P[%d, :] = np.any(%s[$P[%d, :] > 0, :], axis=0)', '$P[%d, :] = np.any(%s[$P[%d, :].astype(bool), :], axis=0)'):
                if m.match(s_, pat % (r_, M, r_)):
                    hit = s_
        rep.ob('B11.frontier-%d-expands-along-rows-of-its-own-members' % r_, f, hit if hit is not None else 'P[%d, :] = np.any(%s[P[%d, :] != 0, :], axis=0)' % (r_, M, r_),
               hit is not None, 'frontier %d must become the union of the neighbour rows of its own current members' % r_, line=search.lineno)
    grow = [s_ for s_ in ast.walk(search) if isinstance(s_, (ast.Assign, ast.AugAssign)) and any(
        m.match(s_, pat) for pat in ('$PN += $P', '$PN = $PN + $P', '$PN |= $P', '$PN = np.logical_or($PN, $P)', '$PN[$P != 0] = 1'))
        and isinstance(getattr(s_, 'target', None) or s_.targets[0], (ast.Name, ast.Subscript))]
    grow = [g_ for g_ in grow if (norm(g_.target) if isinstance(g_, ast.AugAssign) else norm(g_.targets[0]).split('[')[0]) in masks]
    rep.ob('B11.visited-mask-accumulates-frontier', f, grow[0] if grow else 'PN += P', bool(grow) and pm.loops(grow[0])[0] is search,
           'nodes met by the search must be added to the visited mask on every step (otherwise frontiers oscillate and never stall)', line=search.lineno)
    # the engine's accepted states all carry flag == True
    it = SK.Interp(prog, k)
    states = it.run_attempt()
    acc = [s for s in states if s.accepted]
    rep.ob('B11.no-accept-with-veto', f, '%d accepting paths' % len(acc), bool(acc) and all(s.flags.get(flag) is True for s in acc),
           'an accepting path exists on which the veto flag is not known to be True', line=att.lineno)


def _frontier_names(search):
    out = set()
    for s in ast.walk(search):
        if isinstance(s, (ast.Assign, ast.AugAssign)):
            tg = s.targets if isinstance(s, ast.Assign) else [s.target]
            for t in tg:
                b = t
                while isinstance(b, (ast.Subscript, ast.Attribute)):
                    b = b.value
                if isinstance(b, ast.Name):
                    out.add(b.id)
    return out


# ------------------------------------------------------------------ lattice guard
def _lattice_guard(prog, rep, f, und):
    pm = ParentMap(f.node)
    k = SK.locate_kernel(prog, f, und)
    M = k.matrix
    it = SK.Interp(prog, k)
    states = it.run_attempt()
    acc = [s for s in states if s.accepted]
    # candidate guard: a >= / <= comparison among the guards of the accept block that reads D-like array times M cells
    first = k.accept_block[0]
    guards = [(t, pol, owner) for t, pol, kind, owner in pm.guards(first) if kind == 'if']
    cand = None
    for t, pol, owner in guards:
        if isinstance(t, ast.Compare) and len(t.ops) == 1 and isinstance(t.ops[0], (ast.GtE, ast.LtE, ast.Gt, ast.Lt)) and pol:
            if M in {n.id for n in ast.walk(t) if isinstance(n, ast.Name)}:
                cand = t
    if cand is None:
        rep.ob('B10.lattice-guard-present', f, 'if D[a,b]*R[a,b] + D[c,d]*R[c,d] >= D[a,d]*R[a,b] + D[c,b]*R[c,d]', False,
               'accept path of a latticiser is not dominated by a cost comparison', line=first.lineno)
        return
    rep.ob('B10.lattice-guard-present', f, cand, True, '')
    Dn = None
    for n in ast.walk(cand):
        if isinstance(n, ast.Subscript) and isinstance(n.value, ast.Name) and n.value.id != M:
            Dn = n.value.id
    D_is_param = Dn in f.params
    rep.ob('B10.guard-uses-distance-matrix', f, Dn or 'D', bool(D_is_param),
           'the cost comparison must weigh cells with the caller-supplied (or default) distance-to-diagonal matrix', line=cand.lineno)

    def sym_cell(arr, x, y):
        if und:
            x, y = sorted((x, y))
        return sp.Symbol('%s_%s_%s' % (arr, x, y))

    def term(e):
        if isinstance(e, ast.BinOp):
            l, r = term(e.left), term(e.right)
            if isinstance(e.op, ast.Add):
                return l + r
            if isinstance(e.op, ast.Sub):
                return l - r
            if isinstance(e.op, ast.Mult):
                return l * r
            if isinstance(e.op, ast.Div):
                return l / r
        if isinstance(e, ast.Subscript) and isinstance(e.value, ast.Name) and isinstance(e.slice, ast.Tuple) \
                and all(isinstance(z, ast.Name) for z in e.slice.elts):
            return sym_cell(e.value.id, e.slice.elts[0].id, e.slice.elts[1].id)
        if isinstance(e, ast.Constant) and isinstance(e.value, (int, float)):
            return sp.nsimplify(e.value)
        if isinstance(e, ast.UnaryOp) and isinstance(e.op, ast.USub):
            return -term(e.operand)
        return sp.Symbol('<' + norm(e) + '>')
    lhs, rhs = term(cand.left), term(cand.comparators[0])
    if isinstance(cand.ops[0], (ast.LtE, ast.Lt)):
        lhs, rhs = rhs, lhs
    strict = isinstance(cand.ops[0], (ast.Gt, ast.Lt))
    got = sp.expand(lhs - rhs)
    ok_all = bool(acc)
    detail = ''
    for st in acc:
        inv = {}
        for nm, v in st.env.items():
            if isinstance(v, tuple) and v[0] == 'node' and nm in ('a', 'b', 'c', 'd'):
                inv[v[1]] = nm
        changed = {c for c in st.cells if st.cells[c] != st.orig.get(c)}
        removed = [c for c in changed if st.orig[c][0] == 'VAL' and st.cells[c] == SK.EMPTY]
        added = [c for c in changed if st.orig[c] == SK.EMPTY and st.cells[c][0] == 'VAL']
        if und:
            removed = sorted({tuple(sorted(c)) for c in removed})
            added = sorted({tuple(sorted(c)) for c in added})
        try:
            old = sum(sym_cell(Dn, inv[c[0]], inv[c[1]]) * sym_cell(M, inv[c[0]], inv[c[1]]) for c in removed)
            new = 0
            for c in added:
                o = st.cells[c][1] if not und else st.cells[c][1]
                new += sym_cell(Dn, inv[c[0]], inv[c[1]]) * sym_cell(M, inv[o[0]], inv[o[1]])
        except KeyError:
            ok_all = False
            detail = 'cells of the swap are not all named by a, b, c, d'
            break
        want = sp.expand(old - new)
        if sp.simplify(got - want) != 0:
            ok_all = False
            detail = 'guard compares %s but the swap removes cost %s and creates cost %s' % (got, old, new)
            break
    rep.ob('B10.guard-is-old-cost-ge-new-cost', f, cand, ok_all and not strict,
           detail or ('comparison must be non-strict old >= new' if strict else 'no accepting path'))


# ------------------------------------------------------------------ mask
def _mask(prog, rep, f):
    k = SK.locate_kernel(prog, f, True)
    mask = f.params[1] if len(f.params) > 1 else 'B'
    it = SK.Interp(prog, k, mask=mask)
    states = it.run_attempt()
    acc = [s for s in states if s.accepted]
    rep.ob('B4.mask-accept-path', f, '%d accepting paths' % len(acc), bool(acc), 'no accepting path', line=k.attempt_loop.lineno)
    for i, st in enumerate(acc):
        changed = {c for c in st.cells if st.cells[c] != st.orig.get(c)}
        added = [c for c in changed if st.cells[c][0] == 'VAL' and st.orig[c] != st.cells[c] and st.orig[c][0] != 'VAL']
        tested = {g[1] for g in st.guards if g[0] == 'mask-zero'}
        missing = sorted(c for c in added if c not in tested)
        rep.ob('B4.mask-tested-on-created-cells', f, 'path %d: creates %s' % (i + 1, sorted({tuple(sorted(c)) for c in added})), not missing,
               'cells %s become nonzero but the mask %s was not tested zero there by a dominating guard' % (missing, mask), line=k.attempt_loop.lineno)


def variants(root):
    from ..selftest import Variant as V
    R = 'bct/algorithms/reference.py'
    out = []

    def B(name, fn, old, new, expect, **kw):
        out.append(V('%s: %s' % (fn, name), 'break', R, old, new, expect, fn, scope='def %s(' % fn, **kw))

    def N(name, fn, old, new, **kw):
        out.append(V('%s: neutral %s' % (fn, name), 'neutral', R, old, new, scope='def %s(' % fn, **kw))
    for fn in ['randmio_und_connected', 'latmio_und_connected']:
        B('asymmetry check removed', fn, '    if not np.allclose(R, R.T):\n        raise BCTParamError("Input must be undirected")\n', '', 'D.precondition-asym')
        B('connectedness check removed', fn, '    if number_of_components(R) > 1:\n        raise BCTParamError("Input is not connected")\n', '', 'D.precondition-disc')
        B('connectedness check inverted', fn, 'if number_of_components(R) > 1:', 'if number_of_components(R) < 1:', 'D.precondition-disc')
        B('veto flag ignored', fn, 'if rewire:', 'if True:', 'B11.')
        B('veto not recorded', fn, 'rewire = False', 'rewire = True', 'B11.')
        B('flag not reset per attempt', fn, '            rewire = True\n', '', 'B11.', also=[(R, '    eff = 0\n', '    eff = 0\n    rewire = True\n', 1)]) if False else None
        B('search skipped when a-d linked', fn, 'if not (R[a, c] or R[b, d]):', 'if not (R[a, c] or R[b, d] or R[a, b]):', 'B11.search-skipped')
        B('stalled test on any frontier', fn, 'if not np.all(np.any(P, axis=1)):', 'if not np.any(np.any(P, axis=1)):', 'B11.veto-iff')
        B('removed edge a-b kept in search', fn, 'P[0, b] = 0\n', 'pass\n', 'B11.search-starts')
        ind = ' ' * (28 if fn.startswith('latmio') else 24)
        B('third exit from search', fn, '\n' + ind + 'PN += P\n', '\n' + ind + 'PN += P\n' + ind + 'if PN.all():\n' + ind + '    break\n', 'B11.search-has-two-exits')
        N('allclose spelling', fn, 'if number_of_components(R) > 1:', 'if number_of_components(R) != 1:')
        B('visited mask blocks only the own start node', fn, 'PN[:, d] = 1\n' + ind[:-4] + 'PN[:, a] = 1\n', 'PN[0, a] = 1\n' + ind[:-4] + 'PN[1, d] = 1\n', 'B11.removed-edge')
        B('visited mask misses d', fn, 'PN[:, d] = 1\n', 'pass\n', 'B11.removed-edge')
        N('visited mask set in one statement', fn, 'PN[:, d] = 1\n' + ind[:-4] + 'PN[:, a] = 1\n', 'PN[:, (a, d)] = 1\n')
        B('second frontier expands the first one', fn, 'P[1, :] = np.any(R[P[1, :] != 0, :], axis=0)', 'P[1, :] = np.any(R[P[0, :] != 0, :], axis=0)', 'B11.frontier-1')
        B('frontier expands along columns', fn, 'P[0, :] = np.any(R[P[0, :] != 0, :], axis=0)', 'P[0, :] = np.any(R[:, P[0, :] != 0], axis=1)', 'B11.frontier-0') if False else None
        B('visited mask never grows', fn, '\n' + ind + 'PN += P\n', '\n' + ind + 'pass\n', 'B11.visited-mask')
        N('visited mask grows by plain addition', fn, '\n' + ind + 'PN += P\n', '\n' + ind + 'PN = PN + P\n')
    for fn in ['randmio_dir_connected', 'latmio_dir_connected']:
        B('veto flag ignored', fn, 'if rewire:', 'if True:', 'B11.')
        B('veto dropped', fn, 'rewire = False\n', 'pass\n', 'B11.')
        B('shortcut needs one side only', fn, 'np.any((R[a, c], R[d, b], R[d, c])) and\n', 'np.any((R[a, c], R[d, b], R[d, c])) or\n', 'B11.search-skipped')
        B('search seeds not swapped', fn, 'P[0, d] = 1\n', 'P[0, d] = 0\n', 'B11.search-starts')
        B('visited mask does not block the start node', fn, 'PN[1, c] = 1\n', 'pass\n', 'B11.removed-edge')
        B('second frontier expands the first one', fn, 'P[1, :] = np.any(R[P[1, :] != 0, :], axis=0)', 'P[1, :] = np.any(R[P[0, :] != 0, :], axis=0)', 'B11.frontier-1')
        B('visited mask never grows', fn, 'PN += P\n', 'pass\n', 'B11.visited-mask')
        B('search reads the frontier, not the matrix', fn, 'P[0, :] = np.any(R[P[0, :] != 0, :], axis=0)', 'P[0, :] = np.any(PN[P[0, :] != 0, :], axis=0)', 'B11.') if False else None
    for fn in ['latmio_und', 'latmio_dir', 'latmio_und_connected', 'latmio_dir_connected']:
        g = 'D[a, b] * R[a, b] + D[c, d] * R[c, d] >= D[a, d] * R[a, b] + D[c, b] * R[c, d]'
        B('lattice guard reversed', fn, g, 'D[a, b] * R[a, b] + D[c, d] * R[c, d] <= D[a, d] * R[a, b] + D[c, b] * R[c, d]', 'B10.guard-is')
        B('lattice guard wrong weight', fn, g, 'D[a, b] * R[a, b] + D[c, d] * R[c, d] >= D[a, d] * R[c, d] + D[c, b] * R[a, b]', 'B10.guard-is')
        B('lattice guard wrong cell', fn, g, 'D[a, b] * R[a, b] + D[c, d] * R[c, d] >= D[a, c] * R[a, b] + D[c, b] * R[c, d]', 'B10.guard-is')
        B('lattice guard removed', fn, 'if (' + g + '):', 'if True:', 'B10.lattice-guard-present')
        N('lattice guard rearranged', fn, g, 'D[a, d] * R[a, b] + D[c, b] * R[c, d] <= D[c, d] * R[c, d] + D[a, b] * R[a, b]')
        N('lattice guard as difference', fn, g, 'D[a, b] * R[a, b] - D[a, d] * R[a, b] >= D[c, b] * R[c, d] - D[c, d] * R[c, d]')
    fn = 'randomize_graph_partial_und'
    B('mask tested on one cell only', fn, 'A[a, d] or A[c, b] or B[a, d] or B[c, b]', 'A[a, d] or A[c, b] or B[a, d]', 'B4.mask')
    B('mask tested on removed cells', fn, 'A[a, d] or A[c, b] or B[a, d] or B[c, b]', 'A[a, d] or A[c, b] or B[a, b] or B[c, d]', 'B4.mask')
    B('mask test removed', fn, 'A[a, d] or A[c, b] or B[a, d] or B[c, b]', 'A[a, d] or A[c, b]', 'B4.mask')
    N('mask mirrored cells', fn, 'A[a, d] or A[c, b] or B[a, d] or B[c, b]', 'A[a, d] or A[c, b] or B[d, a] or B[b, c]')
    return [v for v in out if v is not None]
