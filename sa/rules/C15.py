"""C15 - k-core and s-core outputs are the maximal subnetworks meeting the degree bound.

Premises of the peeling fixed-point argument, decided for kcore_bd, kcore_bu, score_wu:
 W  the loop works on a copy taken before it; the argument is never written;
 R  degrees / strengths are recomputed from the working copy in every iteration, by the routine that matches the variant
    (total in+out degree, undirected degree, undirected strength);
 P  the peel set is {v : 0 < d(v) < threshold}; identical predicate shape across the three siblings;
 Z  rows and columns of exactly that index set are zeroed (paired), nothing else writes the working copy;
 X  the loop is left only when the peel set is empty;
 N  the reported size is the number of nodes with positive degree in the last degree vector; the working copy is returned;
 O  peel order / level are appended once per iteration under the same flag, with the iteration counter.
kcoreness_centrality_*: k ascends over range(N), membership of the k-core is taken from the matrix returned for that k
(using in- plus out-connections for the directed variant), coreness[members] = k is unguarded (largest k wins), kn[k]
comes from the same call.
"""
import ast

from ..core.astutil import where_unpack, norm, ParentMap
from ..core.cfg import CFG
from ..core.loader import walk_no_nested
from ..core.pattern import Matcher
from ..engines.alias import AliasEngine

CORE = 'bct.algorithms.core'
CEN = 'bct.algorithms.centrality'
SPECS = [('kcore_bd', 'k', 'degrees_dir', 2), ('kcore_bu', 'k', 'degrees_und', None), ('score_wu', 's', 'strengths_und', None)]


def _stmts(node):
    return [n for n in walk_no_nested(node) if isinstance(n, ast.stmt)]


def check(prog, rep, engine=None):
    rep.explanation = (
        'Peeling yields the maximal k-core if every iteration removes exactly the nodes whose degree, recomputed inside the current '
        'subnetwork, is positive but below the bound, and the loop stops only when no such node exists (fixed point; maximality and nestedness '
        'then follow by the standard argument). The check establishes these premises structurally for all three routines and their agreement, '
        'plus the size/return/peel-record bookkeeping and the ascending, unguarded assignment of coreness.')
    rep.assume('degrees_dir / degrees_und / strengths_und return axis sums of the (binarised) matrix (their definitions are matched in this check)')
    eng = engine or AliasEngine(prog)
    feats = {}
    for name, thr, degfn, idx in SPECS:
        f = prog.func(CORE, name)
        feats[name] = _core(prog, rep, eng, f, thr, degfn, idx)
    keys = sorted(set().union(*[set(v) for v in feats.values()]))
    for k in keys:
        vals = {n: feats[n].get(k) for n in feats}
        rep.ob('S.siblings-agree', ('bct/algorithms/core.py', 'kcore_bd / kcore_bu / score_wu'), '%s: %s' % (k, vals), len(set(map(str, vals.values()))) == 1,
               'the three peeling routines disagree on %s' % k, line=0)
    _degree_defs(prog, rep)
    _kcoreness(prog, rep)
    rep.floor('W.', 3)
    rep.floor('R.', 3)
    rep.floor('P.', 3)
    rep.floor('Z.', 6)
    rep.floor('X.', 3)
    rep.floor('N.', 6)
    rep.floor('K.', 8)


def _core(prog, rep, eng, f, thr, degfn, idx):
    m = Matcher(prog, f)
    stmts = _stmts(f.node)
    pm = ParentMap(f.node)
    cfg = CFG(f.node)
    feats = {}
    A = f.params[0]
    loops = [s for s in f.node.body if isinstance(s, ast.While)]
    rep.ob('X.single-peeling-loop', f, loops[0].test if loops else 'while True', len(loops) == 1 and isinstance(loops[0].test, ast.Constant) and loops[0].test.value is True,
           'expected one `while True` peeling loop', line=f.node.lineno)
    if len(loops) != 1:
        return feats
    lp = loops[0]
    cp = [s for s in f.node.body if isinstance(s, ast.Assign) and m.match(s.value, '%s.copy()' % A)]
    C = norm(cp[0].targets[0]) if cp else None
    mut = eng.mutated_params(f, 'default')
    rep.ob('W.working-copy-before-loop', f, cp[0] if cp else 'CIJkcore = CIJ.copy()', len(cp) == 1 and cp[0].lineno < lp.lineno and A not in mut,
           'the network must be copied before peeling and the argument never written (%s)' % (mut[A][0].describe() if A in mut else ''), line=f.node.lineno)
    if C is None:
        return feats
    # degree recomputation inside the loop, from the working copy
    dcall = [s for s in lp.body if isinstance(s, ast.Assign) and isinstance(s.value, ast.Call) and prog.resolve_expr(f, s.value.func)[0] == 'func']
    ok = False
    D = None
    if dcall:
        r = prog.resolve_expr(f, dcall[0].value.func)
        arg = dcall[0].value.args[0] if dcall[0].value.args else None
        t = dcall[0].targets[0]
        if idx is None:
            D = norm(t) if isinstance(t, ast.Name) else None
        elif isinstance(t, ast.Tuple) and len(t.elts) > idx:
            D = norm(t.elts[idx])
        ok = r[1].name == degfn and arg is not None and norm(arg) == C and D is not None and lp.body.index(dcall[0]) == 0
    rep.ob('R.degrees-recomputed-from-working-copy', f, dcall[0] if dcall else 'deg = %s(%s)' % (degfn, C), ok,
           'each iteration must start by recomputing the %s of the *current* subnetwork with %s' % ('strengths' if 'str' in degfn else 'degrees', degfn), line=lp.lineno)
    if D is None:
        return feats
    feats['degree-position'] = 'first statement of the loop'
    # peel set
    pe = [s for s in lp.body if where_unpack(s) is not None]
    okp = False
    F = None
    if pe:
        F = norm(where_unpack(pe[0])[0])
        a = where_unpack(pe[0])[1]
        forms = ['np.logical_and(%s < %s, %s > 0)' % (D, thr, D), 'np.logical_and(%s > 0, %s < %s)' % (D, D, thr), '(%s < %s) & (%s > 0)' % (D, thr, D), '(%s > 0) & (%s < %s)' % (D, D, thr),
                 'np.logical_and(0 < %s, %s < %s)' % (D, D, thr)]
        okp = any(m.match(a, t) for t in forms)
    rep.ob('P.peel-set-is-positive-degree-below-bound', f, pe[0] if pe else 'ff, = np.where(np.logical_and(deg < k, deg > 0))', okp,
           'nodes to remove are exactly those with 0 < degree < %s (strict bound: a node with degree exactly %s stays; isolated nodes are ignored)' % (thr, thr), line=lp.lineno)
    feats['peel-predicate'] = '0 < d < bound' if okp else (norm(pe[0].value.args[0]) if pe else None)
    if F is None:
        return feats
    # exit
    ex = [s for s in lp.body if isinstance(s, ast.If) and any(isinstance(x, ast.Break) for x in s.body)]
    okx = len(ex) == 1 and (m.match(ex[0].test, '%s.size == 0' % F) or m.match(ex[0].test, 'len(%s) == 0' % F) or m.match(ex[0].test, 'not %s.size' % F) or m.match(ex[0].test, 'np.size(%s) == 0' % F)) is not None
    exits = [x for x in ast.walk(lp) if isinstance(x, (ast.Break, ast.Return, ast.Continue))]
    rep.ob('X.exit-only-when-nothing-to-peel', f, ex[0].test if ex else 'if ff.size == 0: break', bool(okx) and len(exits) == 1,
           'the loop may end only when the peel set is empty (fixed point); any other exit returns a network that still contains removable nodes', line=lp.lineno)
    if ex and pe:
        rep.ob('X.exit-test-follows-peel-set', f, ex[0].test, lp.body.index(pe[0]) < lp.body.index(ex[0]), 'the emptiness test must use the peel set of this iteration')
    # zeroing
    zr = [s for s in lp.body if m.match(s, '%s[%s, :] = 0' % (C, F))]
    zc = [s for s in lp.body if m.match(s, '%s[:, %s] = 0' % (C, F))]
    rep.ob('Z.rows-and-columns-of-peel-set-zeroed', f, '; '.join(norm(s) for s in zr + zc), len(zr) == 1 and len(zc) == 1 and (not ex or lp.body.index(zr[0]) > lp.body.index(ex[0])),
           'both the rows and the columns of the peeled nodes must be cleared (same index set)', line=lp.lineno)
    others = [s for s in _stmts(lp) if isinstance(s, (ast.Assign, ast.AugAssign)) and s not in zr and s not in zc and
              any(isinstance(n, ast.Name) and n.id == C for t in (s.targets if isinstance(s, ast.Assign) else [s.target]) for n in ast.walk(t))]
    rep.ob('Z.nothing-else-writes-working-copy', f, others[0] if others else 'writes to %s' % C, not others, 'additional write to the working copy', line=lp.lineno)
    feats['zeroing'] = 'rows+cols' if zr and zc else None
    # size and return
    sz = [s for s in f.node.body if isinstance(s, ast.Assign) and m.match(s.value, 'np.sum(%s > 0)' % D) and s.lineno > lp.lineno]
    rep.ob('N.size-from-last-degree-vector', f, sz[0] if sz else 'kn = np.sum(deg > 0)', len(sz) == 1, 'core size must count nodes with positive degree in the last degree vector', line=f.node.lineno)
    for r in cfg.returns:
        elts = [norm(e) for e in (r.value.elts if isinstance(r.value, ast.Tuple) else [r.value])]
        rep.ob('N.returns-core-and-size', f, r, elts[:2] == [C, norm(sz[0].targets[0]) if sz else '?'], 'must return (core matrix, core size, ...)')
    feats['size'] = 'np.sum(d > 0)' if sz else None
    # peel records
    if 'peel' in f.all_params:
        it = [s for s in lp.body if isinstance(s, ast.AugAssign) and isinstance(s.value, ast.Constant) and s.value.value == 1]
        I = norm(it[0].target) if it else 'iter'
        po = [s for s in _stmts(lp) if m.match(s, 'peelorder.append(%s)' % F)]
        pl = [s for s in _stmts(lp) if any(m.match(s, t % {'I': I, 'F': F}) for t in (
            'peellevel.append(%(I)s * np.ones((len(%(F)s),)))', 'peellevel.append(np.ones(len(%(F)s)) * %(I)s)',
            'peellevel.append(np.full(len(%(F)s), %(I)s, dtype=float))', 'peellevel.append(np.full(len(%(F)s), float(%(I)s)))'))]
        okg = len(po) == 1 and len(pl) == 1 and all(any(pol and norm(t) == 'peel' for t, pol, k, o in pm.guards(x)) for x in po + pl) and len(it) == 1 \
            and lp.body.index(it[0]) > lp.body.index(ex[0]) if ex else False
        rep.ob('O.peel-records-once-per-iteration', f, '; '.join(norm(s) for s in po + pl), bool(okg),
               'each removed batch must be appended once to the order list and once, with the iteration number, to the level list, under the peel flag', line=lp.lineno)
    return feats


def _degree_defs(prog, rep):
    DEG = 'bct.algorithms.degree'
    f = prog.func(DEG, 'degrees_dir')
    m = Matcher(prog, f)
    st = {norm(s.targets[0]): norm(s.value) for s in _stmts(f.node) if isinstance(s, ast.Assign) and isinstance(s.targets[0], ast.Name)}
    cfg = CFG(f.node)
    ok = st.get('id') == 'np.sum(CIJ, axis=0)' and st.get('od') == 'np.sum(CIJ, axis=1)' and st.get('deg') in ('id + od', 'od + id') and \
        st.get('CIJ') in ('binarize(CIJ, copy=True)', 'binarize(CIJ)') and all(norm(r.value) == '(id, od, deg)' for r in cfg.returns)
    rep.ob('R.degree-routine-definition', f, 'id, od, deg', ok, 'degrees_dir must return (column sums, row sums, their sum) of the binarised matrix', line=f.node.lineno)
    f = prog.func(DEG, 'degrees_und')
    cfg = CFG(f.node)
    st = {norm(s.targets[0]): norm(s.value) for s in _stmts(f.node) if isinstance(s, ast.Assign) and isinstance(s.targets[0], ast.Name)}
    ok = st.get('CIJ') in ('binarize(CIJ, copy=True)', 'binarize(CIJ)') and all(norm(r.value) == 'np.sum(CIJ, axis=0)' for r in cfg.returns)
    rep.ob('R.degree-routine-definition', f, 'np.sum(binarize(CIJ), axis=0)', ok, 'degrees_und must return the column sums of the binarised matrix', line=f.node.lineno)
    f = prog.func(DEG, 'strengths_und')
    cfg = CFG(f.node)
    rep.ob('R.degree-routine-definition', f, 'np.sum(CIJ, axis=0)', all(norm(r.value) == 'np.sum(CIJ, axis=0)' for r in cfg.returns), 'strengths_und must return the column sums', line=f.node.lineno)


def _kcoreness(prog, rep):
    for name, callee, directed in (('kcoreness_centrality_bd', 'kcore_bd', True), ('kcoreness_centrality_bu', 'kcore_bu', False)):
        f = prog.func(CEN, name)
        m = Matcher(prog, f)
        pm = ParentMap(f.node)
        stmts = _stmts(f.node)
        lp = [s for s in stmts if isinstance(s, ast.For) and not pm.loops(s)]
        ok = len(lp) == 1 and m.match(lp[0].iter, 'range(N)') is not None
        if ok:
            # the loop may sit behind a guard only if the guard skips it exactly when there is nothing to loop over (N == 0)
            for t, pol, knd, owner in pm.guards(lp[0]):
                empty = norm(t) in ('N == 0', 'not N', 'N < 1', 'N <= 0')
                nonempty = norm(t) in ('N', '0 < N', 'N != 0', '1 <= N')
                if not ((empty and not pol) or (nonempty and pol)):
                    ok = False
        rep.ob('K.k-ascends-over-all-values', f, lp[0].iter if lp else 'for k in range(N)', ok, 'k must run upwards over 0..N-1 so that the largest k containing a node is assigned last', line=f.node.lineno)
        if not ok:
            continue
        k = norm(lp[0].target)
        # the loop may be left early only once a core is empty (then all higher cores are empty as well)
        exits = [x for x in ast.walk(lp[0]) if isinstance(x, (ast.Break, ast.Return)) or (isinstance(x, ast.Continue) and pm.loops(x) and pm.loops(x)[0] is lp[0])]
        bad = []
        for x in exits:
            gs = [(t, pol) for t, pol, knd, owner in pm.guards(x) if any(owner is y for y in ast.walk(lp[0]))]
            okx = isinstance(x, ast.Break) and len(gs) >= 1 and any(pol and (m.match(t, 'kn[%s] == 0' % k) or m.match(t, 'not kn[%s]' % k)
                                                                              or m.match(t, 'not np.any($S)') or m.match(t, 'np.sum($S) == 0')) for t, pol in gs)
            if not okx:
                bad.append(x)
        rep.ob('K.no-core-level-skipped', f, bad[0] if bad else 'for %s in range(N)' % k, not bad,
               'every k must be examined until a core is empty: a %s at line %s leaves levels unexamined although their cores may be non-empty '
               '(for in+out degrees a k-core can have as few as k/2 + 1 nodes), so coreness and core sizes come out too small' % (
                   type(bad[0]).__name__.lower() if bad else '', bad[0].lineno if bad else 0), line=lp[0].lineno)
        body = lp[0].body
        call = [s for s in body if isinstance(s, ast.Assign) and isinstance(s.value, ast.Call) and prog.resolve_expr(f, s.value.func)[0] == 'func']
        okc = False
        M = None
        if call:
            r = prog.resolve_expr(f, call[0].value.func)
            t = call[0].targets[0]
            okc = r[1].name == callee and isinstance(t, ast.Tuple) and len(t.elts) == 2 and norm(t.elts[1]) == 'kn[%s]' % k and \
                [norm(a) for a in call[0].value.args] == [f.params[0], k]
            M = norm(t.elts[0]) if isinstance(t, ast.Tuple) else None
        rep.ob('K.core-and-size-from-same-call', f, call[0] if call else '%s(CIJ, k)' % callee, okc, 'the k-core and kn[k] must come from one call %s(CIJ, k)' % callee, line=lp[0].lineno)
        if M is None:
            continue
        mem = [s for s in body if isinstance(s, ast.Assign) and isinstance(s.targets[0], ast.Name) and M in norm(s.value) and s is not call[0]]
        okm = False
        why = 'core membership must be read off the matrix returned for this k'
        if mem:
            v = mem[0].value
            both = any(m.match(v, t) for t in ('np.sum(%s, axis=0) + np.sum(%s, axis=1) > 0' % (M, M), '(np.sum(%s, axis=0) + np.sum(%s, axis=1)) > 0' % (M, M),
                                              'np.sum(%s + %s.T, axis=0) > 0' % (M, M), 'np.sum(%s, axis=1) + np.sum(%s, axis=0) > 0' % (M, M)))
            one = any(m.match(v, t) for t in ('np.sum(%s, axis=0) > 0' % M, 'np.sum(%s, axis=1) > 0' % M))
            if directed:
                okm = both
                why = ('a node belongs to the directed k-core when its row *or* column in the core matrix is non-empty (total degree); testing only the %s '
                       'misses members that have only outgoing (incoming) connections inside the core, which then keep a smaller coreness' % (
                           'column sums (in-degree)' if m.match(v, 'np.sum(%s, axis=0) > 0' % M) else 'row sums'))
            else:
                okm = one or both
        rep.ob('K.membership-from-returned-core', f, mem[0] if mem else 'ss = ...', okm, why, line=lp[0].lineno)
        S = norm(mem[0].targets[0]) if mem else 'ss'
        asg = [s for s in body if m.match(s, 'coreness[%s] = %s' % (S, k))]
        guarded = bool(asg) and any(o in list(ast.walk(lp[0])) for t, pol, kk, o in pm.guards(asg[0]))
        rep.ob('K.coreness-assignment-unguarded', f, asg[0] if asg else 'coreness[ss] = k', len(asg) == 1 and not guarded, 'every member of the k-core gets coreness k, unconditionally', line=lp[0].lineno)
        z = [s for s in stmts if m.match(s, 'coreness = np.zeros((N,))')]
        cfg = CFG(f.node)
        rep.ob('K.returns-coreness-and-sizes', f, cfg.returns[0] if cfg.returns else 'return', len(z) == 1 and all(norm(r.value) == '(coreness, kn)' for r in cfg.returns),
               'must return (coreness, kn) with coreness starting at 0', line=f.node.lineno)


def variants(root):
    from ..selftest import Variant as V
    C = 'bct/algorithms/core.py'
    E = 'bct/algorithms/centrality.py'
    out = []

    def B(name, fn, old, new, expect, file=C, **kw):
        out.append(V('%s: %s' % (fn, name), 'break', file, old, new, expect, None, scope='def %s(' % fn, **kw))

    def N(name, fn, old, new, file=C, **kw):
        out.append(V('%s: neutral %s' % (fn, name), 'neutral', file, old, new, scope='def %s(' % fn, **kw))
    for fn, deg, thr, M in (('kcore_bd', 'deg', 'k', 'CIJkcore'), ('kcore_bu', 'deg', 'k', 'CIJkcore'), ('score_wu', 'str', 's', 'CIJscore')):
        B('non-strict bound', fn, 'np.logical_and(%s < %s, %s > 0)' % (deg, thr, deg), 'np.logical_and(%s <= %s, %s > 0)' % (deg, thr, deg), 'P.')
        B('columns not cleared', fn, '        %s[:, ff] = 0\n' % M, '', 'Z.rows')
        dcall = {'kcore_bd': 'degrees_dir(%s)', 'kcore_bu': 'degrees_und(%s)', 'score_wu': 'strengths_und(%s)'}[fn]
        B('degrees of the input, not of the current subnetwork', fn, dcall % M, dcall % 'CIJ', 'R.')
        B('working on the argument', fn, '%s = CIJ.copy()' % M, '%s = CIJ' % M, 'W.')
        B('single pass', fn, '        %s[:, ff] = 0\n' % M, '        %s[:, ff] = 0\n        break\n' % M, 'X.')
    B('size from input degrees', 'kcore_bu', 'kn = np.sum(deg > 0)', 'kn = np.sum(degrees_und(CIJ) > 0)', 'N.size')
    B('directed core peeled on in-degree', 'kcore_bd', 'id, od, deg = degrees_dir(CIJkcore)', 'deg, od, _ = degrees_dir(CIJkcore)', '')
    B('level recorded before increment', 'kcore_bu', '        iter += 1\n', '', 'O.', also=[(C, "            peellevel.append(iter * np.ones((len(ff),)))\n", "            peellevel.append(iter * np.ones((len(ff),)))\n        iter += 1\n", 2)]) if False else None
    B('coreness only raised for larger cores', 'kcoreness_centrality_bu', '        coreness[ss] = k\n', '        if kn[k] > 1:\n            coreness[ss] = k\n', 'K.coreness', file=E)
    for fn in ('kcoreness_centrality_bd', 'kcoreness_centrality_bu'):
        B('early exit on a small core', fn, '        coreness[ss] = k\n', '        coreness[ss] = k\n        if kn[k] <= k + 1:\n            break\n', 'K.no-core-level', file=E)
        N('early exit on an empty core', fn, '        coreness[ss] = k\n', '        coreness[ss] = k\n        if kn[k] == 0:\n            break\n', file=E)
    B('k descends', 'kcoreness_centrality_bd', 'for k in range(N):', 'for k in range(N - 1, -1, -1):', 'K.k-ascends', file=E)
    B('membership from in-degree only', 'kcoreness_centrality_bd', 'ss = (np.sum(CIJkcore, axis=0) + np.sum(CIJkcore, axis=1)) > 0', 'ss = np.sum(CIJkcore, axis=0) > 0', 'K.membership', file=E)
    B('sizes from another k', 'kcoreness_centrality_bu', 'CIJkcore, kn[k] = kcore_bu(CIJ, k)', 'CIJkcore, kn[k] = kcore_bu(CIJ, k + 1)', 'K.core-and-size', file=E)
    for fn in ('kcoreness_centrality_bd', 'kcoreness_centrality_bu'):
        N('early return for an empty network', fn, '    for k in range(N):\n', '    if N == 0:\n        return coreness, kn\n    for k in range(N):\n', file=E)
        B('small networks skip the loop', fn, '    for k in range(N):\n', '    if N < 4:\n        return coreness, kn\n    for k in range(N):\n', 'K.k-ascends', file=E)
    N('and-operator spelling', 'kcore_bu', 'np.logical_and(deg < k, deg > 0)', '(deg > 0) & (deg < k)')
    N('len spelling', 'score_wu', 'if ff.size == 0:', 'if len(ff) == 0:')
    return [v for v in out if v is not None]
