"""C17 - thresholding and weight conversion keep exactly the documented entries.

Decided structurally (DESIGN 5/C17): copy/identity typestate for both values of `copy`
(engine A), precondition and diagonal-clear dominance (CFG), the name `round` resolving to
teachers_round, the kept-count formula (engine G), symmetric-branch reconstruction in place,
element-wise mask shapes of binarize/normalize/invert/threshold_absolute, and the
weight_conversion dispatch table compared with its docstring.
"""
import ast
import re

from ..core.astutil import norm, ParentMap, conjuncts
from ..core.canon import Canon, parse_expr
from ..core.cfg import CFG, EXIT
from ..core.loader import walk_no_nested
from ..core.pattern import Matcher
from ..engines.alias import AliasEngine, FRESH

UTILS = ['threshold_absolute', 'threshold_proportional', 'binarize', 'normalize', 'invert', 'weight_conversion']


def _stmts(f):
    return [n for n in walk_no_nested(f.node) if isinstance(n, ast.stmt)]


def _returned_names(cfg):
    return [(r, r.value.id if isinstance(r.value, ast.Name) else None) for r in cfg.returns]


def check(prog, rep, engine=None):
    eng = engine or AliasEngine(prog)
    rep.explanation = (
        'Necessary structural conditions of the thresholding/conversion contracts, decided on every path from the source: '
        'with copy=True the argument is never written and the result is fresh; with copy=False every return value is the '
        'argument object itself and it is the object that was written; precondition raises dominate all effects; the diagonal '
        'clear dominates every return; `round` is teachers_round; the kept-count expression canonicalises to (n^2-n)p/ud; '
        'the symmetric branch zeroes one triangle, halves the count and rebuilds W+W.T by slice store; masks of the '
        'element-wise utilities have the documented form; weight_conversion dispatches as its docstring says. '
        'Ordering of ties and numerical values are not decided.')
    rep.assume('np.argsort / np.where / boolean masks behave as documented by NumPy')
    mod = 'bct.utils.other'
    fs = {n: prog.func(mod, n) for n in UTILS}

    # ---- copy / identity typestate -------------------------------------------------
    for n, f in fs.items():
        mut_d = eng.mutated_params(f, 'default')
        rep.ob('A.copy-true-arg-untouched', f, '%s(copy=True)' % n, 'W' not in mut_d,
               'with copy=True the argument W may be written: %s' % (mut_d['W'][0].describe() if 'W' in mut_d else ''),
               line=f.node.lineno)
        ret_d = eng.return_aliases(f, 'default')
        rep.ob('A.copy-true-result-fresh', f, '%s(copy=True) -> %s' % (n, sorted(ret_d)), 'W' not in ret_d,
               'with copy=True the returned array may share memory with the argument', line=f.node.lineno)
        ret_i = eng.return_aliases(f, 'inplace')
        rep.ob('A.copy-false-returns-arg', f, '%s(copy=False) -> %s' % (n, sorted(ret_i)), ret_i == {'W'},
               'with copy=False some path returns an object other than the argument (aliases: %s): the caller\'s array does '
               'not hold the result' % sorted(ret_i), line=f.node.lineno)
        mut_i = eng.mutated_params(f, 'inplace')
        rep.ob('A.copy-false-writes-arg', f, '%s(copy=False)' % n, 'W' in mut_i,
               'with copy=False nothing is written into the argument', line=f.node.lineno)
        # the flag is honoured through the `if copy: W = W.copy()` idiom or forwarded
        if n != 'weight_conversion':
            cfg = CFG(f.node)
            pm = ParentMap(f.node)
            m = Matcher(prog, f)
            copies = [s for s in _stmts(f) if m.match(s, 'W = W.copy()') or m.match(s, 'W = np.copy(W)') or m.match(s, 'W = np.array(W)')]
            okc = bool(copies) and all(any(pol and norm(t) == 'copy' for t, pol, k, o in pm.guards(c)) for c in copies)
            rep.ob('D.copy-guarded-by-flag', f, copies[0] if copies else n, okc,
                   'the copy must happen exactly under `if copy:`', line=(copies[0].lineno if copies else f.node.lineno))
            # returned name never rebound after the flag block (except the copy itself)
            for r, nm in _returned_names(cfg):
                rep.ob('D.returns-W', f, r, nm == 'W', 'returns %s rather than the working array W' % norm(r.value))

    # ---- threshold_absolute ---------------------------------------------------------
    f = fs['threshold_absolute']
    _diag_clear_dominates(prog, rep, f)
    m = Matcher(prog, f)
    hits = [s for s in _stmts(f) if m.match(s, 'W[W < thr] = 0') or m.match(s, 'W[thr > W] = 0')]
    rep.ob('D.mask-form', f, hits[0] if hits else 'W[W < thr] = 0', len(hits) == 1,
           'threshold_absolute must zero exactly the entries strictly below thr (W[W < thr] = 0)', line=f.node.lineno)
    _only_these_writes(rep, f, allowed=('W[W < thr] = 0', 'W[thr > W] = 0'), prog=prog)

    # ---- binarize / normalize / invert ----------------------------------------------
    f = fs['binarize']
    m = Matcher(prog, f)
    hits = [s for s in _stmts(f) if m.match(s, 'W[W != 0] = 1') or m.match(s, 'W[0 != W] = 1') or m.match(s, 'W[np.nonzero(W)] = 1') or m.match(s, 'W[np.where(W)] = 1')]
    rep.ob('D.mask-form', f, hits[0] if hits else 'W[W != 0] = 1', len(hits) == 1, 'binarize must map exactly the nonzero entries to 1', line=f.node.lineno)
    _only_these_writes(rep, f, allowed=('W[W != 0] = 1', 'W[0 != W] = 1', 'W[np.nonzero(W)] = 1', 'W[np.where(W)] = 1'), prog=prog)
    f = fs['normalize']
    m = Matcher(prog, f)
    hits = [s for s in _stmts(f) if m.match(s, 'W /= np.max(np.abs(W))') or m.match(s, 'W /= np.abs(W).max()') or m.match(s, 'W /= np.amax(np.abs(W))')]
    rep.ob('D.mask-form', f, hits[0] if hits else 'W /= np.max(np.abs(W))', len(hits) == 1,
           'normalize must divide in place by the largest magnitude max|W|', line=f.node.lineno)
    _only_these_writes(rep, f, allowed=('W /= np.max(np.abs(W))', 'W /= np.abs(W).max()', 'W /= np.amax(np.abs(W))'), prog=prog)
    f = fs['invert']
    m = Matcher(prog, f)
    ok = False
    st = None
    for s in _stmts(f):
        b = m.match(s, 'W[$E] = 1.0 / W[$E]') or m.match(s, 'W[$E] = 1 / W[$E]')
        if b:
            st = s
            e = b['E']
            if isinstance(e, ast.Name):
                defs = [d for d in _stmts(f) if isinstance(d, ast.Assign) and any(isinstance(t, ast.Name) and t.id == e.id for t in d.targets)]
                ok = len(defs) == 1 and (m.match(defs[0].value, 'np.where(W)') or m.match(defs[0].value, 'np.nonzero(W)') or m.match(defs[0].value, 'W != 0')) is not None
            else:
                ok = (m.match(e, 'np.where(W)') or m.match(e, 'np.nonzero(W)') or m.match(e, 'W != 0')) is not None
    rep.ob('D.mask-form', f, st if st is not None else 'W[E] = 1 / W[E]', ok,
           'invert must replace exactly the nonzero entries w by 1/w (index set = np.where(W))', line=f.node.lineno)
    _only_these_writes(rep, f, allowed=('W[$E] = 1.0 / W[$E]', 'W[$E] = 1 / W[$E]'), prog=prog)

    # ---- threshold_proportional -----------------------------------------------------
    _threshold_proportional(prog, rep, fs['threshold_proportional'])

    # ---- weight_conversion dispatch ---------------------------------------------------
    _weight_conversion(prog, rep, fs['weight_conversion'], fs)

    # teachers_round itself
    _teachers_round(prog, rep)
    rep.floor('A.', 24)
    rep.floor('D.', 25)
    rep.floor('G.', 2)


def _diag_clear_dominates(prog, rep, f):
    cfg = CFG(f.node)
    m = Matcher(prog, f)
    clears = [s for s in _stmts(f) if m.match(s, 'np.fill_diagonal(W, 0)') or m.match(s, 'W[np.diag_indices($_)] = 0')]
    for r in cfg.returns:
        ok = any(cfg.dominates(c, r) for c in clears)
        rep.ob('D.diag-clear-dominates-return', f, r, ok, 'a path returns without clearing the diagonal of W')
    # no later write can put something back on the diagonal except the symmetric rebuild W + W.T (diagonal 0+0)
    return clears


def _only_these_writes(rep, f, allowed, prog, also=()):
    """Besides the flag copy and the listed statements nothing writes or rebinds W."""
    m = Matcher(prog, f)
    for s in _stmts(f):
        writes_w = False
        if isinstance(s, ast.Assign):
            for t in s.targets:
                if (isinstance(t, ast.Name) and t.id == 'W') or (isinstance(t, ast.Subscript) and isinstance(t.value, ast.Name) and t.value.id == 'W'):
                    writes_w = True
        elif isinstance(s, ast.AugAssign):
            t = s.target
            if (isinstance(t, ast.Name) and t.id == 'W') or (isinstance(t, ast.Subscript) and isinstance(t.value, ast.Name) and t.value.id == 'W'):
                writes_w = True
        if not writes_w:
            continue
        if m.match(s, 'W = W.copy()') or m.match(s, 'W = np.copy(W)') or m.match(s, 'W = np.array(W)'):
            continue
        if any(m.match(s, a) for a in allowed) or any(s is a for a in also):
            continue
        if m.match(s, 'np.fill_diagonal(W, 0)'):
            continue
        rep.ob('D.no-other-write', f, s, False, 'unexpected additional write to W changes which entries are kept')
    rep.ob('D.no-other-write', f, 'writes to W in %s' % f.name, True, '', line=f.node.lineno)


def _local_defs(f, stmts):
    """name -> (value expression, defining statement) for locals of f assigned exactly once (tuple unpacking gives value[k])"""
    params = {a.arg for a in f.node.args.args + f.node.args.kwonlyargs}
    cnt, val = {}, {}

    def bump(n, by=2):
        cnt[n] = cnt.get(n, 0) + by
    for s in stmts:
        if isinstance(s, ast.Assign):
            for t in s.targets:
                if isinstance(t, ast.Name):
                    bump(t.id, 1)
                    val[t.id] = (s.value, s)
                elif isinstance(t, (ast.Tuple, ast.List)):
                    for k, e in enumerate(t.elts):
                        if isinstance(e, ast.Name):
                            bump(e.id, 1)
                            val[e.id] = (ast.Subscript(value=s.value, slice=ast.Constant(value=k), ctx=ast.Load()), s)
                        else:
                            for x in ast.walk(e):
                                if isinstance(x, ast.Name) and isinstance(x.ctx, ast.Store):
                                    bump(x.id)
        elif isinstance(s, (ast.AugAssign, ast.AnnAssign)) and isinstance(s.target, ast.Name):
            bump(s.target.id)
        elif isinstance(s, (ast.For, ast.With)):
            for x in ast.walk(s.target if isinstance(s, ast.For) else ast.Tuple(elts=[i.optional_vars for i in s.items if i.optional_vars is not None])):
                if isinstance(x, ast.Name):
                    bump(x.id)
    return {n: val[n] for n in val if cnt.get(n) == 1 and n not in params}


def _resolve(e, defs, used, depth=0):
    """e with single-definition locals replaced by their values (recursively); defining statements are added to `used`"""
    class R(ast.NodeTransformer):
        def visit_Name(self, n):
            if isinstance(n.ctx, ast.Load) and n.id in defs and depth < 12:
                v, at = defs[n.id]
                used.append(at)
                import copy as _c
                return _resolve(_c.deepcopy(v), defs, used, depth + 1)
            return n
    import copy as _c
    return ast.fix_missing_locations(R().visit(_c.deepcopy(e)))


def _chain(e):
    """base[s1][s2]... as (base, [s1, s2, ...]); an order array indexed by a slice inside a selector, X[I[a:b]], reads as X[I][a:b]"""
    sels = []
    while isinstance(e, ast.Subscript):
        sl = e.slice
        if isinstance(sl, ast.Subscript) and isinstance(sl.slice, ast.Slice) and (sl.slice.lower is not None or sl.slice.upper is not None) and _is_order(sl.value):
            sels[:0] = [sl.value, sl.slice]
        else:
            sels.insert(0, sl)
        e = e.value
    return e, sels


def _is_order(e):
    """e is a permutation produced by np.argsort (possibly reversed): indexing by it and then slicing commutes with slicing it first"""
    while isinstance(e, ast.Subscript) and isinstance(e.slice, ast.Slice):
        e = e.value
    return isinstance(e, ast.Call) and norm(e.func) in ('np.argsort', 'numpy.argsort')


def _ranked_cut(prog, rep, f, stmts, cfg, m, sym_if):
    """The statement W[rows[order][en:], cols[order][en:]] = 0 under any naming/splitting of its parts.  Returns (cut statement, en definition)."""
    defs = _local_defs(f, stmts)
    CAND = ('np.where(W)', 'np.nonzero(W)')
    found = []
    problems = {}
    for s in stmts:
        if not (isinstance(s, ast.Assign) and len(s.targets) == 1 and isinstance(s.targets[0], ast.Subscript) and norm(s.targets[0].value) == 'W'
                and isinstance(s.value, ast.Constant) and s.value.value == 0 and isinstance(s.targets[0].slice, ast.Tuple) and len(s.targets[0].slice.elts) == 2):
            continue
        used = []
        sides = [_chain(_resolve(e, defs, used)) for e in s.targets[0].slice.elts]
        if not all(len(sel) == 3 for b, sel in sides):
            continue
        found.append((s, sides, used))
    if len(found) != 1:
        for r_ in ('G.kept-count', 'D.candidates-are-links', 'D.rank-descending', 'D.zero-the-tail'):
            rep.ob(r_, f, 'W[ind[0][I][en:], ind[1][I][en:]] = 0', False,
                   'no single statement zeroes W at (rows[order][en:], cols[order][en:]) -- %d candidates' % len(found), line=f.node.lineno)
        return None, None
    s, sides, used = found[0]
    (b0, s0), (b1, s1) = sides
    # candidates: both coordinate arrays come from np.where(W), components 0 and 1 in this order
    okc = all(norm(b) in CAND for b in (b0, b1)) and norm(s0[0]) == '0' and norm(s1[0]) == '1'
    rep.ob('D.candidates-are-links', f, s, okc, 'candidate set must be the nonzero entries of W, rows from component 0 and columns from component 1 '
           '(found %s[%s] / %s[%s])' % (norm(b0), norm(s0[0]), norm(b1), norm(s1[0])))
    # where is np.where(W) evaluated?  after the symmetric triangle has been removed
    where_sites = [u for u in used + [s] if any(isinstance(x, ast.Call) and norm(x) in CAND for x in ast.walk(u))]
    if sym_if is not None:
        rep.ob('D.triangle-before-candidates', f, where_sites[0] if where_sites else s,
               bool(where_sites) and all(cfg.dominates(sym_if, u) and sym_if.lineno < u.lineno for u in where_sites),
               'candidates are collected before the symmetric triangle is removed')
    # the same order on both sides, descending by weight of the candidates
    o0, o1 = s0[1], s1[1]
    same = ast.dump(o0) == ast.dump(o1)
    desc = False
    key = None
    oc, osel = _chain(o0)
    if isinstance(oc, ast.Call) and norm(oc.func) in ('np.argsort', 'numpy.argsort') and len(oc.args) == 1 and not oc.keywords:
        a = oc.args[0]
        rev = len(osel) == 1 and isinstance(osel[0], ast.Slice) and osel[0].lower is None and osel[0].upper is None and osel[0].step is not None and norm(osel[0].step) == '-1'
        if rev and not isinstance(a, ast.UnaryOp):
            desc, key = True, a
        elif not osel and isinstance(a, ast.UnaryOp) and isinstance(a.op, ast.USub):
            desc, key = True, a.operand
    okk = False
    if key is not None and isinstance(key, ast.Subscript) and norm(key.value) == 'W':
        k = key.slice
        okk = norm(k) in CAND or (isinstance(k, ast.Tuple) and len(k.elts) == 2 and all(
            isinstance(e, ast.Subscript) and norm(e.value) in CAND and norm(e.slice) == str(i) for i, e in enumerate(k.elts)))
    rep.ob('D.rank-descending', f, s, same and desc and okk,
           'entries must be ranked by decreasing weight of the candidate entries, the same order for rows and columns (order: %s)' % norm(o0))
    # the tail from position en on, on both sides
    t0, t1 = s0[2], s1[2]
    tail = all(isinstance(t, ast.Slice) and t.lower is not None and t.upper is None and t.step is None for t in (t0, t1)) and ast.dump(t0) == ast.dump(t1)
    rep.ob('D.zero-the-tail', f, s, tail, 'exactly the entries ranked after position en must be zeroed (slices: %s / %s)' % (norm(s0[2]), norm(s1[2])))
    # kept count: en = int(round(X)) with X == (n^2 - n) p / ud, n = len(W), ud the halving flag
    en_def = None
    if tail:
        # find the (unresolved) count expression: the slice lower bound of the original statement, through its definitions
        raw = None
        for x in ast.walk(s.targets[0]):
            if isinstance(x, ast.Slice) and x.lower is not None and x.upper is None:
                raw = x.lower
        seen = 0
        while raw is not None and seen < 12:
            seen += 1
            if isinstance(raw, ast.Name) and raw.id in defs:
                en_def = defs[raw.id][1]
                raw = defs[raw.id][0]
                b = m.match(raw, 'int(round($X))') or m.match(raw, 'round($X)') or m.match(raw, 'int(teachers_round($X))') or m.match(raw, 'teachers_round($X)')
                if b:
                    break
            else:
                b = m.match(raw, 'int(round($X))') or m.match(raw, 'round($X)') or m.match(raw, 'int(teachers_round($X))') or m.match(raw, 'teachers_round($X)')
                break
        else:
            b = None
        if raw is None:
            # the lower bound sits in a temporary that was folded away: search the resolved slice
            b = None
        if not b:
            low = t0.lower
            b = m.match(low, 'int(round($X))') or m.match(low, 'round($X)') or m.match(low, 'int(teachers_round($X))') or m.match(low, 'teachers_round($X)')
        if not b:
            rep.ob('G.kept-count', f, s, False, 'number of kept entries is not round(...) of a formula (found %s)' % norm(t0.lower))
        else:
            X = b['X']
            names = {x.id for x in ast.walk(X) if isinstance(x, ast.Name)}
            nn = [n_ for n_ in names if n_ in defs and (m.match(defs[n_][0], 'len(W)') or m.match(defs[n_][0], 'W.shape[0]'))]
            uds = _halving_flag(f, stmts, m)
            ok = False
            why = 'kept count %s does not canonicalise to (n^2 - n)*p/ud' % norm(X)
            if len(nn) == 1 and uds is not None:
                c = Canon(prog, f)
                N, U = nn[0], uds
                ok = c.equal(X, parse_expr('(%s*%s - %s) * p / %s' % (N, N, N, U)))
            elif uds is None:
                why = 'no flag that is 2 for symmetric input and 1 otherwise divides the kept count'
            rep.ob('G.kept-count', f, en_def if en_def is not None else s, ok, why)
            rep.ob('D.n-is-len-W', f, 'n = len(W)', len(nn) == 1, 'n in the kept count must be the number of nodes of W', line=f.node.lineno)
    else:
        rep.ob('G.kept-count', f, s, False, 'number of kept entries cannot be read: the zeroed index is not a tail slice')
    return s, en_def


def _halving_flag(f, stmts, m):
    """name assigned 2 on the symmetric branch and 1 on the other"""
    for s in stmts:
        if isinstance(s, ast.If) and (m.match(s.test, 'np.allclose(W, W.T)') or m.match(s.test, 'np.all(W == W.T)') or m.match(s.test, '(W == W.T).all()')):
            t = {x.targets[0].id: norm(x.value) for x in s.body if isinstance(x, ast.Assign) and len(x.targets) == 1 and isinstance(x.targets[0], ast.Name)}
            e = {x.targets[0].id: norm(x.value) for x in s.orelse if isinstance(x, ast.Assign) and len(x.targets) == 1 and isinstance(x.targets[0], ast.Name)}
            for n_ in t:
                if t[n_] == '2' and e.get(n_) == '1':
                    return n_
    return None


def _threshold_proportional(prog, rep, f):
    cfg = CFG(f.node)
    pm = ParentMap(f.node)
    m = Matcher(prog, f)
    stmts = _stmts(f)
    # 1. `round` is teachers_round
    r = prog.resolve_name(f, 'round')
    rep.ob('D.round-is-teachers-round', f, 'round -> %s' % (r[1].name if r[0] == 'func' else r[1]),
           r[0] == 'func' and r[1].name == 'teachers_round',
           'the name `round` resolves to %s: builtin round() uses banker\'s rounding, so p*count on .5 keeps one connection fewer' % (r,),
           line=f.node.lineno)
    # 2. range precondition raises first
    raises = [s for s in stmts if isinstance(s, ast.Raise)]
    pre = None
    for s in raises:
        g = pm.guards(s)
        if g:
            atoms = {norm(a) for t, pol, k, o in g if pol for a in _disj(t)}
            if atoms & {'p > 1', '1 < p'} and atoms & {'p < 0', '0 > p'}:
                pre = g[-1][3]
    rep.ob('D.range-precondition', f, pre.test if pre is not None else 'if p > 1 or p < 0: raise', pre is not None,
           'no raise guarded by (p > 1 or p < 0)', line=f.node.lineno)
    if pre is not None:
        first_effects = [s for s in stmts if (isinstance(s, (ast.Assign, ast.AugAssign)) and 'W' in {x.id for t in (s.targets if isinstance(s, ast.Assign) else [s.target]) for x in ast.walk(t) if isinstance(x, ast.Name)})
                         or (isinstance(s, ast.Expr) and m.match(s, 'np.fill_diagonal(W, 0)'))]
        ok = all(cfg.dominates(pre, s) for s in first_effects)
        rep.ob('D.precondition-dominates-effects', f, pre.test, ok, 'some write to W can happen before p is validated')
    # 3. diagonal clear dominates returns
    _diag_clear_dominates(prog, rep, f)
    # 4. symmetric branch
    sym_if = None
    for s in stmts:
        if isinstance(s, ast.If) and (m.match(s.test, 'np.allclose(W, W.T)') or m.match(s.test, 'np.all(W == W.T)') or m.match(s.test, '(W == W.T).all()')):
            sym_if = s
    rep.ob('D.sym-branch', f, sym_if.test if sym_if is not None else 'if np.allclose(W, W.T)', sym_if is not None,
           'no branch on symmetry of W', line=f.node.lineno)
    ud_true = ud_false = None
    tri = None
    if sym_if is not None:
        for s in sym_if.body:
            b = m.match(s, 'ud = $V')
            if b:
                ud_true = b['V']
            if m.match(s, 'W[np.tril_indices(n)] = 0') or m.match(s, 'W[np.triu_indices(n)] = 0') or m.match(s, 'W[np.tril_indices(len(W))] = 0'):
                tri = s
        for s in sym_if.orelse:
            b = m.match(s, 'ud = $V')
            if b:
                ud_false = b['V']
        rep.ob('D.sym-zero-triangle', f, tri if tri is not None else 'W[np.tril_indices(n)] = 0', tri is not None,
               'symmetric input: one triangle (including diagonal) must be zeroed so each connection is ranked once')
        okud = ud_true is not None and ud_false is not None and norm(ud_true) == '2' and norm(ud_false) == '1'
        rep.ob('D.sym-halves-count', f, 'ud = %s / ud = %s' % (norm(ud_true) if ud_true is not None else '?', norm(ud_false) if ud_false is not None else '?'),
               okud, 'ud must be 2 on the symmetric branch and 1 otherwise (an undirected connection is two entries)', line=sym_if.lineno)
        # diag clear before the symmetry test is not required; the triangle zeroing precedes np.where
    # 5./6. kept-count formula and ranking, read from the statement that zeroes the tail.  Local names are
    #        resolved through their single definitions, so the rule does not depend on how the index arrays,
    #        the order and the count are named or split into temporaries.
    cut, en_def = _ranked_cut(prog, rep, f, stmts, cfg, m, sym_if if tri is not None else None)
    # 7. symmetric rebuild by in-place slice store
    reb = None
    for s in stmts:
        if m.match(s, 'W[:, :] = W + W.T') or m.match(s, 'W[...] = W + W.T') or m.match(s, 'W[:] = W + W.T') or m.match(s, 'W += W.T'):
            reb = s
    okr = False
    if reb is not None:
        g = pm.guards(reb)
        okr = any(pol and norm(t) in ('ud == 2', '2 == ud') for t, pol, k, o in g) or (sym_if is not None and any(o is sym_if and pol for t, pol, k, o in g))
    rep.ob('D.sym-rebuild-in-place', f, reb if reb is not None else 'W[:, :] = W + W.T', okr,
           'symmetric input must be rebuilt as W + W.T by a slice store into W (so copy=False callers see it), under the symmetric flag',
           line=f.node.lineno)
    if reb is not None and cut is not None:
        rep.ob('D.rebuild-after-cut', f, reb, cfg.dominates(cut, reb), 'rebuild precedes thresholding')
    # 8. no other write
    allowed = ('W[np.tril_indices($_)] = 0', 'W[np.triu_indices($_)] = 0',
               'W[:, :] = W + W.T', 'W[...] = W + W.T', 'W[:] = W + W.T', 'W += W.T')
    _only_these_writes(rep, f, allowed, prog, also=(cut,) if cut is not None else ())


def _disj(t):
    if isinstance(t, ast.BoolOp) and isinstance(t.op, ast.Or):
        out = []
        for v in t.values:
            out += _disj(v)
        return out
    return [t]


def _weight_conversion(prog, rep, f, fs):
    doc = ast.get_docstring(f.node) or ''
    table = {}
    for mm in re.finditer(r"'(\w+)'\s*:\s*(.+)", doc):
        table[mm.group(1)] = mm.group(2).strip().lower()
    want = {}
    for cmd, text in table.items():
        if 'binariz' in text:
            want[cmd] = 'binarize'
        elif 'normaliz' in text:
            want[cmd] = 'normalize'
        elif 'length' in text or 'invert' in text:
            want[cmd] = 'invert'
    rep.ob('D.dispatch-doc-table', f, 'docstring commands %s' % sorted(want.items()), len(want) >= 3,
           'could not read the three documented commands from the docstring', line=f.node.lineno)
    got = {}
    pm = ParentMap(f.node)
    cfg = CFG(f.node)
    for r in cfg.returns:
        g = pm.guards(r)
        cmd = None
        for t, pol, k, o in g:
            if pol and isinstance(t, ast.Compare) and len(t.ops) == 1 and isinstance(t.ops[0], ast.Eq):
                l, rr = t.left, t.comparators[0]
                if isinstance(l, ast.Name) and l.id == 'wcm' and isinstance(rr, ast.Constant):
                    cmd = rr.value
                elif isinstance(rr, ast.Name) and rr.id == 'wcm' and isinstance(l, ast.Constant):
                    cmd = l.value
        callee = None
        fwd = False
        if isinstance(r.value, ast.Call):
            res = prog.resolve_expr(f, r.value.func)
            if res[0] == 'func':
                callee = res[1].name
                args = r.value.args
                kw = {k.arg: k.value for k in r.value.keywords}
                a0 = args[0] if args else kw.get('W')
                cp = args[1] if len(args) > 1 else kw.get('copy')
                fwd = isinstance(a0, ast.Name) and a0.id == 'W' and isinstance(cp, ast.Name) and cp.id == 'copy'
        got[cmd] = callee
        rep.ob('D.dispatch-forwards-W-and-copy', f, r, fwd, 'the dispatcher must pass W and the caller\'s copy flag to %s' % callee)
    for cmd, callee in sorted(want.items()):
        rep.ob('D.dispatch-agrees-with-doc', f, "%r -> %s" % (cmd, got.get(cmd)), got.get(cmd) == callee,
               'docstring says %r means %s but the code calls %s' % (cmd, callee, got.get(cmd)), line=f.node.lineno)
    # unknown command raises
    rs = [s for s in walk_no_nested(f.node) if isinstance(s, ast.Raise)]
    ok = False
    for s in rs:
        g = pm.guards(s)
        if g and all(not pol for t, pol, k, o in g) and len(g) >= len(want):
            ok = True
    rep.ob('D.dispatch-else-raises', f, rs[0] if rs else 'raise', ok, 'an unknown command must raise instead of returning something', line=f.node.lineno)


def _teachers_round(prog, rep):
    f = prog.func('bct.utils.miscellaneous_utilities', 'teachers_round')
    m = Matcher(prog, f)
    cfg = CFG(f.node)
    pm = ParentMap(f.node)
    up = dn = None
    for r in cfg.returns:
        if m.match(r.value, 'int(np.ceil(x))'):
            up = r
        elif m.match(r.value, 'int(np.floor(x))'):
            dn = r
    rep.ob('G.teachers-round-branches', f, 'ceil / floor returns', up is not None and dn is not None,
           'teachers_round must return int(ceil(x)) or int(floor(x))', line=f.node.lineno)
    if up is not None:
        g = pm.guards(up)
        txt = ' '.join(norm(t) for t, pol, k, o in g if pol)
        c = Canon(prog, f)
        want = parse_expr('x > 0 and x % 1 >= 0.5 or (x < 0 and x % 1 > 0.5)')
        ok = bool(g) and c.term(g[-1][0]) == c.term(want)
        rep.ob('G.teachers-round-half-up', f, g[-1][0] if g else 'guard', ok,
               'ceil must be taken exactly when (x>0 and frac>=.5) or (x<0 and frac>.5): .5 rounds away from zero')


def variants(root):
    from ..selftest import Variant as V
    O = 'bct/utils/other.py'
    M = 'bct/utils/miscellaneous_utilities.py'
    return [
        V('tp: builtin round', 'break', O, '    from .miscellaneous_utilities import teachers_round as round\n', '', 'D.round-is-teachers-round', 'threshold_proportional'),
        V('tp: ud = 1 on symmetric', 'break', O, 'ud = 2						# halve', 'ud = 1						# halve', 'D.sym-halves-count', 'threshold_proportional'),
        V('tp: triangle not removed', 'break', O, 'W[np.tril_indices(n)] = 0		# ensure symmetry is preserved', 'pass', 'D.sym-zero-triangle', 'threshold_proportional'),
        V('tp: ascending rank', 'break', O, 'I = np.argsort(W[ind])[::-1]', 'I = np.argsort(W[ind])', 'D.rank-descending', 'threshold_proportional'),
        V('tp: head zeroed', 'break', O, 'W[(ind[0][I][en:], ind[1][I][en:])] = 0', 'W[(ind[0][I][:en], ind[1][I][:en])] = 0', 'D.zero-the-tail', 'threshold_proportional'),
        V('tp: rebuild rebinds W', 'break', O, 'W[:, :] = W + W.T', 'W = W + W.T', 'A.copy-false-returns-arg', 'threshold_proportional'),
        V('tp: count n*n', 'break', O, 'en = int(round((n * n - n) * p / ud))', 'en = int(round((n * n) * p / ud))', 'G.kept-count', 'threshold_proportional'),
        V('tp: count without ud', 'break', O, 'en = int(round((n * n - n) * p / ud))', 'en = int(round((n * n - n) * p))', 'G.kept-count', 'threshold_proportional'),
        V('tp: diagonal not cleared', 'break', O, 'np.fill_diagonal(W, 0)			# clear diagonal', 'pass', 'D.diag-clear-dominates-return', 'threshold_proportional'),
        V('tp: range check dropped', 'break', O, "    if p > 1 or p < 0:\n        raise BCTParamError('Threshold must be in range [0,1]')\n", '', 'D.range-precondition', 'threshold_proportional'),
        V('tp: rebuild unconditional', 'break', O, '    if ud == 2:						# if symmetric matrix\n        W[:, :] = W + W.T', '    W[:, :] = W + W.T', 'D.sym-rebuild-in-place', 'threshold_proportional'),
        V('ta: non-strict threshold', 'break', O, 'W[W < thr] = 0', 'W[W <= thr] = 0', 'D.mask-form', 'threshold_absolute'),
        V('ta: diagonal kept', 'break', O, 'np.fill_diagonal(W, 0)  # clear diagonal\n    W[W < thr]', 'W[W < thr]', 'D.diag-clear-dominates-return', 'threshold_absolute'),
        V('ta: copy flag inverted', 'break', O, '    if copy:\n        W = W.copy()\n    np.fill_diagonal(W, 0)  # clear diagonal', '    if not copy:\n        W = W.copy()\n    np.fill_diagonal(W, 0)  # clear diagonal', 'A.', 'threshold_absolute'),
        V('binarize: positive only', 'break', O, 'W[W != 0] = 1', 'W[W > 0] = 1', 'D.mask-form', 'binarize'),
        V('normalize: rebinds', 'break', O, 'W /= np.max(np.abs(W))', 'W = W / np.max(np.abs(W))', 'A.copy-false', 'normalize'),
        V('normalize: max without abs', 'break', O, 'W /= np.max(np.abs(W))', 'W /= np.max(W)', 'D.mask-form', 'normalize'),
        V('invert: all entries', 'break', O, 'E = np.where(W)\n    W[E] = 1. / W[E]', 'E = np.where(W + 1)\n    W[E] = 1. / W[E]', 'D.mask-form', 'invert'),
        V('wc: lengths -> normalize', 'break', O, "    elif wcm == 'lengths':\n        return invert(W, copy)", "    elif wcm == 'lengths':\n        return normalize(W, copy)", 'D.dispatch-agrees-with-doc', 'weight_conversion'),
        V('wc: copy not forwarded', 'break', O, 'return binarize(W, copy)', 'return binarize(W)', 'D.dispatch-forwards', 'weight_conversion'),
        V('wc: unknown command passes', 'break', O, "        raise NotImplementedError('Unknown weight conversion command.')", "        return W", 'D.dispatch-else-raises', 'weight_conversion'),
        V('teachers_round: half rounds down', 'break', M, '(x % 1 >= 0.5)', '(x % 1 > 0.5)', 'G.teachers-round-half-up', 'teachers_round'),
        V('binarize: extra write', 'break', O, 'W[W != 0] = 1\n', 'W[W != 0] = 1\n    W[0, 0] = 0\n', 'D.no-other-write', 'binarize'),
        # neutral
        V('neutral: n*(n-1)', 'neutral', O, 'en = int(round((n * n - n) * p / ud))', 'en = int(round(n * (n - 1) * p / ud))'),
        V('neutral: p/ud first', 'neutral', O, 'en = int(round((n * n - n) * p / ud))', 'en = int(round(p / ud * (n ** 2 - n)))'),
        V('neutral: 1/W', 'neutral', O, 'W[E] = 1. / W[E]', 'W[E] = 1 / W[E]'),
        V('neutral: np.nonzero', 'neutral', O, 'ind = np.where(W)', 'ind = np.nonzero(W)'),
        V('neutral: thr > W', 'neutral', O, 'W[W < thr] = 0', 'W[thr > W] = 0'),
        V('neutral: np.copy', 'neutral', O, '    if copy:\n        W = W.copy()\n    W[W != 0] = 1', '    if copy:\n        W = np.copy(W)\n    W[W != 0] = 1'),
        V('neutral: explicit import name', 'neutral', O, 'from .miscellaneous_utilities import teachers_round as round', 'from .miscellaneous_utilities import teachers_round\n    round = None\n    from .miscellaneous_utilities import teachers_round as round'),
    ]
