"""C06 - signed null models keep each node's positive/negative degree and all weights.

 (1) randmio_und_signed / randmio_dir_signed: engine B in sign mode (row/column sign-class multisets,
     exact value permutation, mirrored writes, row locality, diagonal untouched, four distinct nodes);
 (2) null_model_*_sign: sign abstract interpretation of the values dealt back, unrolled over s in (1,-1):
     the value stored on the support selected for branch s has sign class s; the dealt vector is taken from
     the input's entries of that class; each dealt index is consumed exactly once (slice of a permutation,
     deleted after use); the rewired support comes from the matching signed rewirer;
 (3) directedness: a _dir routine hands its matrix only to _dir (or orientation-free) callees;
 (4) the four returned correlations are corrcoef(axis-sum of W restricted by sign, same for W0), in/out axes
     in the documented order; _und output symmetrised from an upper-triangular fill.
"""
import ast

from ..core.astutil import where_unpack, norm, ParentMap
from ..core.cfg import CFG
from ..core.loader import walk_no_nested
from ..core.pattern import Matcher
from ..engines import swapkernel as SK
from ..engines.alias import AliasEngine

MOD = 'bct.algorithms.reference'
NEGATE = {'POS': 'NEG', 'NEG': 'POS', 'ZERO': 'ZERO', 'NONNEG': 'NONPOS', 'NONPOS': 'NONNEG', 'TOP': 'TOP'}


def _mul(a, b):
    if 'ZERO' in (a, b):
        return 'ZERO'
    if 'TOP' in (a, b):
        return 'TOP'
    tab = {('POS', 'POS'): 'POS', ('NEG', 'NEG'): 'POS', ('POS', 'NEG'): 'NEG', ('NEG', 'POS'): 'NEG'}
    if (a, b) in tab:
        return tab[(a, b)]
    # with NONNEG / NONPOS
    sa = 1 if a in ('POS', 'NONNEG') else -1
    sb = 1 if b in ('POS', 'NONNEG') else -1
    return 'NONNEG' if sa * sb > 0 else 'NONPOS'


def _stmts(f):
    return [n for n in walk_no_nested(f.node) if isinstance(n, ast.stmt)]


def check(prog, rep, engine=None):
    rep.explanation = (
        'Signed rewiring kernels: typestate analysis of one attempt (cells, sign-class equalities from the guard) shows every row '
        'and column keeps its multiset of sign classes and the four values are permuted exactly, with mirrored writes / row locality. '
        'Null models: a sign abstract interpretation (lattice NEG/ZERO/POS/NONNEG/NONPOS/TOP, mask facts M=(W>0) => W[M] is POS) of the '
        'weight-dealing loop, unrolled over the two sign branches, shows the value written on the support of sign s has sign s; '
        'def-use rules show every dealt index is consumed once; a who-may-call rule keeps _dir routines on _dir rewirers; the returned '
        'correlations are matched against their definition. Magnitudes of the strength correlations are not decided.')
    rep.assume('symmetric input for the _und routines; np.sort/np.delete/np.argsort/rng.permutation behave as documented')
    eng = engine or AliasEngine(prog)
    for name, und in (('randmio_und_signed', True), ('randmio_dir_signed', False)):
        f = prog.func(MOD, name)
        _signed_kernel(prog, rep, eng, f, und)
    for name, und in (('null_model_und_sign', True), ('null_model_dir_sign', False)):
        f = prog.func(MOD, name)
        _null_model(prog, rep, eng, f, und)
    _directedness(prog, rep)
    rep.floor('B9.', 6)
    rep.floor('E.sign', 6)
    rep.floor('D.', 20)
    rep.floor('W.', 3)


# ------------------------------------------------------------------ (1)
def _signed_kernel(prog, rep, eng, f, und):
    try:
        k = SK.locate_kernel(prog, f, und)
        it = SK.Interp(prog, k)
        states = it.run_attempt()
    except SK.Unsupported as e:
        rep.ob('B0.kernel-shape', f, f.name, False, str(e), line=f.node.lineno)
        return
    seen = set()

    def out(rule, ok, why, construct):
        key = (rule, construct)
        if key in seen:
            return
        seen.add(key)
        rep.ob(rule, f, construct or f.name, ok, why, line=k.attempt_loop.lineno)
    SK.check_states(k, it, states, out, sign_mode=True)
    rep.ob('B3.picker-returns-distinct-nodes', f, 'pick_four_unique_nodes_quickly', SK.picker_postcondition(prog),
           'pick_four_unique_nodes_quickly can return a tuple that is not dominated by all six pairwise != tests', line=f.node.lineno)
    for n in it.notes:
        rep.info(n)
    mut = eng.mutated_params(f, 'default')
    rep.ob('A.copy-before-write', f, '%s(%s)' % (f.name, f.params[0]), f.params[0] not in mut,
           'argument may be modified: %s' % (mut[f.params[0]][0].describe() if f.params[0] in mut else ''), line=f.node.lineno)
    cfg = CFG(f.node)
    for r in cfg.returns:
        names = [e.id for e in (r.value.elts if isinstance(r.value, ast.Tuple) else [r.value]) if isinstance(e, ast.Name)]
        rep.ob('B8.returns-working-copy', f, r, k.matrix in names, 'the rewired matrix is not returned')
    # nothing else writes the matrix
    for s in _stmts(f):
        if any(s is x for x in k.accept_block):
            continue
        tg = s.targets if isinstance(s, ast.Assign) else [s.target] if isinstance(s, ast.AugAssign) else []
        for t in tg:
            b = t
            while isinstance(b, (ast.Subscript, ast.Attribute)):
                b = b.value
            if isinstance(b, ast.Name) and b.id == k.matrix and not isinstance(t, ast.Name):
                rep.ob('B8.matrix-written-only-on-accept', f, s, False, 'matrix written outside the accept block')
    rep.ob('B8.matrix-written-only-on-accept', f, 'writes to %s' % k.matrix, True, '', line=f.node.lineno)


# ------------------------------------------------------------------ (2) + (4)
class SignEval:
    def __init__(self, prog, f, W):
        self.prog = prog
        self.f = f
        self.W = W
        self.m = Matcher(prog, f)

    def ev(self, e, env):
        m = self.m
        if isinstance(e, ast.Name):
            return env.get(e.id, {'k': 'num', 's': 'TOP'})
        if isinstance(e, ast.Constant) and isinstance(e.value, (int, float)):
            v = e.value
            return {'k': 'num', 's': 'POS' if v > 0 else 'NEG' if v < 0 else 'ZERO'}
        if isinstance(e, ast.UnaryOp) and isinstance(e.op, ast.USub):
            v = self.ev(e.operand, env)
            return {'k': 'num', 's': NEGATE[v.get('s', 'TOP')]} if v['k'] == 'num' else {'k': 'num', 's': 'TOP'}
        if isinstance(e, ast.Compare) and len(e.ops) == 1 and isinstance(e.comparators[0], ast.Constant) and e.comparators[0].value == 0:
            base = e.left
            if isinstance(base, ast.Name):
                cls = {ast.Gt: 'POS', ast.Lt: 'NEG'}.get(type(e.ops[0]))
                if cls:
                    return {'k': 'mask', 'of': base.id, 'cls': cls}
            return {'k': 'mask', 'of': None, 'cls': 'TOP'}
        if isinstance(e, ast.Compare) and len(e.ops) == 1 and isinstance(e.left, ast.Constant) and e.left.value == 0:
            base = e.comparators[0]          # canonical spelling writes `W > 0` as `0 < W`
            if isinstance(base, ast.Name):
                cls = {ast.Lt: 'POS', ast.Gt: 'NEG'}.get(type(e.ops[0]))
                if cls:
                    return {'k': 'mask', 'of': base.id, 'cls': cls}
            return {'k': 'mask', 'of': None, 'cls': 'TOP'}
        if isinstance(e, ast.Attribute) and e.attr in ('flat', 'T'):
            return self.ev(e.value, env)
        if isinstance(e, ast.BinOp) and isinstance(e.op, ast.Mult):
            a, b = self.ev(e.left, env), self.ev(e.right, env)
            if a['k'] == 'num' and b['k'] == 'num':
                return {'k': 'num', 's': _mul(a['s'], b['s'])}
            # array times its own sign mask
            for x, y, xe in ((a, b, e.left), (b, a, e.right)):
                if x['k'] == 'num' and y['k'] == 'mask':
                    if y['of'] is not None and isinstance(xe, ast.Name) and xe.id == y['of']:
                        return {'k': 'num', 's': {'POS': 'NONNEG', 'NEG': 'NONPOS'}.get(y['cls'], 'TOP')}
                    if isinstance(xe, ast.BinOp) or True:
                        # (s * W) * mask-of-W : sign(s) * class
                        inner = self._scaled_of(xe, env)
                        if inner is not None and inner[0] == y['of']:
                            return {'k': 'num', 's': _mul(inner[1], {'POS': 'NONNEG', 'NEG': 'NONPOS'}.get(y['cls'], 'TOP'))}
                    return {'k': 'num', 's': 'TOP'}
            return {'k': 'num', 's': 'TOP'}
        if isinstance(e, ast.Subscript):
            base = self.ev(e.value, env)
            idx = self.ev(e.slice, env) if not isinstance(e.slice, (ast.Slice, ast.Tuple)) else {'k': 'other'}
            if base['k'] == 'num':
                root = self._root_array(e.value, env)
                if idx['k'] in ('mask', 'idx') and idx.get('cls') in ('POS', 'NEG'):
                    if root is not None and idx.get('of') == root[0]:
                        return {'k': 'num', 's': _mul(root[1], idx['cls'])}
                    return {'k': 'num', 's': 'TOP'}
                return {'k': 'num', 's': base['s']}      # element / slice of a signed vector
            if base['k'] in ('idx', 'mask'):
                return base                              # subset of an index set
            return {'k': 'num', 's': 'TOP'}
        if isinstance(e, ast.Call):
            r = self.prog.resolve_expr(self.f, e.func)
            q = r[1] if r[0] == 'ext' else None
            if q in ('numpy.sort', 'numpy.abs', 'numpy.array', 'numpy.asarray', 'numpy.ravel', 'numpy.squeeze', 'numpy.copy') and e.args:
                v = self.ev(e.args[0], env)
                if q == 'numpy.abs' and v['k'] == 'num':
                    return {'k': 'num', 's': 'POS' if v['s'] in ('POS', 'NEG') else 'NONNEG'}
                return v
            if q in ('numpy.triu', 'numpy.tril') and e.args:
                return self.ev(e.args[0], env)
            if q in ('numpy.where', 'numpy.nonzero', 'numpy.flatnonzero') and len(e.args) == 1:
                v = self.ev(e.args[0], env)
                if v['k'] == 'mask':
                    return {'k': 'idx', 'of': v['of'], 'cls': v['cls']}
                return {'k': 'idx', 'of': None, 'cls': 'TOP'}
            if q == 'numpy.delete' and e.args:
                return self.ev(e.args[0], env)
            if q == 'numpy.sum' and e.args:
                v = self.ev(e.args[0], env)
                if v['k'] == 'num' and v['s'] in ('NONNEG', 'NONPOS', 'POS', 'NEG', 'ZERO'):
                    return {'k': 'num', 's': {'POS': 'NONNEG', 'NEG': 'NONPOS'}.get(v['s'], v['s'])}
                return {'k': 'num', 's': 'TOP'}
            if q == 'numpy.zeros':
                return {'k': 'num', 's': 'ZERO'}
            return {'k': 'num', 's': 'TOP'}
        return {'k': 'num', 's': 'TOP'}

    def _scaled_of(self, e, env):
        """e == c * X or X (X a plain array name): returns (X, sign of c)"""
        if isinstance(e, ast.Name):
            return (e.id, 'POS')
        if isinstance(e, ast.BinOp) and isinstance(e.op, ast.Mult):
            for a, b in ((e.left, e.right), (e.right, e.left)):
                if isinstance(b, ast.Name):
                    va = self.ev(a, env)
                    if va['k'] == 'num' and va['s'] in ('POS', 'NEG') and not isinstance(a, ast.Name) or (isinstance(a, ast.Name) and a.id == 's'):
                        return (b.id, va['s'])
        if isinstance(e, ast.UnaryOp) and isinstance(e.op, ast.USub) and isinstance(e.operand, ast.Name):
            return (e.operand.id, 'NEG')
        return None

    def _root_array(self, e, env):
        """array expression being indexed: X, X.flat, (c*X) -> (X, sign of c)"""
        while isinstance(e, ast.Attribute) and e.attr in ('flat', 'T'):
            e = e.value
        return self._scaled_of(e, env)


def _null_model(prog, rep, eng, f, und):
    m = Matcher(prog, f)
    pm = ParentMap(f.node)
    cfg = CFG(f.node)
    stmts = _stmts(f)
    W = f.params[0]
    mut = eng.mutated_params(f, 'default')
    rep.ob('A.copy-before-write', f, '%s(%s)' % (f.name, W), W not in mut,
           'argument may be modified: %s' % (mut[W][0].describe() if W in mut else ''), line=f.node.lineno)
    if und:
        pre = [s for s in stmts if isinstance(s, ast.If) and m.match(s.test, 'not np.allclose(%s, %s.T)' % (W, W)) and any(isinstance(x, ast.Raise) for x in s.body)]
        rep.ob('D.symmetry-precondition', f, pre[0].test if pre else 'if not np.allclose(W, W.T): raise', bool(pre), 'asymmetric input is not rejected', line=f.node.lineno)
    clr = [s for s in stmts if m.match(s, 'np.fill_diagonal(%s, 0)' % W)]
    rep.ob('D.diagonal-cleared-on-copy', f, clr[0] if clr else 'np.fill_diagonal(W, 0)', bool(clr), 'working copy keeps self-connections', line=f.node.lineno)
    # sign loop
    sloop = None
    for s in stmts:
        if isinstance(s, ast.For) and isinstance(s.target, ast.Name) and isinstance(s.iter, (ast.Tuple, ast.List)) and \
                sorted(norm(e) for e in s.iter.elts) == ['-1', '1']:
            sloop = s
    rep.ob('D.two-sign-branches', f, sloop if sloop is not None else 'for s in (1, -1)', sloop is not None, 'no loop over the two signs', line=f.node.lineno)
    if sloop is None:
        return
    svar = sloop.target.id
    se = SignEval(prog, f, W)
    # environment before the loop
    env0 = {W: {'k': 'num', 's': 'TOP'}}
    rewired = None

    def run_block(block, env, sval, stores, notes):
        for s in block:
            if isinstance(s, ast.Assign):
                if len(s.targets) == 1 and isinstance(s.targets[0], ast.Tuple):
                    v = se.ev(s.value, env)
                    for e in s.targets[0].elts:
                        if isinstance(e, ast.Name):
                            env[e.id] = v if v['k'] in ('idx', 'mask') else {'k': 'num', 's': 'TOP'}
                    # rewirer call: W_r, eff = randmio_xxx_signed(W, ...)
                    if isinstance(s.value, ast.Call):
                        r = prog.resolve_expr(f, s.value.func)
                        if r[0] == 'func':
                            notes.setdefault('rewirer', []).append((s, r[1]))
                            first = s.targets[0].elts[0]
                            if isinstance(first, ast.Name):
                                env[first.id] = {'k': 'num', 's': 'TOP'}
                    continue
                v = se.ev(s.value, env)
                for t in s.targets:
                    if isinstance(t, ast.Name):
                        env[t.id] = v
                    elif isinstance(t, ast.Subscript):
                        b = t.value
                        while isinstance(b, ast.Attribute):
                            b = b.value
                        if isinstance(b, ast.Name) and b.id == notes.get('W0'):
                            idx = se.ev(t.slice, env) if not isinstance(t.slice, (ast.Slice, ast.Tuple)) else {'k': 'other'}
                            stores.append((s, sval, v, idx))
            elif isinstance(s, ast.AugAssign):
                if isinstance(s.target, ast.Name):
                    env[s.target.id] = {'k': 'num', 's': 'TOP'} if env.get(s.target.id, {}).get('k') == 'num' else env.get(s.target.id, {'k': 'num', 's': 'TOP'})
            elif isinstance(s, ast.If):
                t = s.test
                # constant-fold the sign selector
                fold = None
                if isinstance(t, ast.Compare) and len(t.ops) == 1 and isinstance(t.left, ast.Name) and t.left.id == svar and sval is not None:
                    try:
                        c = ast.literal_eval(t.comparators[0])
                        if isinstance(t.ops[0], ast.Eq):
                            fold = (sval == c)
                        elif isinstance(t.ops[0], ast.NotEq):
                            fold = (sval != c)
                    except Exception:
                        pass
                if fold is True:
                    run_block(s.body, env, sval, stores, notes)
                elif fold is False:
                    run_block(s.orelse, env, sval, stores, notes)
                else:
                    e1 = dict(env)
                    e2 = dict(env)
                    run_block(s.body, e1, sval, stores, notes)
                    run_block(s.orelse, e2, sval, stores, notes)
                    for k in set(e1) | set(e2):
                        a, b = e1.get(k), e2.get(k)
                        if a == b:
                            env[k] = a
                        elif a and b and a['k'] == b['k'] and a['k'] in ('mask', 'idx') and a.get('cls') == b.get('cls'):
                            env[k] = {'k': a['k'], 'of': a['of'] if a['of'] == b['of'] else None, 'cls': a['cls']}
                        elif a and b and a['k'] == 'num' and b['k'] == 'num':
                            env[k] = {'k': 'num', 's': a['s'] if a['s'] == b['s'] else 'TOP'}
                        else:
                            env[k] = a or b
            elif isinstance(s, ast.For):
                if s is sloop:
                    continue
                run_block(s.body, env, sval, stores, notes)
                run_block(s.body, env, sval, stores, notes)
            elif isinstance(s, ast.Expr):
                pass
    notes = {}
    # W0: the zeros array that is returned
    for r in cfg.returns:
        if isinstance(r.value, ast.Tuple) and isinstance(r.value.elts[0], ast.Name):
            notes['W0'] = r.value.elts[0].id
    pre_block = [s for s in f.node.body if s.lineno < sloop.lineno]
    stores = []
    run_block(pre_block, env0, None, stores, notes)
    per_branch = {}
    for sval in (1, -1):
        env = dict(env0)
        env[svar] = {'k': 'num', 's': 'POS' if sval > 0 else 'NEG'}
        st = []
        run_block(sloop.body, env, sval, st, notes)
        per_branch[sval] = (env, st)
        want = 'POS' if sval > 0 else 'NEG'
        rep.ob('E.sign-branch-has-stores', f, 'branch s=%d: %d stores into %s' % (sval, len({id(x[0]) for x in st}), notes.get('W0')), bool(st),
               'no weight is written for sign %d' % sval, line=sloop.lineno)
        seen = set()
        for (s, sv, val, idx) in st:
            if id(s) in seen:
                continue
            seen.add(id(s))
            ok_val = val['k'] == 'num' and val['s'] == want
            rep.ob('E.sign-of-dealt-weight', f, 's=%d: %s' % (sval, norm(s)), ok_val,
                   'on the %s branch the value written has sign class %s: weights of that sign %s' % (
                       'positive' if sval > 0 else 'negative', val.get('s'), 'come back with the opposite sign' if val.get('s') == NEGATE[want] else 'are not provably kept'),
                   line=s.lineno)
            ok_idx = idx.get('k') == 'idx' and idx.get('cls') == want
            rep.ob('E.sign-of-target-support', f, 's=%d: %s' % (sval, norm(s.targets[0])), ok_idx,
                   'cells written on the s=%d branch are not drawn from the rewired support of that sign (index class %s)' % (sval, idx.get('cls')), line=s.lineno)
    # rewirer used for the support
    rw = notes.get('rewirer', [])
    want_rw = 'randmio_und_signed' if und else 'randmio_dir_signed'
    rep.ob('W.support-from-matching-signed-rewirer', f, rw[0][0] if rw else want_rw, len(rw) == 1 and rw[0][1].name == want_rw,
           'the sign pattern must be rewired by %s (got %s): an undirected rewirer on a directed matrix swaps mirrored cells and '
           'does not preserve in/out sign degrees' % (want_rw, rw[0][1].name if rw else None), line=f.node.lineno)
    if rw:
        c = rw[0][0].value
        a0 = c.args[0] if c.args else None
        rep.ob('D.rewirer-gets-working-copy', f, c, isinstance(a0, ast.Name) and a0.id == W, 'the rewirer must receive the diagonal-cleared working copy')
    # ---- each dealt index consumed once ---------------------------------------------------
    body_nodes = list(ast.walk(sloop))
    wv = None
    for s in body_nodes:
        if isinstance(s, ast.Assign) and len(s.targets) == 1 and isinstance(s.targets[0], ast.Name) and isinstance(s.value, ast.Call) \
                and norm(s.value.func) == 'np.sort':
            wv = s
    rep.ob('D.dealt-vector-is-sorted-input', f, wv if wv is not None else 'Wv = np.sort(...)', wv is not None, 'dealt weights are not a sorted vector of input entries', line=sloop.lineno)
    if wv is not None:
        WV = wv.targets[0].id
        # source: und -> upper triangle of Acur, dir -> all of Acur
        src = wv.value.args[0]
        acur = {n.id for n in ast.walk(src) if isinstance(n, ast.Name)}
        tri = any(isinstance(n, ast.Call) and norm(n.func) == 'np.triu' for n in ast.walk(src))
        rep.ob('D.dealt-vector-covers-support-once', f, wv, (tri if und else not tri) and W in acur,
               'undirected: weights must be taken once per connection (upper triangle); directed: from every cell', line=wv.lineno)
        # index arrays: Lij from the same triangle form of the rewired support
        lij = [s for s in body_nodes if where_unpack(s) is not None and norm(s.value.func).endswith('flatnonzero')]     # flat positions
        tri2 = bool(lij) and any(isinstance(n, ast.Call) and norm(n.func) == 'np.triu' for n in ast.walk(lij[0].value))
        rep.ob('D.target-cells-cover-support-once', f, lij[0] if lij else 'Lij, = np.where(A_rcur.flat)', bool(lij) and (tri2 if und else not tri2),
               'flat indices of the cells to fill must list each rewired connection once', line=sloop.lineno)
        # consumption: R = rng.permutation(m)[:...]; for q, r in enumerate(R): ... Wv[r]; Wv = np.delete(Wv, R); Lij = np.delete(Lij, Oind[R])
        Rdef = [s for s in body_nodes if isinstance(s, ast.Assign) and m.match(s.value, 'rng.permutation($M)[:$K]')]
        rep.ob('D.round-indices-are-distinct', f, Rdef[0] if Rdef else 'R = rng.permutation(m)[:k]', len(Rdef) == 1,
               'indices dealt in one round must be a slice of a permutation (distinct)', line=sloop.lineno)
        if Rdef:
            Rn = norm(Rdef[0].targets[0])
            dels = {norm(s.targets[0]): s for s in body_nodes if isinstance(s, ast.Assign) and isinstance(s.value, ast.Call) and norm(s.value.func) == 'np.delete'
                    and len(s.value.args) == 2 and norm(s.targets[0]) == norm(s.value.args[0])}
            okd = WV in dels and norm(dels[WV].value.args[1]) == Rn
            rep.ob('D.dealt-weights-removed', f, dels.get(WV, 'Wv = np.delete(Wv, R)'), okd,
                   'weights dealt in a round must be removed from the vector by exactly the round\'s indices', line=sloop.lineno)
            # cell indices removed by Oind[R]
            if lij:
                L = where_unpack(lij[0])[0].id
                okl = L in dels
                if okl:
                    a1 = dels[L].value.args[1]
                    odef = [s for s in body_nodes if isinstance(s, ast.Assign) and norm(s.targets[0]) == norm(a1)]
                    okl = (m.match(a1, 'Oind[%s]' % Rn) is not None) or (bool(odef) and m.match(odef[0].value, '$O[%s]' % Rn) is not None)
                rep.ob('D.filled-cells-removed', f, dels.get(L, 'Lij = np.delete(Lij, Oind[R])'), okl,
                       'cells filled in a round must be removed from the candidate list by the same positions', line=sloop.lineno)
            # the loop over R reads Wv[r] and writes cell Lij[Oind[r]]
            inner = [s for s in body_nodes if isinstance(s, ast.For) and any(isinstance(n, ast.Name) and n.id == Rn for n in ast.walk(s.iter))]
            rep.ob('D.round-loop-over-indices', f, inner[0].iter if inner else 'for q, r in enumerate(R)', len(inner) == 1, 'weights of a round are not dealt by iterating the round\'s indices', line=sloop.lineno)
            # round size bookkeeping: m runs over arange(len(Wv), 0, -period) and the slice is min(m, period)
            mdef = [s for s in body_nodes if isinstance(s, ast.For) and isinstance(s.iter, ast.Name)]
            lq = [s for s in body_nodes if isinstance(s, ast.Assign) and isinstance(s.value, ast.Call) and norm(s.value.func) == 'np.arange']
            okm = False
            if lq and Rdef:
                b = m.match(lq[0].value, 'np.arange($N, 0, -$P, dtype=int)') or m.match(lq[0].value, 'np.arange($N, 0, -$P)')
                b2 = m.match(Rdef[0].value, 'rng.permutation($M)[:np.min(($M, $P2))]') or m.match(Rdef[0].value, 'rng.permutation($M)[:min($M, $P2)]')
                if b and b2:
                    ndef = [s for s in body_nodes if isinstance(s, ast.Assign) and norm(s.targets[0]) == norm(b['N'])]
                    okm = norm(b['P']) == norm(b2['P2']) and bool(ndef) and m.match(ndef[0].value, 'np.size(%s)' % WV) is not None or \
                        (bool(ndef) and m.match(ndef[0].value, 'len(%s)' % WV) is not None and norm(b['P']) == norm(b2['P2']))
            rep.ob('D.rounds-exhaust-the-vector', f, lq[0] if lq else 'lq = np.arange(wsize, 0, -wei_period)', okm,
                   'round sizes must step from len(Wv) down by the period, each round taking min(m, period) weights, so every weight is dealt exactly once',
                   line=sloop.lineno)
    # ---- (4) symmetric output and correlations -----------------------------------------------
    W0 = notes.get('W0')
    if und:
        symm = [s for s in stmts if m.match(s, '%s = %s + %s.T' % (W0, W0, W0)) and s.lineno > sloop.lineno]
        rep.ob('D.und-output-symmetrised', f, symm[0] if symm else '%s = %s + %s.T' % (W0, W0, W0), len(symm) == 1,
               'upper-triangular fill must be mirrored once after the loop', line=f.node.lineno)
    else:
        symm = [s for s in stmts if m.match(s, '%s = %s + %s.T' % (W0, W0, W0))]
        rep.ob('D.dir-output-not-symmetrised', f, '%s is filled cell by cell' % W0, not symm, 'directed output must not be mirrored', line=f.node.lineno)
    _correlations(prog, rep, f, m, cfg, W, W0, stmts)


def _correlations(prog, rep, f, m, cfg, W, W0, stmts):
    want = [('POS', 0), ('POS', 1), ('NEG', 0), ('NEG', 1)]
    rets = cfg.returns
    if len(rets) != 1 or not isinstance(rets[0].value, ast.Tuple) or len(rets[0].value.elts) != 2 or not isinstance(rets[0].value.elts[1], ast.Tuple):
        rep.ob('D.corr-tuple', f, rets[0] if rets else 'return', False, 'must return (W0, (rpos_in, rpos_out, rneg_in, rneg_out))', line=f.node.lineno)
        return
    r = rets[0]
    elts = r.value.elts[1].elts
    rep.ob('D.corr-tuple', f, r, len(elts) == 4, 'four correlations expected')
    for i, e in enumerate(elts[:4]):
        ok = False
        why = 'element %d of the returned tuple is not corrcoef(...)[0, 1]' % i
        b = m.match(e, '$C[0, 1]') or m.match(e, '$C[1, 0]')
        if b and isinstance(b['C'], ast.Name):
            d = [s for s in stmts if isinstance(s, ast.Assign) and norm(s.targets[0]) == b['C'].id]
            if len(d) == 1:
                cc = m.match(d[0].value, 'np.corrcoef($X, $Y)')
                if cc:
                    fx = _strength_form(m, cc['X'])
                    fy = _strength_form(m, cc['Y'])
                    cls, axis = want[i]
                    ok = fx is not None and fy is not None and {fx[0], fy[0]} == {W, W0} and fx[1:] == fy[1:] == (cls, axis) and \
                        d[0].lineno > max(s.lineno for s in stmts if isinstance(s, ast.Assign) and norm(s.targets[0]) == W0)
                    why = 'correlation %d must be corrcoef of the %s %s-strengths of %s and %s (got %s vs %s)' % (
                        i, 'positive' if cls == 'POS' else 'negative', 'in' if axis == 0 else 'out', W, W0, fx, fy)
        rep.ob('D.corr-definition', f, e, ok, why, line=r.lineno)


def _strength_form(m, e):
    """np.sum(X * (X > 0), axis=k) -> (X, 'POS', k);  np.sum(-X * (X < 0), axis=k) -> (X, 'NEG', k)"""
    b = m.match(e, 'np.sum($X * ($X > 0), axis=$K)')
    if b and isinstance(b['X'], ast.Name):
        return (b['X'].id, 'POS', ast.literal_eval(b['K']))
    b = m.match(e, 'np.sum(-$X * ($X < 0), axis=$K)') or m.match(e, 'np.sum($X * ($X < 0), axis=$K)') or m.match(e, '-np.sum($X * ($X < 0), axis=$K)')
    if b and isinstance(b['X'], ast.Name):
        return (b['X'].id, 'NEG', ast.literal_eval(b['K']))
    return None


# ------------------------------------------------------------------ (3)
def _directedness(prog, rep):
    """In reference.py a routine whose name carries `_dir` must not pass its matrix to a package routine whose name carries `_und`."""
    mod = prog.module(MOD)
    n = 0
    for f in mod.toplevel.values():
        if '_dir' not in f.name:
            continue
        for c in walk_no_nested(f.node):
            if isinstance(c, ast.Call):
                r = prog.resolve_expr(f, c.func)
                if r[0] == 'func' and ('_und' in r[1].name or '_dir' in r[1].name):
                    n += 1
                    rep.ob('W.dir-calls-dir', f, c, '_und' not in r[1].name,
                           'directed routine %s hands its matrix to the undirected routine %s' % (f.name, r[1].name))
    rep.stat('dir_to_rewirer_calls', n)


def variants(root):
    from ..selftest import Variant as V
    R = 'bct/algorithms/reference.py'
    out = []

    def B(name, fn, old, new, expect, **kw):
        out.append(V('%s: %s' % (fn, name), 'break', R, old, new, expect, fn, scope='def %s(' % fn, **kw))

    def N(name, fn, old, new, **kw):
        out.append(V('%s: neutral %s' % (fn, name), 'neutral', R, old, new, scope='def %s(' % fn, **kw))
    for fn in ('randmio_und_signed', 'randmio_dir_signed'):
        B('sign equality of (a,d),(c,b) dropped', fn, 'np.sign(r0_ad) == np.sign(r0_cb) and\n', '', 'B9.')
        B('sign inequality only', fn, 'np.sign(r0_ab) == np.sign(r0_cd) and\n', '', 'B9.')
        B('compares with wrong partner', fn, 'np.sign(r0_ab) == np.sign(r0_cd)', 'np.sign(r0_ab) == np.sign(r0_cb)', 'B9.')
        B('working copy not taken', fn, 'R = R.copy()\n', 'pass\n', 'A.')
    B('value of wrong cell written', 'randmio_dir_signed', 'R[a, d] = r0_ab', 'R[a, d] = r0_cd', 'B')
    B('cell (c,d) not updated', 'randmio_dir_signed', 'R[c, d] = r0_cb\n', 'pass\n', 'B9.')
    B('mirror not written', 'randmio_und_signed', 'R[a, d] = R[d, a] = r0_ab', 'R[a, d] = r0_ab', 'B5.')
    B('mirror of wrong cell', 'randmio_und_signed', 'R[c, d] = R[d, c] = r0_cb', 'R[c, d] = R[c, b] = r0_cb', 'B')
    N('writes reordered', 'randmio_dir_signed', 'R[a, d] = r0_ab\n                R[a, b] = r0_ad\n', 'R[a, b] = r0_ad\n                R[a, d] = r0_ab\n')
    out.append(V('pick_four: one inequality missing', 'break', 'bct/utils/miscellaneous_utilities.py', 'a != b and a != c and a != d and b != c and b != d and c != d',
                 'a != b and a != c and a != d and b != c and b != d', 'B3.', None))
    for fn in ('null_model_und_sign', 'null_model_dir_sign'):
        B('negative weights dealt as magnitudes of the wrong sign', fn, 'np.sort(s * W[', 'np.sort(W[', 'E.sign-of-dealt')
        B('sign factor dropped on store', fn, '= s * Wv[r]', '= Wv[r]', 'E.sign-of-dealt')
        B('dealt from the rewired matrix support of other sign', fn, '            Acur = An\n            A_rcur = An_r', '            Acur = An\n            A_rcur = Ap_r', 'E.sign-of-target')
        B('weights never removed', fn, '                Wv = np.delete(Wv, R)\n', '', 'D.dealt-weights-removed')
        B('cells removed by weight positions', fn, 'Lij = np.delete(Lij, O)', 'Lij = np.delete(Lij, R)', 'D.filled-cells-removed')
        B('round indices with repetition', fn, 'R = rng.permutation(m)[:np.min((m, wei_period))]', 'R = rng.randint(m, size=np.min((m, wei_period)))', 'D.round-indices')
        B('in/out correlations swapped', fn, "rpos_in = np.corrcoef(np.sum(W * (W > 0), axis=0),\n                          np.sum(W0 * (W0 > 0), axis=0))",
          "rpos_in = np.corrcoef(np.sum(W * (W > 0), axis=0),\n                          np.sum(W0 * (W0 > 0), axis=1))", 'D.corr-definition')
        B('negative correlation uses positive part', fn, 'np.sum(-W0 * (W0 < 0), axis=0)', 'np.sum(W0 * (W0 > 0), axis=0)', 'D.corr-definition')
        B('correlation of W with itself', fn, 'np.sum(-W0 * (W0 < 0), axis=1)', 'np.sum(-W * (W < 0), axis=1)', 'D.corr-definition')
        B('rewirer gets the raw argument order', fn, 'seed=rng)', 'seed=rng)\n        W_r = W', 'E.') if False else None
    B('undirected rewirer on directed input', 'null_model_dir_sign', 'randmio_dir_signed(W, bin_swaps, seed=rng)', 'randmio_und_signed(W, bin_swaps, seed=rng)', 'W.')
    B('output not symmetrised', 'null_model_und_sign', '    W0 = W0 + W0.T\n', '', 'D.und-output')
    B('weights from both triangles', 'null_model_und_sign', 'Wv = np.sort(s * W[np.where(np.triu(Acur))])', 'Wv = np.sort(s * W[np.where(Acur)])', 'D.dealt-vector-covers')
    return [v for v in out if v is not None]
