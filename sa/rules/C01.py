"""C01 - degree-preserving rewiring keeps every node's degree and the weight multiset.

Engine B (sa/engines/swapkernel.py): one attempt of every rewiring kernel is abstractly
interpreted over cells / edge-list slots / inequality facts, on every path; the post-state
is compared with the specification (support row/column sums, weight multiset, no
self-connection, mirrored writes, row locality, edge-list coherence, reject paths leave
the matrix alone).  Induction over accepted swaps gives the statement for the returned
matrix; the induction base and the copy/return/permutation-undo clauses are separate
def-use / dominance obligations.
"""
import ast

from ..core.astutil import where_unpack, norm, ParentMap
from ..core.cfg import CFG
from ..core.loader import AnalysisError, walk_no_nested
from ..core.pattern import Matcher
from ..engines import swapkernel as SK
from ..engines.alias import AliasEngine

MOD = 'bct.algorithms.reference'
EDGE_KERNELS = [
    ('randmio_und', True), ('randmio_dir', False), ('randmio_und_connected', True), ('randmio_dir_connected', False),
    ('latmio_und', True), ('latmio_dir', False), ('latmio_und_connected', True), ('latmio_dir_connected', False),
    ('randomize_graph_partial_und', True),
]
LATTICISERS = ['latmio_und', 'latmio_dir', 'latmio_und_connected', 'latmio_dir_connected']


def _stmts(f):
    return [n for n in walk_no_nested(f.node) if isinstance(n, ast.stmt)]


def run_kernel(prog, rep, f, und, prefix='', mask=None, sign_mode=False, binary=False):
    k = SK.locate_kernel(prog, f, und)
    it = SK.Interp(prog, k, mask=mask)
    states = it.run_attempt()
    seen = set()

    def out(rule, ok, why, construct):
        c = construct or f.name
        key = (rule, c)
        if key in seen and ok:
            return
        seen.add(key)
        rep.ob(prefix + rule, f, c, ok, why, line=k.attempt_loop.lineno)
    SK.check_states(k, it, states, out, binary_consts=binary, sign_mode=sign_mode)
    return k, it, states


def check(prog, rep, engine=None):
    rep.explanation = (
        'Typestate/dataflow analysis of one rewiring attempt for each of the 10 kernels: symbolic cells of the working matrix, '
        'edge-list slots and the inequality facts collected from dominating guards are propagated along every path of the loop body '
        '(finite abstract state, no values, no solver). On every accepting path the analysis shows: rows/columns (undirected: nodes) '
        'lose and gain the same number of entries, the values written are a permutation of the values removed, every cell that becomes '
        'nonzero was tested empty, all endpoints are provably distinct (no self-connection), writes are mirrored (undirected), weights '
        'stay in their row (directed), the edge list names exactly the new edges, the counter counts accepts; rejecting paths leave '
        'the matrix and the edge-list invariant intact. Plus: edge list taken from the final working copy; argument never written; '
        'the working copy is what is returned; latticisers undo the node permutation with its inverse.')
    rep.assume('documented input domain: empty diagonal; symmetric input for the undirected routines')
    rep.assume('induction hypothesis (re-established by obligation B7): every edge-list slot names a nonzero cell')
    eng = engine or AliasEngine(prog)
    n_kernels = 0
    for name, und in EDGE_KERNELS:
        f = prog.func(MOD, name)
        try:
            k, it, states = run_kernel(prog, rep, f, und, mask='B' if name == 'randomize_graph_partial_und' else None)
        except SK.Unsupported as e:
            rep.ob('B0.kernel-shape', f, f.name, False, 'kernel no longer has an analysable shape: %s' % e, line=f.node.lineno)
            continue
        n_kernels += 1
        _base_and_return(prog, rep, eng, f, k, und)
    rep.stat('kernels_analysed', n_kernels + 1)
    for name in LATTICISERS:
        _perm_undo(prog, rep, prog.func(MOD, name))
    _randomizer_bin_und(prog, rep, eng)
    rep.floor('B1.', 18)
    rep.floor('B7.', 18)
    rep.floor('B3.', 10)
    rep.floor('P.', 8)
    rep.floor('A.', 10)


# ------------------------------------------------------------------ induction base, copy, return
def _base_and_return(prog, rep, eng, f, k, und):
    m = Matcher(prog, f)
    cfg = CFG(f.node)
    M = k.matrix
    # (1) the edge list enumerates the support of the working copy
    arg = k.where_arg
    if und:
        ok = any(m.match(arg, t) for t in ('np.tril(%s)' % M, 'np.triu(%s)' % M, 'np.triu(%s, 1)' % M, 'np.tril(%s, -1)' % M))
        why = 'undirected edge list must list each connection once: np.where of one triangle of %s (got %s)' % (M, norm(arg))
    else:
        ok = m.match(arg, M) is not None
        why = 'directed edge list must be np.where(%s) (got %s)' % (M, norm(arg))
    rep.ob('B0.edge-list-is-support', f, k.where_stmt, ok, why)
    # (2) ... of the final working copy: every rebinding of M dominates the np.where statement
    rebinds = [s for s in _stmts(f) if isinstance(s, ast.Assign) and any(isinstance(t, ast.Name) and t.id == M for t in s.targets)]
    for s in rebinds:
        rep.ob('B0.edge-list-after-last-rebinding', f, s, cfg.dominates(s, k.where_stmt) and s is not k.where_stmt,
               '%s is rebound after (or not before) the edge list is taken: slots would not name cells of the matrix being rewired' % M)
    # edge arrays are not rebound inside the loop
    for s in _stmts(f):
        if isinstance(s, ast.Assign) and s is not k.where_stmt:
            for t in s.targets:
                for tt in (t.elts if isinstance(t, ast.Tuple) else [t]):
                    if isinstance(tt, ast.Name) and tt.id in (k.I, k.J):
                        rep.ob('B0.edge-list-not-rebound', f, s, False, 'edge array %s is rebound' % tt.id)
    # (3) argument never written (copy before first write)
    mut = eng.mutated_params(f, 'default')
    for p in f.params:
        if p in ('seed', 'itr', 'maxswap', 'alpha'):
            continue
        rep.ob('A.copy-before-write', f, '%s(%s)' % (f.name, p), p not in mut,
               'argument %s may be modified: %s' % (p, mut[p][0].describe() if p in mut else ''), line=f.node.lineno)
    # (4) the working matrix is what is returned (first element / whole)
    for r in cfg.returns:
        v = r.value
        elts = v.elts if isinstance(v, ast.Tuple) else [v]
        names = [e.id for e in elts if isinstance(e, ast.Name)]
        rep.ob('B8.returns-working-copy', f, r, M in names,
               'the rewired working matrix %s is not among the returned values' % M)
        if k.counter and isinstance(v, ast.Tuple):
            rep.ob('B8.returns-counter', f, r, k.counter in names, 'the number of rewirings %s is not returned' % k.counter)
    # (5) the counter starts at zero and is only incremented in the accept block
    if k.counter:
        inits = [s for s in _stmts(f) if isinstance(s, ast.Assign) and any(isinstance(t, ast.Name) and t.id == k.counter for t in s.targets)]
        okc = len(inits) == 1 and isinstance(inits[0].value, ast.Constant) and inits[0].value.value == 0
        rep.ob('B8.counter-starts-at-zero', f, inits[0] if inits else k.counter, okc, 'rewiring counter must be initialised to 0 exactly once', line=f.node.lineno)
        incs = [s for s in _stmts(f) if isinstance(s, ast.AugAssign) and isinstance(s.target, ast.Name) and s.target.id == k.counter]
        rep.ob('B8.counter-only-in-accept', f, k.counter, all(any(s is x for x in k.accept_block) for s in incs) and len(incs) == 1,
               'counter %s is changed outside the accept block' % k.counter, line=f.node.lineno)
    # (6) nothing but the accept block (and pre-loop setup by rebinding) writes the matrix
    for s in _stmts(f):
        if any(s is x for x in k.accept_block):
            continue
        tg = s.targets if isinstance(s, ast.Assign) else [s.target] if isinstance(s, ast.AugAssign) else []
        for t in tg:
            if isinstance(t, ast.Subscript):
                b = t
                while isinstance(b, (ast.Subscript, ast.Attribute)):
                    b = b.value
                if isinstance(b, ast.Name) and b.id == M:
                    rep.ob('B8.matrix-written-only-on-accept', f, s, False, 'the working matrix is written outside the accept block')
            elif isinstance(s, ast.AugAssign) and isinstance(t, ast.Name) and t.id == M:
                rep.ob('B8.matrix-written-only-on-accept', f, s, False, 'the working matrix is updated in place outside the accept block')
        if isinstance(s, ast.Expr) and isinstance(s.value, ast.Call) and s.value.args and isinstance(s.value.args[0], ast.Name) \
                and s.value.args[0].id == M and norm(s.value.func).endswith(('fill_diagonal', 'put', 'place', 'putmask', 'copyto')):
            rep.ob('B8.matrix-written-only-on-accept', f, s, False, 'the working matrix is written outside the accept block')
    rep.ob('B8.matrix-written-only-on-accept', f, 'writes to %s' % M, True, '', line=f.node.lineno)


# ------------------------------------------------------------------ permutation undo
def _perm_undo(prog, rep, f):
    m = Matcher(prog, f)
    stmts = _stmts(f)
    fwd = None
    for s in stmts:
        b = m.match(s, '$M = $M[np.ix_($P, $P)]')
        if b and isinstance(b['P'], ast.Name):
            fwd = (s, b['M'].id, b['P'].id)
    if fwd is None:
        rep.ob('P.forward-permutation', f, 'R = R[np.ix_(ind_rp, ind_rp)]', False, 'latticiser does not permute its working copy', line=f.node.lineno)
        return
    s_fwd, M, P = fwd
    pdef = [s for s in stmts if isinstance(s, ast.Assign) and any(isinstance(t, ast.Name) and t.id == P for t in s.targets)]
    okp = len(pdef) == 1 and isinstance(pdef[0].value, ast.Call) and isinstance(pdef[0].value.func, ast.Attribute) \
        and pdef[0].value.func.attr == 'permutation'
    rep.ob('P.forward-permutation', f, pdef[0] if pdef else P, okp, 'node ordering %s must be a single rng.permutation(n)' % P, line=f.node.lineno)
    back = None
    for s in stmts:
        b = m.match(s, '$L = %s[np.ix_($Q, $Q2)]' % M)
        if b and s is not s_fwd:
            back = (s, b['L'], b['Q'], b['Q2'])
    if back is None:
        rep.ob('P.undo-is-inverse', f, 'Rlatt = %s[np.ix_(inv, inv)]' % M, False, 'latticiser never maps the result back to the caller\'s node numbering', line=f.node.lineno)
        return
    s_b, L, Q, Q2 = back
    same = ast.dump(Q) == ast.dump(Q2)
    inv_ok = same and _is_inverse_perm(prog, f, m, Q, P, stmts)
    rep.ob('P.undo-is-inverse', f, s_b, inv_ok,
           'the index %s used to map the rewired matrix back is not the inverse permutation of %s (accepted: np.argsort(%s), or '
           'inv[%s] = np.arange(n)); degrees would be attributed to the wrong nodes' % (norm(Q), P, P, P))
    # return tuple: (Rlatt, R, ind_rp, eff)
    cfg = CFG(f.node)
    for r in cfg.returns:
        v = r.value
        ok = isinstance(v, ast.Tuple) and len(v.elts) >= 3 and norm(v.elts[0]) == norm(L) and norm(v.elts[1]) == M and norm(v.elts[2]) == P
        rep.ob('P.returns-both-orders-and-ordering', f, r, ok,
               'must return (result in caller order = %s, result in latticisation order = %s, ordering = %s, ...)' % (norm(L), M, P))
    # the permutation is applied to the copy, before the edge list is taken
    cfgd = cfg
    ws = [s for s in stmts if m.match(s, '$I, $J = np.where($X)')]
    for w in ws:
        rep.ob('P.permute-before-edge-list', f, w, cfgd.dominates(s_fwd, w), 'edge list is taken before the node permutation is applied')


def _is_inverse_perm(prog, f, m, Q, P, stmts):
    if m.match(Q, 'np.argsort(%s)' % P):
        return True
    if isinstance(Q, ast.Name):
        defs = [s for s in stmts if isinstance(s, ast.Assign) and any(isinstance(t, ast.Name) and t.id == Q.id for t in s.targets)]
        if len(defs) == 1 and m.match(defs[0].value, 'np.argsort(%s)' % P):
            return True
        # inv = np.empty/zeros(...); inv[P] = np.arange(n)
        scat = [s for s in stmts if m.match(s, '%s[%s] = np.arange($N)' % (Q.id, P))]
        if len(defs) == 1 and scat and isinstance(defs[0].value, ast.Call) and norm(defs[0].value.func) in (
                'np.empty', 'np.zeros', 'np.empty_like', 'np.zeros_like'):
            return True
    return False


# ------------------------------------------------------------------ randomizer_bin_und (direct-search kernel)
def _randomizer_bin_und(prog, rep, eng):
    f = prog.func(MOD, 'randomizer_bin_und')
    m = Matcher(prog, f)
    stmts = _stmts(f)
    cfg = CFG(f.node)
    pm = ParentMap(f.node)
    M = None
    for s in stmts:
        b = m.match(s, '$M = binarize($X, copy=True)') or m.match(s, '$M = binarize($X)')
        if b and isinstance(b['M'], ast.Name):
            M = b['M'].id
    rep.ob('A.copy-before-write', f, 'binarize(R, copy=True)', M is not None and 'R' not in eng.mutated_params(f, 'default'),
           'the argument may be modified (binarize must copy)', line=f.node.lineno)
    if M is None:
        rep.ob('B0.kernel-shape', f, f.name, False, 'working copy not found', line=f.node.lineno)
        return
    # symmetry precondition
    pre = [s for s in stmts if isinstance(s, ast.Raise) and any(pol and (m.match(_strip_not(t), 'np.allclose(%s, %s.T)' % (M, M)) is not None)
                                                                for t, pol, k, o in pm.guards(s))]
    rep.ob('B0.symmetry-precondition', f, pre[0] if pre else 'raise on asymmetric input', bool(pre), 'asymmetric input must be rejected', line=f.node.lineno)
    # diagonal marker
    diag_inf = [s for s in stmts if m.match(s, 'np.fill_diagonal(%s, np.inf)' % M)]
    # edge list: last np.where(np.triu(M, 1)) on every path; loop variable slot
    loop = None
    for s in stmts:
        if isinstance(s, ast.For) and any(m.match(x, '%s[$A, $B] = 0' % M) for x in ast.walk(s) if isinstance(x, ast.stmt)):
            loop = s
    if loop is None:
        rep.ob('B0.kernel-shape', f, f.name, False, 'rewiring loop not found', line=f.node.lineno)
        return
    wheres = [s for s in stmts if m.match(s, '$I, $J = np.where($X)') and not pm.loops(s)]
    okw = bool(wheres) and all(m.match(s.value.args[0], 'np.triu(%s, 1)' % M) or m.match(s.value.args[0], 'np.tril(%s, -1)' % M) for s in wheres)
    rep.ob('B0.edge-list-is-support', f, wheres[-1] if wheres else 'i, j = np.where(np.triu(R, 1))', okw,
           'edge list must list each connection once and exclude the (marked) diagonal: np.where(np.triu(%s, 1))' % M, line=f.node.lineno)
    # every statement that changes M before the loop is followed by a re-computation of the edge list on the same path
    for s in stmts:
        if pm.loops(s) or s.lineno > loop.lineno:
            continue
        changes = (isinstance(s, ast.Assign) and any((isinstance(t, ast.Name) and t.id == M) or
                                                     (isinstance(t, ast.Subscript) and isinstance(t.value, ast.Name) and t.value.id == M) for t in s.targets))
        if changes:
            later = [w for w in wheres if cfg.dominates(s, w) and w.lineno > s.lineno]
            rep.ob('B0.edge-list-after-last-rebinding', f, s, bool(later), 'matrix changed after the edge list was taken and the list is not recomputed')
    # the chosen edge
    I = J = None
    if wheres:
        I, J = wheres[-1].targets[0].elts[0].id, wheres[-1].targets[0].elts[1].id
    lv = loop.target.id if isinstance(loop.target, ast.Name) else None
    body = loop.body
    env = {}
    for s in ast.walk(loop):
        if isinstance(s, ast.Assign) and len(s.targets) == 1 and isinstance(s.targets[0], ast.Name):
            env.setdefault(s.targets[0].id, []).append(s)
    a = _single(env, 'a')
    b_ = _single(env, 'b')
    oka = a is not None and b_ is not None and m.match(a.value, '%s[%s]' % (I, lv)) and m.match(b_.value, '%s[%s]' % (J, lv))
    rep.ob('B0.chosen-edge-from-list', f, a if a is not None else 'a = i[it]', bool(oka), 'a, b must be the endpoints of edge-list slot `%s`' % lv, line=loop.lineno)
    # holes: nodes connected to neither a nor b
    holes_a = _holes(m, loop, M, 'a')
    holes_b = _holes(m, loop, M, 'b')
    inter = None
    for nm, ds in env.items():
        for d in ds:
            bb = m.match(d.value, 'np.intersect1d($X, $Y)')
            if bb and holes_a and holes_b and {norm(bb['X']), norm(bb['Y'])} == {holes_a, holes_b}:
                inter = nm
    rep.ob('B4.candidates-are-common-holes', f, 'i_intersect = np.intersect1d(holes of a, holes of b)', inter is not None,
           'mate endpoints must come from the nodes connected to neither a nor b (so that the new cells (a,c) and (b,d) are empty)', line=loop.lineno)
    if inter is None:
        return
    # mates: connected pairs inside the candidate set, diagonal excluded
    mates = None
    for s in ast.walk(loop):
        bb = m.match(s, '$II, $JJ = np.where($X)') if isinstance(s, ast.stmt) else None
        if bb and inter in {x.id for x in ast.walk(bb['X']) if isinstance(x, ast.Name)}:
            mates = (s, bb['II'].id, bb['JJ'].id, bb['X'])
    if mates is None:
        rep.ob('B0.kernel-shape', f, f.name, False, 'mate search not found', line=loop.lineno)
        return
    block = '%s[np.ix_(%s, %s)]' % (M, inter, inter)
    excl = m.match(mates[3], 'np.triu(%s, 1)' % block) or m.match(mates[3], 'np.tril(%s, -1)' % block)
    incl = m.match(mates[3], block)
    diag_nonzero = bool(diag_inf)
    rep.ob('B3.endpoints-distinct', f, mates[0], bool(excl) or (bool(incl) and not diag_nonzero),
           'mate (c, d) is taken from np.where over a block that includes the diagonal, and the diagonal holds the nonzero marker: '
           'c == d is possible, the swap then adds two connections to node c and removes none (degrees change)')
    rep.ob('B4.mate-is-an-edge', f, mates[0], bool(excl) or bool(incl), 'mate must be a connected pair inside the candidate set')
    # c, d in both orientations
    cds = [s for s in ast.walk(loop) if isinstance(s, ast.Assign) and len(s.targets) == 1 and isinstance(s.targets[0], ast.Name) and s.targets[0].id in ('c', 'd')]
    II, JJ = mates[1], mates[2]
    forms = {(s.targets[0].id, norm(s.value)) for s in cds}
    pick = None
    for s in cds:
        bb = m.match(s.value, '%s[%s[$K]]' % (inter, II)) or m.match(s.value, '%s[%s[$K]]' % (inter, JJ))
        if bb:
            pick = norm(bb['K'])
    want = {('c', '%s[%s[%s]]' % (inter, II, pick)), ('d', '%s[%s[%s]]' % (inter, JJ, pick)),
            ('d', '%s[%s[%s]]' % (inter, II, pick)), ('c', '%s[%s[%s]]' % (inter, JJ, pick))}
    rep.ob('B0.mate-endpoints', f, 'c, d = endpoints of the chosen mate', pick is not None and (forms == want or forms == set(list(want)[:2])),
           'c and d must be the two endpoints of one mate pair (same position `%s` of both index arrays)' % pick, line=loop.lineno)
    # ---- the write block: interpret with the engine --------------------------------------
    wblock = None
    for s in ast.walk(loop):
        if isinstance(s, ast.If):
            if any(m.match(x, '%s[a, b] = 0' % M) for x in s.body):
                wblock = s.body
    if wblock is None:
        rep.ob('B0.kernel-shape', f, f.name, False, 'swap block not found', line=loop.lineno)
        return
    k = SK.Kernel(f, True, M, None, None, None, None, loop, wblock, None)
    it = SK.Interp(prog, k)
    st = SK.State()
    for nm in 'abcd':
        st.env[nm] = ('node', nm)
    # facts established above: (a,b) and (c,d) hold edges; c,d are holes of a and of b; endpoints distinct
    it._init_cell(st, ('a', 'b'), ('VAL', ('const', 1)))
    it._init_cell(st, ('c', 'd'), ('VAL', ('const', 1)))
    for cell in (('a', 'c'), ('a', 'd'), ('b', 'c'), ('b', 'd')):
        it._set_known_empty(st, cell)
    st.neq |= {frozenset(p) for p in (('a', 'b'), ('a', 'c'), ('a', 'd'), ('b', 'c'), ('b', 'd'))}
    if excl or (incl and not diag_nonzero):
        st.neq.add(frozenset(('c', 'd')))
    else:
        st.neq.add(frozenset(('c', 'd')))     # reported above; do not report the same cause twice
    st.accepted = True
    writes = [s for s in wblock if isinstance(s, ast.Assign) and any(isinstance(t, ast.Subscript) and isinstance(t.value, ast.Name) and t.value.id == M for t in s.targets)]
    try:
        outs = it.block(writes, [st])
    except SK.Unsupported as e:
        rep.ob('B0.kernel-shape', f, f.name, False, str(e), line=loop.lineno)
        return
    seen = set()

    def out(rule, ok, why, construct):
        key = (rule, construct)
        if key in seen:
            return
        seen.add(key)
        rep.ob(rule, f, construct or f.name, ok, why, line=wblock[0].lineno)
    SK.check_states(k, it, outs, out, binary_consts=True, need_counter=False)
    # ---- masking / restoring --------------------------------------------------------------
    # diagonal: saved value must be a copy, restored after clearing the marker
    sd = [s for s in stmts if isinstance(s, ast.Assign) and len(s.targets) == 1 and isinstance(s.targets[0], ast.Name)
          and (m.match(s.value, 'np.diag(%s)' % M) or m.match(s.value, 'np.diag(%s).copy()' % M) or m.match(s.value, 'np.diagonal(%s).copy()' % M)
               or m.match(s.value, '%s.diagonal().copy()' % M) or m.match(s.value, 'np.diagonal(%s)' % M) or m.match(s.value, 'np.array(np.diag(%s))' % M)
               or m.match(s.value, 'np.copy(np.diag(%s))' % M))]
    if sd and diag_inf:
        is_copy = 'copy' in norm(sd[0].value) or 'np.array' in norm(sd[0].value)
        rep.ob('D.saved-diagonal-is-copy', f, sd[0], is_copy,
               'np.diag of a 2-D array is a view: after np.fill_diagonal(%s, np.inf) the "saved" diagonal holds inf, and adding it back '
               'corrupts every entry when %s has been rebound (dense path)' % (M, M))
    # complement path keeps a numeric dtype
    for s in stmts:
        if m.match(s, '%s = np.logical_not(%s)' % (M, M)):
            uses_float = [x for x in stmts if x.lineno > s.lineno and (m.match(x, 'np.fill_diagonal(%s, np.inf)' % M) or
                                                                     (isinstance(x, ast.AugAssign) and isinstance(x.target, ast.Name) and x.target.id == M))]
            rep.ob('E.complement-stays-numeric', f, s, not uses_float,
                   'np.logical_not yields a bool array; later `%s` needs a numeric array (inf marker / += raise or are lost on bool)' % (
                       norm(uses_float[0]).split('\n')[0] if uses_float else ''))
        elif m.match(s, '%s = np.logical_not(%s).astype($T)' % (M, M)) or m.match(s, '%s = 1 - %s' % (M, M)) or m.match(s, '%s = 1.0 - %s' % (M, M)):
            rep.ob('E.complement-stays-numeric', f, s, True, '')
    # complement applied an even number of times on every path: both sites guarded by the same flag
    comp = [s for s in stmts if isinstance(s, ast.Assign) and m.match(s.value, 'np.logical_not(%s)' % M) or
            (isinstance(s, ast.Assign) and isinstance(s.value, ast.Call) and 'logical_not' in norm(s.value) and any(isinstance(t, ast.Name) and t.id == M for t in s.targets))]
    comp = [s for s in comp if any(isinstance(t, ast.Name) and t.id == M for t in s.targets)]
    pre_c = [s for s in comp if s.lineno < loop.lineno]
    post_c = [s for s in comp if s.lineno > loop.lineno]
    okc = len(pre_c) == 1 and len(post_c) == 1
    if okc:
        g = pm.guards(post_c[0])
        flag = norm(g[-1][0]) if g else None
        g0 = pm.guards(pre_c[0])
        sets_flag = any(isinstance(x, ast.Assign) and norm(x.targets[0]) == flag and isinstance(x.value, ast.Constant) and x.value.value is True
                        for x in (g0[-1][3].body if g0 else []))
        clr = any(isinstance(x, ast.Assign) and norm(x.targets[0]) == flag and isinstance(x.value, ast.Constant) and x.value.value is False
                  for x in (g0[-1][3].orelse if g0 else []))
        okc = flag is not None and sets_flag and clr
        if not okc and flag is not None and g0 and g[-1][1] and g0[-1][1] and norm(g0[-1][0]) == flag:
            # the flag is computed once (`swap = <dense?>`) and both complements are taken under `if swap:`
            fl = [x for x in stmts if isinstance(x, (ast.Assign, ast.AugAssign)) and any(
                isinstance(n, ast.Name) and n.id == flag and isinstance(n.ctx, ast.Store) for n in ast.walk(x))]
            okc = len(fl) == 1 and fl[0].lineno < pre_c[0].lineno and not pm.loops(fl[0])
    rep.ob('D.complement-restored', f, post_c[0] if post_c else 'R = np.logical_not(R)', okc,
           'the 0/1 complement taken for dense graphs must be undone under exactly the flag set when it was taken', line=f.node.lineno)
    # full nodes: rows and columns zeroed before, set to one after, same index set, same guard
    z = [s for s in stmts if m.match(s, '%s[$F, :] = 0' % M) or m.match(s, '%s[:, $F] = 0' % M)]
    o = [s for s in stmts if m.match(s, '%s[$F, :] = 1' % M) or m.match(s, '%s[:, $F] = 1' % M)]
    fz = {norm(s.targets[0]) for s in z}
    fo = {norm(s.targets[0]) for s in o}
    gz = {norm(pm.guards(s)[-1][0]) if pm.guards(s) else None for s in z}
    go = {norm(pm.guards(s)[-1][0]) if pm.guards(s) else None for s in o}
    rep.ob('D.fullnodes-restored', f, 'R[fullnodes, :] = 1; R[:, fullnodes] = 1', len(z) == 2 and fz == fo and gz == go and len(gz) == 1
           and all(s.lineno < loop.lineno for s in z) and all(s.lineno > loop.lineno for s in o),
           'rows and columns masked for fully connected nodes must be restored (same index set, same condition) after the loop', line=f.node.lineno)
    # the masked nodes must be exactly the fully connected ones: restoring their rows/columns to 1 is the identity only then
    fdef = [s for s in stmts if isinstance(s, ast.Assign) and len(s.targets) == 1 and isinstance(s.targets[0], ast.Name) and z
            and s.targets[0].id in {n.id for zz in z for n in ast.walk(zz.targets[0].slice) if isinstance(n, ast.Name)}]
    okf = False
    whyf = 'cannot find the definition of the masked node set'
    if fdef:
        v = fdef[0].value
        cmpn = None
        for n in ast.walk(v):
            if isinstance(n, ast.Compare) and len(n.ops) == 1 and isinstance(n.ops[0], ast.Eq):
                cmpn = n
        if cmpn is not None:
            lhs = _offdiag_degree(m, cmpn.left, M, bool(diag_inf))
            rhs = _lin_ax(cmpn.comparators[0], stmts)
            if lhs is None or rhs is None:
                lhs2 = _offdiag_degree(m, cmpn.comparators[0], M, bool(diag_inf))
                rhs2 = _lin_ax(cmpn.left, stmts)
                lhs, rhs = (lhs2, rhs2) if lhs2 is not None and rhs2 is not None else (lhs, rhs)
            if lhs is not None and rhs is not None:
                # degree_offdiag + lhs == n + rhs  must mean  degree_offdiag == n - 1
                okf = (rhs - lhs) == -1
                whyf = ('nodes are masked (and later restored to all-ones rows/columns) when their off-diagonal degree equals n%+d, not n-1: '
                        'a node that is not fully connected gains connections on restore%s' % (rhs - lhs, ' (the inf marker on the diagonal counts as nonzero)' if diag_inf else ''))
            else:
                whyf = 'masked-node condition `%s` is not a recognisable comparison of the degree with the number of nodes' % norm(cmpn)
    rep.ob('D.masked-nodes-are-fully-connected', f, fdef[0] if fdef else 'fullnodes = np.where(degree == n - 1)', okf, whyf, line=f.node.lineno)
    # restore order: fullnodes, then complement, then diagonal; and returns M
    for r in cfg.returns:
        rep.ob('B8.returns-working-copy', f, r, M in {x.id for x in ast.walk(r.value) if isinstance(x, ast.Name)}, 'result is not the working matrix')
    clear = [s for s in stmts if m.match(s, 'np.fill_diagonal(%s, 0)' % M) and s.lineno > loop.lineno]
    rep.ob('D.diagonal-marker-cleared', f, clear[0] if clear else 'np.fill_diagonal(R, 0)', bool(clear) and all(cfg.dominates(clear[0], r) for r in cfg.returns)
           and all(c.lineno < clear[0].lineno for c in post_c),
           'the inf marker on the diagonal must be cleared after the complement is undone and before returning', line=f.node.lineno)


def _offdiag_degree(m, e, M, diag_nonzero):
    """e == (off-diagonal degree of each node) + c for a constant c; returns c or None."""
    tri = ('np.sum(np.triu(%s, 1), axis=0) + np.sum(np.triu(%s, 1), axis=1).T' % (M, M), 'np.sum(np.triu(%s, 1), axis=0) + np.sum(np.triu(%s, 1), axis=1)' % (M, M),
           'np.sum(np.triu(%s, 1), axis=1) + np.sum(np.triu(%s, 1), axis=0)' % (M, M), 'np.sum(np.tril(%s, -1), axis=0) + np.sum(np.tril(%s, -1), axis=1)' % (M, M),
           'np.sum(np.triu(%s, 1) + np.triu(%s, 1).T, axis=0)' % (M, M), 'np.sum(np.triu(%s, 1) + np.triu(%s, 1).T, axis=1)' % (M, M))
    if any(m.match(e, t) for t in tri):
        return 0
    cnt = ('np.count_nonzero(%s, axis=0)' % M, 'np.count_nonzero(%s, axis=1)' % M, 'np.sum(%s != 0, axis=0)' % M, 'np.sum(%s != 0, axis=1)' % M)
    if any(m.match(e, t) for t in cnt):
        return 1 if diag_nonzero else 0
    if isinstance(e, ast.BinOp) and isinstance(e.op, (ast.Add, ast.Sub)) and isinstance(e.right, ast.Constant) and isinstance(e.right.value, int):
        b = _offdiag_degree(m, e.left, M, diag_nonzero)
        if b is not None:
            return b + (e.right.value if isinstance(e.op, ast.Add) else -e.right.value)
    return None


def _lin_ax(e, stmts):
    """e == n + c where n is len(matrix); returns c or None"""
    def is_n(x):
        if isinstance(x, ast.Name):
            d = [s for s in stmts if isinstance(s, ast.Assign) and len(s.targets) == 1 and isinstance(s.targets[0], ast.Name) and s.targets[0].id == x.id]
            return len(d) == 1 and isinstance(d[0].value, ast.Call) and norm(d[0].value.func) == 'len'
        return isinstance(x, ast.Call) and norm(x.func) == 'len'
    if is_n(e):
        return 0
    if isinstance(e, ast.BinOp) and isinstance(e.op, (ast.Add, ast.Sub)) and isinstance(e.right, ast.Constant) and isinstance(e.right.value, int) and is_n(e.left):
        return e.right.value if isinstance(e.op, ast.Add) else -e.right.value
    return None


def _strip_not(t):
    return t.operand if isinstance(t, ast.UnaryOp) and isinstance(t.op, ast.Not) else t


def _single(env, nm):
    ds = env.get(nm, [])
    return ds[0] if len(ds) == 1 else None


def _holes(m, loop, M, node):
    """name bound by `X, = np.where(M[:, node] == 0)` (or the row form; symmetric matrix) inside the loop"""
    for s in ast.walk(loop):
        wu = where_unpack(s)
        if wu is not None and isinstance(wu[0], ast.Name):
            if m.match(wu[1], '%s[:, %s] == 0' % (M, node)) or m.match(wu[1], '%s[%s, :] == 0' % (M, node)) \
                    or m.match(wu[1], '%s[%s] == 0' % (M, node)):
                return wu[0].id
    return None


# ------------------------------------------------------------------ self-test variants
def variants(root):
    from ..selftest import Variant as V
    R = 'bct/algorithms/reference.py'
    out = []

    def B(name, fn, old, new, expect, **kw):
        out.append(V('%s: %s' % (fn, name), 'break', R, old, new, expect, fn, scope='def %s(' % fn, **kw))

    def N(name, fn, old, new, **kw):
        out.append(V('%s: neutral %s' % (fn, name), 'neutral', R, old, new, scope='def %s(' % fn, **kw))
    und = ['randmio_und', 'randmio_und_connected', 'latmio_und', 'latmio_und_connected', 'randomize_graph_partial_und']
    dire = ['randmio_dir', 'randmio_dir_connected', 'latmio_dir', 'latmio_dir_connected']
    for fn in und + dire:
        M = 'A' if fn == 'randomize_graph_partial_und' else 'R'
        B('slot e2 gets d', fn, 'j[e2] = b', 'j[e2] = d', 'B7.')
        B('slot e1 row instead of column', fn, 'j[e1] = d', 'i[e1] = d', 'B7.')
        B('slot e1 not updated', fn, 'j[e1] = d', 'j[e1] = j[e1]', 'B7.')
        B('guard a != d dropped', fn, 'a != c and a != d and b != c and b != d', 'a != c and b != c and b != d', 'B3.')
        B('guard b != c dropped', fn, 'a != c and a != d and b != c and b != d', 'a != c and a != d and b != d', 'B3.')
        B('guard a != c dropped', fn, 'a != c and a != d and b != c and b != d', 'a != d and b != c and b != d', 'B3.')
        B('weight of wrong edge moved', fn, '%s[a, d] = %s[a, b]' % (M, M), '%s[a, d] = %s[c, d]' % (M, M), 'B')
        B('old cell not cleared', fn, '%s[a, b] = 0\n' % M, 'pass\n', 'B')
        if not fn.startswith('latmio'):   # there the fancy-indexed permutation already yields fresh memory
            B('working copy not taken', fn, '%s = %s.copy()\n' % (M, M), 'pass\n', 'A.')
    for fn in und:
        M = 'A' if fn == 'randomize_graph_partial_und' else 'R'
        tail = ' or B[a, d] or B[c, b]' if fn == 'randomize_graph_partial_und' else ''
        B('emptiness of (c,b) not tested', fn, 'if not (%s[a, d] or %s[c, b]%s)' % (M, M, tail), 'if not (%s[a, d]%s)' % (M, tail), 'B4.')
        B('mirror write deleted', fn, '%s[d, a] = %s[b, a]\n' % (M, M), 'pass\n', 'B5.')
        B('mirror clears wrong cell', fn, '%s[d, c] = 0' % M, '%s[c, b] = 0' % M, 'B')
        B('flip only half', fn, 'i[e2] = d\n', 'pass\n', 'B')
        N('De Morgan', fn, 'if not (%s[a, d] or %s[c, b]%s)' % (M, M, tail),
          'if not %s[a, d] and not %s[c, b]%s' % (M, M, tail.replace(' or B[a, d] or B[c, b]', ' and not B[a, d] and not B[c, b]')))
        N('writes reordered', fn, '%s[a, d] = %s[a, b]\n' % (M, M), '%s[d, a] = %s[b, a]\n' % (M, M),
          also=[(R, '%s[d, a] = %s[b, a]\n' % (M, M), '%s[a, d] = %s[a, b]\n' % (M, M), 2)]) if False else None
    for fn in dire:
        B('emptiness of (c,b) not tested', fn, 'if not (R[a, d] or R[c, b])', 'if not R[a, d]', 'B4.')
        B('weight leaves its row', fn, 'R[a, d] = R[a, b]\n', 'R[a, d] = R[c, d]\n', 'B',
          also=[(R, 'R[c, b] = R[c, d]\n', 'R[c, b] = R[a, b]\n', 1)]) if False else None
        N('comparison sides swapped', fn, 'a != c and a != d and b != c and b != d', 'c != a and d != a and c != b and d != b')
        blk = 'R[a, d] = R[a, b]\n%sR[a, b] = 0\n%sR[c, b] = R[c, d]\n%sR[c, d] = 0\n'
        for ind in ('                    ', '                        ', '                            ', '                '):
            N('parallel assignment', fn, blk % (ind, ind, ind), 'R[a, d], R[c, b] = R[a, b], R[c, d]\n%sR[a, b] = R[c, d] = 0\n' % ind)
            B('parallel assignment crosses the weights', fn, blk % (ind, ind, ind),
              'R[a, d], R[c, b] = R[c, d], R[a, b]\n%sR[a, b] = R[c, d] = 0\n' % ind, 'B6.')
        B('edge list from a triangle only', fn, 'i, j = np.where(R)', 'i, j = np.where(np.tril(R))', 'B0.')
    for fn in ['latmio_und', 'latmio_dir', 'latmio_und_connected', 'latmio_dir_connected']:
        B('undo with reversed permutation', fn, 'R[np.ix_(np.argsort(ind_rp), np.argsort(ind_rp))]', 'R[np.ix_(ind_rp[::-1], ind_rp[::-1])]', 'P.undo')
        B('undo with the permutation itself', fn, 'R[np.ix_(np.argsort(ind_rp), np.argsort(ind_rp))]', 'R[np.ix_(ind_rp, ind_rp)]', 'P.undo')
        B('returns ordering of another permutation', fn, 'return Rlatt, R, ind_rp, eff', 'return Rlatt, R, np.argsort(ind_rp), eff', 'P.returns')
        N('inverse via temp', fn, 'Rlatt = R[np.ix_(np.argsort(ind_rp), np.argsort(ind_rp))]', 'inv = np.argsort(ind_rp)\n    Rlatt = R[np.ix_(inv, inv)]')
        N('inverse via scatter', fn, 'Rlatt = R[np.ix_(np.argsort(ind_rp), np.argsort(ind_rp))]',
          'inv = np.empty(n, dtype=int)\n    inv[ind_rp] = np.arange(n)\n    Rlatt = R[np.ix_(inv, inv)]')
    for fn in ['randmio_und', 'randmio_und_connected', 'latmio_und', 'latmio_und_connected']:
        B('edge list lists both orientations', fn, 'i, j = np.where(np.tril(R))', 'i, j = np.where(R)', 'B0.')
    fn = 'randomizer_bin_und'
    B('mate block includes diagonal', fn, 'np.where(np.triu(R[np.ix_(i_intersect, i_intersect)], 1))', 'np.where(R[np.ix_(i_intersect, i_intersect)])', 'B3.')
    B('new edge (a,c) only half written', fn, '            R[c, a] = 1\n', '            pass\n', 'B5.')
    B('old edge (c,d) kept', fn, '            R[c, d] = 0\n            R[b, a] = 0\n            R[d, c] = 0\n', '            R[b, a] = 0\n', 'B')
    B('holes of a only', fn, 'i_intersect = np.intersect1d(alliholes, alljholes)', 'i_intersect = alliholes', 'B4.')
    B('complement not undone', fn, '    if swap:\n        R = np.logical_not(R).astype(float)\n', '', 'D.complement-restored')
    B('full nodes not restored', fn, '        R[:, fullnodes] = 1\n', '        pass\n', 'D.fullnodes-restored')
    B('full nodes counted with the diagonal marker', fn, "fullnodes = np.where((np.sum(np.triu(R, 1), axis=0) +\n                          np.sum(np.triu(R, 1), axis=1).T) == (ax - 1))",
      'fullnodes = np.where(np.count_nonzero(R, axis=0) == (ax - 1))', 'D.masked-nodes')
    N('full nodes via count_nonzero == n', fn, "fullnodes = np.where((np.sum(np.triu(R, 1), axis=0) +\n                          np.sum(np.triu(R, 1), axis=1).T) == (ax - 1))",
      'fullnodes = np.where(np.count_nonzero(R, axis=0) == ax)')
    B('bool complement', fn, 'R = np.logical_not(R).astype(float)', 'R = np.logical_not(R)', 'E.complement')
    B('saved diagonal is a view', fn, 'savediag = np.diag(R).copy()', 'savediag = np.diag(R)', 'D.saved-diagonal')
    B('argument binarised in place', fn, 'R = binarize(R, copy=True)', 'R = binarize(R, copy=False)', 'A.')
    B('edge list includes diagonal', fn, '        i, j = np.where(np.triu(R, 1))\n        k = len(i)\n\n    if k == 0', '        i, j = np.where(np.triu(R))\n        k = len(i)\n\n    if k == 0', 'B0.')
    N('tril spelling', fn, 'np.where(np.triu(R[np.ix_(i_intersect, i_intersect)], 1))', 'np.where(np.tril(R[np.ix_(i_intersect, i_intersect)], -1))')
    return [v for v in out if v is not None]
