"""C19 - NBS reports true suprathreshold components and correct permutation p-values.

Decided for bct/nbs.py and its sibling bct/nbs_parallel.py:
 P  same-source: the array compared in the p-value expression is the array returned as the null distribution; the
    comparison is `null >= size` (non-strict, null on the greater side); the divisor is the number of permutations;
 T  ttest2_stat_only / ttest_paired_stat_only canonicalise to the pooled-variance and paired t statistics; tails:
    'both' -> abs, 'left' -> negated, otherwise identity; the accepted tail strings are validated at entry;
 H  the threshold is applied with strict `>` to the observed and to the permuted statistics;
 L  component i is labelled i+1 in adj and its size (edge count) is computed from the same node set before relabelling;
 F  the permutation branch mirrors the observed branch (same statistic, same threshold, same component sizing; the null
    entry is the maximum component size or 0);
 S  the two modules agree on all of the above.
"""
import ast

import sympy as sp

from ..core import spelling
from ..core.astutil import where_unpack, cn, norm, ParentMap
from ..core.cfg import CFG
from ..core.loader import walk_no_nested
from ..core.pattern import Matcher
from .C09 import result_term, _eq

T2_REF = '''
t = np.mean(x) - np.mean(y)
n1 = len(x)
n2 = len(y)
s = np.sqrt(((n1 - 1) * np.var(x, ddof=1) + (n2 - 1) * np.var(y, ddof=1)) / (n1 + n2 - 2))
C = t / (s * np.sqrt(1 / n1 + 1 / n2))
'''
TP_REF = '''
n = len(A - B)
C = np.mean(A - B) / np.sqrt((np.sum((A - B) ** 2) - np.sum(A - B) ** 2 / n) / (n - 1)) * np.sqrt(n)
'''


def _stmts(node):
    return [n for n in walk_no_nested(node) if isinstance(n, ast.stmt)]


def _find(prog, modname, name):
    m = prog.module(modname)
    for q, f in m.functions.items():
        if f.name == name:
            return f
    return None


def check(prog, rep):
    rep.explanation = (
        'Same-source and formula obligations for the network-based statistic: the p-value loop must read the very array that is returned as '
        'the null distribution, with `null >= observed size` and divisor k; both t statistics are value-numbered and compared with the textbook '
        'pooled-variance / paired formulas, their tail handling is checked branch by branch against the validated tail strings; the strict '
        'threshold, the component labelling (i+1) and the edge-count sizing from one node set are matched in the observed branch, and the '
        'permutation branch must mirror it; nbs.py and nbs_parallel.py must agree. Correctness of component finding is C16; statistical '
        'validity is not decided.')
    rep.assume('get_components returns labels 1..m and sizes in label order (property C16)')
    feats = {}
    for modname in ('bct.nbs', 'bct.nbs_parallel'):
        if modname not in prog.modules:
            rep.error('module %s missing' % modname)
            continue
        feats[modname] = _module(prog, rep, modname)
    a, b = feats.get('bct.nbs'), feats.get('bct.nbs_parallel')
    if a and b:
        for key in sorted(set(a) | set(b)):
            rep.ob('S.siblings-agree', ('bct/nbs.py + bct/nbs_parallel.py', 'nbs_bct'), '%s: %s | %s' % (key, a.get(key), b.get(key)), a.get(key) == b.get(key),
                   'the serial and the parallel implementation disagree on %s' % key, line=0)
    rep.floor('P.', 6)
    rep.floor('T.', 10)
    rep.floor('H.', 4)
    rep.floor('L.', 4)


def _module(prog, rep, modname):
    f = _find(prog, modname, 'nbs_bct')
    m = Matcher(prog, f)
    cfg = CFG(f.node)
    feats = {}
    stmts = _stmts(f.node)
    # ---------------- T: t statistics
    for tname, ref, params in (('ttest2_stat_only', T2_REF, ('x', 'y')), ('ttest_paired_stat_only', TP_REF, ('A', 'B'))):
        g = _find(prog, modname, tname)
        if g is None:
            rep.ob('T.statistic-present', f, tname, False, 'helper %s not found' % tname, line=f.node.lineno)
            continue
        body = [s for s in g.node.body if not isinstance(s, (ast.If, ast.Return)) and not (isinstance(s, ast.Expr) and isinstance(s.value, ast.Constant))]
        env, vn = result_term(prog, g, body)
        renv, _ = result_term(prog, g, spelling.parse(ref).body, param_map={params[0]: g.params[0], params[1]: g.params[1]})
        want = renv.get('C')
        # returns by tail
        gm = Matcher(prog, g)
        pm = ParentMap(g.node)
        rets = CFG(g.node).returns
        tails = {}
        for r in rets:
            guards = [(norm(t), pol) for t, pol, k, o in pm.guards(r)]
            key = None
            for t, pol in guards:
                for tl in ('both', 'left', 'right'):
                    if t in ("tail == '%s'" % tl, "'%s' == tail" % tl) and pol:
                        key = tl
            zero_guard = any(t in ('denom == 0', '0 == denom') and pol for t, pol in guards)
            if zero_guard:
                tails['zero-variance'] = r
                continue
            if key is None:
                key = 'else'
            tails[key] = r
        vn2 = vn
        ok_tail = True
        for key, r in sorted(tails.items()):
            if key == 'zero-variance':
                rep.ob('T.zero-variance-gives-zero', g, r, norm(r.value) == '0', 'an edge with zero pooled variance must get statistic 0, not nan')
                continue
            term = vn2.term(r.value)
            if key == 'both':
                okk = isinstance(term, sp.Function) and term.func.__name__ == 'np.abs' and _eq(term.args[0], want) or \
                    (isinstance(term, sp.Function) and term.func.__name__ == 'np.abs' and _eq(-term.args[0], want))
                why = "tail 'both' must return |t|"
            elif key == 'left':
                okk = _eq(-term, want)
                why = "tail 'left' must return -t"
            else:
                okk = _eq(term, want)
                why = "tail 'right' must return t"
            rep.ob('T.%s-tail-%s' % (tname.split('_')[0] + ('-paired' if 'paired' in tname else ''), key), g, r, bool(okk),
                   '%s, with t the %s statistic (got %s)' % (why, 'paired' if 'paired' in tname else 'pooled-variance two-sample', str(term)[:100]))
        rep.ob('T.tails-exhaustive', g, 'tail branches: %s' % sorted(tails), {'both', 'left', 'else'} <= set(tails) or {'both', 'left', 'right'} <= set(tails),
               'the statistic must distinguish both / left / right', line=g.node.lineno)
        feats['tails:' + tname] = sorted(k for k in tails)
    val = [s for s in stmts if isinstance(s, ast.If) and any(isinstance(x, ast.Raise) for x in s.body) and 'tail' in norm(s.test)]
    okv = bool(val) and m.match(val[0].test, "tail not in ('both', 'left', 'right')") is not None
    rep.ob('T.tail-strings-validated', f, val[0].test if val else "if tail not in ('both','left','right'): raise", okv, 'unknown tail strings must be rejected at entry', line=f.node.lineno)
    # ---------------- H: thresholds
    th = [s for s in ast.walk(f.node) if where_unpack(s) is not None
          and isinstance(s.value.args[0], ast.Compare) and 'thresh' in norm(s.value.args[0])]
    worker = _find(prog, modname, '_permutation')
    if worker is not None:
        th += [s for s in ast.walk(worker.node) if where_unpack(s) is not None
               and isinstance(s.value.args[0], ast.Compare) and 'thresh' in norm(s.value.args[0])]
    forms = []
    for s in th:
        c = s.value.args[0]
        strict = isinstance(c.ops[0], ast.Gt) and norm(c.comparators[0]) == 'thresh' or isinstance(c.ops[0], ast.Lt) and norm(c.left) == 'thresh'
        forms.append(strict)
        rep.ob('H.threshold-strict', f, s, strict, 'connections must be kept when their statistic *exceeds* the threshold (strict >), in the observed and in the permuted data alike')
    rep.ob('H.threshold-in-both-branches', f, 'threshold sites: %d' % len(th), len(th) == 2, 'expected one threshold test for the observed and one for the permuted statistics', line=f.node.lineno)
    feats['threshold'] = forms
    # ---------------- L: labelling / sizes in the observed branch
    sizing = [s for s in stmts if isinstance(s, ast.Assign) and m.match(s, 'sz_links[$I] = np.sum(adj[np.ix_($N, $N)]) / 2')]
    lab = [s for s in stmts if m.match(s, 'adj[np.ix_($N, $N)] *= $I + 2')]
    dec = [s for s in stmts if m.match(s, 'adj[np.where(adj)] -= 1')]
    nodes = [s for s in stmts if m.match(s, '$N, = np.where(ind_sz[$I] == a)') or m.match(s, '$N, = np.where(a == ind_sz[$I])')]
    okL = len(sizing) == 1 and len(lab) == 1 and len(dec) == 1 and sizing[0].lineno < lab[0].lineno < dec[0].lineno
    if okL:
        pm = ParentMap(f.node)
        same_loop = pm.loops(sizing[0])[:1] == pm.loops(lab[0])[:1] and bool(pm.loops(sizing[0]))
        bs, bl = m.match(sizing[0], 'sz_links[$I] = np.sum(adj[np.ix_($N, $N)]) / 2'), m.match(lab[0], 'adj[np.ix_($N, $N)] *= $I + 2')
        okL = same_loop and norm(bs['I']) == norm(bl['I']) and norm(bs['N']) == norm(bl['N']) and not pm.loops(dec[0])
    rep.ob('L.component-labelled-i-plus-1', f, '; '.join(norm(x) for x in lab + dec), okL,
           'component i must be multiplied by i+2 and all nonzero entries decremented once afterwards: label i+1', line=f.node.lineno)
    rep.ob('L.size-from-same-node-set-before-relabelling', f, sizing[0] if sizing else 'sz_links[i] = np.sum(adj[np.ix_(nodes, nodes)]) / 2', okL,
           'the edge count must be taken from the same node set, while adj still holds 0/1', line=f.node.lineno)
    ind = [s for s in stmts if m.match(s, 'ind_sz, = np.where(sz > 1)')]
    inc = [s for s in stmts if m.match(s, 'ind_sz += 1')]
    rep.ob('L.component-labels-from-sizes', f, '; '.join(norm(x) for x in ind[:1] + inc[:1]), len(ind) >= 1 and len(inc) >= 1,
           'components with more than one node are the labels (1-based) whose size exceeds 1', line=f.node.lineno)
    sym = [s for s in stmts if m.match(s, 'adj = adj + adj.T')]
    fill = [s for s in stmts if m.match(s, 'adj[ixes[0][ind_t], ixes[1][ind_t]] = 1')]
    rep.ob('L.suprathreshold-adjacency', f, '; '.join(norm(x) for x in fill + sym), len(sym) == 1 and len(fill) == 1,
           'adjacency must hold exactly the thresholded upper-triangular connections, mirrored', line=f.node.lineno)
    feats['label'] = (norm(lab[0]) if lab else None, norm(dec[0]) if dec else None)
    # ---------------- P: p-values
    ret = cfg.returns[-1] if cfg.returns else None
    okP = False
    null_ret = None
    if ret is not None and isinstance(ret.value, ast.Tuple) and len(ret.value.elts) == 3:
        null_ret = norm(ret.value.elts[2])
        rep.ob('P.returns-pvals-adj-null', f, ret, norm(ret.value.elts[1]) == 'adj', 'must return (pvals, adj, null)')
    # the count of null values >= size (null is a vector): np.size(np.where(c)), np.count_nonzero(c) (canonical for flatnonzero(c).size), np.sum(c)
    PV = ('pvals[$I] = np.size(np.where($NULL >= sz_links[$I])) / $K', 'pvals[$I] = np.count_nonzero($NULL >= sz_links[$I]) / $K',
          'pvals[$I] = np.sum($NULL >= sz_links[$I]) / $K')

    def pvm(s):
        for t in PV:
            b_ = m.match(s, t)
            if b_ is not None:
                return b_
        return None
    pv = [s for s in stmts if isinstance(s, ast.Assign) and pvm(s) is not None]
    alt = [s for s in stmts if isinstance(s, ast.Assign) and isinstance(s.targets[0], ast.Subscript) and norm(s.targets[0].value) == 'pvals']
    if pv:
        b = pvm(pv[0])
        rd = norm(b['NULL'])
        rep.ob('P.pvalue-reads-the-returned-null', f, pv[0], rd == null_ret,
               'p-values are computed from `%s` but the array returned as the null distribution is `%s`: the reported p-values are unrelated to the reported null' % (rd, null_ret))
        rep.ob('P.pvalue-divisor-is-k', f, pv[0], norm(b['K']) == 'k', 'the fraction must be taken over the k permutations')
        feats['pvalue'] = 'null >= size / k'
    rep.ob('P.pvalue-form', f, alt[0] if alt else 'pvals[i] = #(null >= size_i) / k', len(pv) == 1 and len(alt) == 1,
           'p-value of component i must be the fraction of null values that are >= its size (non-strict, null on the greater side)', line=f.node.lineno)
    # the returned null must be filled with max component size per permutation (or 0)
    scope = worker.node if worker is not None else f.node
    wm = Matcher(prog, worker if worker is not None else f)
    st = [s for s in ast.walk(scope) if isinstance(s, ast.Assign) and isinstance(s.targets[0], ast.Subscript) and norm(s.targets[0].value) == 'null']
    vals = sorted(norm(s.value) for s in st)
    rep.ob('F.null-entry-is-max-component-size-or-zero', f, '; '.join(norm(s) for s in st), vals == ['0', 'np.max(sz_links_perm)'],
           'each null entry must be the largest permuted component size, or 0 when no component exists', line=f.node.lineno)
    feats['null-entry'] = vals
    sp_ = [s for s in ast.walk(scope) if isinstance(s, ast.Assign) and wm.match(s, 'sz_links_perm[$I] = np.sum(adj_perm[np.ix_($N, $N)]) / 2')]
    rep.ob('F.permuted-sizes-like-observed', f, sp_[0] if sp_ else 'sz_links_perm[i] = np.sum(adj_perm[np.ix_(nodes, nodes)]) / 2', len(sp_) == 1,
           'permuted component sizes must be edge counts computed exactly like the observed ones', line=f.node.lineno)
    # statistic calls mirror: observed uses (xmat[i,:], ymat[i,:]), permuted (d[i,:nx], d[i,-ny:]) / paired (d[i,:nx], d[i,-nx:])
    calls = [norm(c) for c in ast.walk(scope) if isinstance(c, ast.Call) and norm(c.func) in ('ttest2_stat_only', 'ttest_paired_stat_only')]
    calls_f = [norm(c) for c in ast.walk(f.node) if isinstance(c, ast.Call) and norm(c.func) in ('ttest2_stat_only', 'ttest_paired_stat_only')]
    allc = sorted(set(calls + calls_f))
    want = sorted(['ttest2_stat_only(xmat[i, :], ymat[i, :], tail)', 'ttest_paired_stat_only(xmat[i, :], ymat[i, :], tail)',
                   'ttest2_stat_only(d[i, :nx], d[i, -ny:], tail)', 'ttest_paired_stat_only(d[i, :nx], d[i, -nx:], tail)'])
    rep.ob('F.permuted-statistics-mirror-observed', f, '; '.join(allc), allc == want,
           'observed and permuted data must be tested with the same statistic, the same tail and the group split (first nx columns vs last ny)', line=f.node.lineno)
    feats['stat-calls'] = allc
    # permutation scheme
    perm = [norm(s.value) for s in ast.walk(scope) if isinstance(s, ast.Assign) and norm(s.targets[0]) == 'd']
    wantp = sorted([cn('np.hstack((xmat, ymat)) * np.hstack((indperm, indperm))'), cn('np.hstack((xmat, ymat))[:, rng.permutation(nx + ny)]')])
    rep.ob('F.permutation-scheme', f, '; '.join(sorted(perm)), sorted(perm) == wantp,
           'unpaired: permute subject columns across both groups; paired: flip the sign of each subject pair', line=f.node.lineno)
    feats['perm'] = sorted(perm)
    # the group matrices and the group sizes stay paired: xmat has nx columns, ymat ny, and whatever reaches the place where the
    # pooled data are built (or handed to the permutation worker) is still that allocation -- a later swap / rebinding of the
    # matrices (or of tail) without the sizes makes the split `d[:, :nx] | d[:, -ny:]` cut the pooled columns at the wrong place
    cfgf = CFG(f.node)
    fstm = [x for x in ast.walk(f.node) if isinstance(x, ast.stmt)]
    def pools(x):
        for c in ast.walk(x):
            elts = c.elts if isinstance(c, (ast.Tuple, ast.List)) else c.args if isinstance(c, ast.Call) else None
            if elts is not None and {'xmat', 'ymat'} <= {e.id for e in elts if isinstance(e, ast.Name)}:
                return True
        return False
    uses = [x for x in fstm if isinstance(x, (ast.Assign, ast.Expr, ast.Return)) and pools(x)
            and not (isinstance(x, ast.Assign) and isinstance(x.targets[0], ast.Tuple) and {'xmat', 'ymat'} <= {getattr(e, 'id', None) for e in x.targets[0].elts})]
    for var, size in (('xmat', 'nx'), ('ymat', 'ny')):
        bad = []
        n_sites = 0
        for u_ in uses:
            if var != 'tail' and var not in {n.id for n in ast.walk(u_) if isinstance(n, ast.Name)}:
                continue
            n_sites += 1
            for d_ in cfgf.reaching_defs(var, u_):
                if d_ == 'ENTRY':
                    if var != 'tail':
                        bad.append('no definition')
                    continue
                okd = var != 'tail' and isinstance(d_, ast.Assign) and m.match(d_.value, 'np.zeros(($M, %s))' % size) is not None
                if not okd:
                    bad.append(norm(d_).split('\n')[0][:70])
        rep.ob('G.group-data-and-sizes-stay-paired', f, '%s at %d pooling / hand-over sites' % (var, n_sites), not bad and (n_sites > 0 or var == 'tail'),
               '`%s` is rebound after the group sizes were fixed (%s): the permuted data are then split into groups of the wrong sizes / tested in another tail than '
               'the observed data' % (var, '; '.join(sorted(set(bad)))), line=f.node.lineno)
    return feats


def variants(root):
    from ..selftest import Variant as V
    out = []
    for F in ('bct/nbs.py', 'bct/nbs_parallel.py'):
        def B(name, old, new, expect, **kw):
            out.append(V('%s: %s' % (F, name), 'break', F, old, new, expect, None, **kw))

        def N(name, old, new, **kw):
            out.append(V('%s: neutral %s' % (F, name), 'neutral', F, old, new, **kw))
        nullname = 'null' if F.endswith('nbs.py') else 'null_dist'
        B('p-value strict', 'np.size(np.where(%s >= sz_links[i])) / k' % nullname, 'np.size(np.where(%s > sz_links[i])) / k' % nullname, 'P.')
        B('p-value from another array', 'np.size(np.where(%s >= sz_links[i])) / k' % nullname, 'np.size(np.where(sz_links >= sz_links[i])) / k', 'P.')
        B('p-value divisor', 'np.size(np.where(%s >= sz_links[i])) / k' % nullname, 'np.size(np.where(%s >= sz_links[i])) / (k + 1)' % nullname, 'P.')
        B('pooled variance dof', '/ (n1 + n2 - 2))', '/ (n1 + n2))', 'T.')
        B('left tail rewritten as swapped groups without swapping the sizes', "    # perform t-test at each edge\n", "    if tail == 'left':\n        xmat, ymat = ymat, xmat\n        tail = 'right'\n    # perform t-test at each edge\n", 'G.group-data')
        N('tail spelled in lower case first', "    # perform t-test at each edge\n", "    tail = tail.lower()\n    # perform t-test at each edge\n")
        B('population variance', 'np.var(x, ddof=1)', 'np.var(x)', 'T.')
        B('standard error term', 'denom = s * np.sqrt(1 / n1 + 1 / n2)', 'denom = s * np.sqrt(1 / (n1 + n2))', 'T.')
        B('left tail not negated', "    if tail == 'left':\n        return -t / denom", "    if tail == 'left':\n        return t / denom", 'T.')
        B('both tail without abs', "return np.abs(t / denom)", "return t / denom", 'T.')
        B('paired: sqrt(n-1)', 't = z * np.sqrt(n)', 't = z * np.sqrt(n - 1)', 'T.')
        B('paired: biased std', 'unbiased_std = np.sqrt(sample_ss / (n - 1))', 'unbiased_std = np.sqrt(sample_ss / n)', 'T.')
        B('observed threshold non-strict', 'ind_t, = np.where(t_stat > thresh)', 'ind_t, = np.where(t_stat >= thresh)', 'H.')
        B('permuted threshold non-strict', 'ind_t, = np.where(t_stat_perm > thresh)', 'ind_t, = np.where(t_stat_perm >= thresh)', 'H.')
        B('labels off by one', 'adj[np.ix_(nodes, nodes)] *= (i + 2)', 'adj[np.ix_(nodes, nodes)] *= (i + 1)', 'L.')
        B('size after relabelling', '        sz_links[i] = np.sum(adj[np.ix_(nodes, nodes)]) / 2\n        adj[np.ix_(nodes, nodes)] *= (i + 2)\n',
          '        adj[np.ix_(nodes, nodes)] *= (i + 2)\n        sz_links[i] = np.sum(adj[np.ix_(nodes, nodes)]) / 2\n', 'L.')
        B('null entry is number of components', 'null[u] = np.max(sz_links_perm)', 'null[u] = np.size(sz_links_perm)', 'F.null-entry')
        B('permuted groups split at ny', 't_stat_perm[i] = ttest2_stat_only(d[i, :nx], d[i, -ny:], tail)', 't_stat_perm[i] = ttest2_stat_only(d[i, :ny], d[i, -ny:], tail)', 'F.permuted-statistics')
        B('tail not validated', "    if tail not in ('both', 'left', 'right'):\n        raise BCTParamError('Tail must be both, left, right')\n", '', 'T.tail-strings')
        N('threshold sides swapped', 'ind_t, = np.where(t_stat > thresh)', 'ind_t, = np.where(thresh < t_stat)')
        ind = '        ' if F.endswith('nbs.py') else '    '
        N('pooled variance temporaries', ind + 't = np.mean(x) - np.mean(y)\n', ind + 'mx = np.mean(x)\n' + ind + 't = mx - np.mean(y)\n')
    out.append(V('parallel: p-values from the unfilled array', 'break', 'bct/nbs_parallel.py', 'np.size(np.where(null_dist >= sz_links[i])) / k', 'np.size(np.where(null >= sz_links[i])) / k', 'P.pvalue-reads', None))
    return out
