"""C16 - connected components are exactly the classes of mutually reachable nodes.

get_components builds components by scanning the edge list once and union-merging.  Decided:
asymmetric input raises before anything else; working copy is binarised and gets a full
diagonal (every node is in some set); the edge list covers all nonzero cells; the merge loop is
conservative: every existing set is, on every path, either merged into the current item (under
the shares-a-node test) or carried over, no early exit, the merged item is appended after the
inner loop and the carried list replaces the old one; labels and sizes are read off the same
final list; number_of_components is the length of the size vector; consumers call these routines.
"""
import ast

from ..core.astutil import norm, ParentMap
from ..core.cfg import CFG
from ..core.loader import walk_no_nested
from ..core.pattern import Matcher
from ..engines.alias import AliasEngine

CLU = 'bct.algorithms.clustering'


def _stmts(f):
    return [n for n in walk_no_nested(f.node) if isinstance(n, ast.stmt)]


def check(prog, rep, engine=None):
    rep.explanation = (
        'Structural conservation argument for the union-merge in get_components, decided on every path: with (i) every node seeded by its '
        'diagonal cell, (ii) every nonzero cell contributing the pair {u, v}, and (iii) each pass over the existing sets sending every set to '
        'exactly one of "merged into the item" (iff it shares a node) or "carried", with no early exit and the item appended afterwards, the '
        'sets stay pairwise disjoint, cover all nodes and are closed under edges -- by induction over the edge list they are the connected '
        'components for every graph and every edge order. Labels (index+1) and sizes are taken from that same list.')
    rep.assume('Python set operations isdisjoint/union behave as documented; input matrix is square')
    f = prog.func(CLU, 'get_components')
    m = Matcher(prog, f)
    cfg = CFG(f.node)
    pm = ParentMap(f.node)
    stmts = _stmts(f)
    A = f.params[0]
    # 1 precondition first
    first = f.node.body[1] if isinstance(f.node.body[0], ast.Expr) and isinstance(f.node.body[0].value, ast.Constant) else f.node.body[0]
    pre = None
    for s in stmts:
        if isinstance(s, ast.If) and any(isinstance(x, ast.Raise) for x in s.body):
            if m.match(s.test, 'not np.all(%s == %s.T)' % (A, A)) or m.match(s.test, 'not np.allclose(%s, %s.T)' % (A, A)) \
                    or m.match(s.test, 'not (%s == %s.T).all()' % (A, A)) or m.match(s.test, 'np.any(%s != %s.T)' % (A, A)):
                pre = s
    rep.ob('D.asymmetric-input-rejected', f, pre.test if pre is not None else 'if not np.all(A == A.T): raise', pre is not None,
           'asymmetric input is not rejected', line=f.node.lineno)
    if pre is not None:
        r = [x for x in pre.body if isinstance(x, ast.Raise)][0]
        exc = r.exc.func if isinstance(r.exc, ast.Call) else r.exc
        rep.ob('D.asymmetric-input-raises-paramerror', f, r, exc is not None and norm(exc) == 'BCTParamError', 'must raise BCTParamError')
        others = [s for s in stmts if s is not pre and not any(s is x for x in ast.walk(pre)) and not isinstance(s, ast.Expr)]
        bad = [s for s in others if not cfg.dominates(pre, s)]
        rep.ob('D.precondition-dominates-everything', f, pre.test, not bad, 'work is done before the symmetry test: %s' % (norm(bad[0]).split('\n')[0] if bad else ''))
    # 2 copy + binarise + diagonal
    eng = engine or AliasEngine(prog)
    mut = eng.mutated_params(f, 'default')
    rep.ob('A.argument-untouched', f, 'get_components(%s)' % A, A not in mut, 'argument may be modified: %s' % (mut[A][0].describe() if A in mut else ''), line=f.node.lineno)
    binz = [s for s in stmts if m.match(s, '%s = binarize(%s, copy=True)' % (A, A)) or m.match(s, '%s = binarize(%s)' % (A, A))]
    diag = [s for s in stmts if m.match(s, 'np.fill_diagonal(%s, 1)' % A) or m.match(s, 'np.fill_diagonal(%s, True)' % A)]
    rep.ob('D.every-node-seeded-by-diagonal', f, diag[0] if diag else 'np.fill_diagonal(A, 1)', len(diag) == 1 and bool(binz) and cfg.dominates(binz[0], diag[0]),
           'the working copy must get a full diagonal so that isolated nodes form singleton components', line=f.node.lineno)
    # 2b no list is structurally modified while it is being iterated (an element would be skipped)
    bad = []
    for lp in [x for x in stmts if isinstance(x, ast.For) and isinstance(x.iter, ast.Name)]:
        X = lp.iter.id
        for c in ast.walk(lp):
            if isinstance(c, ast.Call) and isinstance(c.func, ast.Attribute) and isinstance(c.func.value, ast.Name) and c.func.value.id == X \
                    and c.func.attr in ('remove', 'pop', 'insert', 'append', 'extend', 'clear', 'sort', 'reverse'):
                bad.append((lp, c))
            if isinstance(c, ast.Delete) and any(isinstance(t, ast.Subscript) and isinstance(t.value, ast.Name) and t.value.id == X for t in c.targets):
                bad.append((lp, c))
    rep.ob('D.no-mutation-of-iterated-list', f, bad[0][1] if bad else 'for-loops over lists in get_components', not bad,
           'the list being iterated is modified inside the loop: the iterator skips the element after a removal, so a set that should be merged is left behind',
           line=(bad[0][1].lineno if bad else f.node.lineno))
    # 3 edge list
    em = None
    for s in stmts:
        if isinstance(s, ast.Assign) and isinstance(s.value, ast.ListComp) and isinstance(s.value.elt, ast.Set) and len(s.value.elt.elts) == 2:
            em = s
    ok = False
    why = 'edge list must be the list of node pairs {u, v} over all cells with a nonzero entry'
    if em is not None:
        lc = em.value
        gens = lc.generators
        names = [norm(g.target) for g in gens]
        rngs = [norm(g.iter) for g in gens]
        conds = [norm(c) for g in gens for c in g.ifs]
        elts = sorted(norm(e) for e in lc.elt.elts)
        n_def = [s for s in stmts if isinstance(s, ast.Assign) and norm(s.targets[0]) == 'n']
        ok = len(gens) == 2 and elts == sorted(names) and all(r == 'range(n)' for r in rngs) and len(conds) == 1 and \
            conds[0] in ('%s[%s, %s] == 1' % (A, names[0], names[1]), '%s[%s, %s]' % (A, names[0], names[1]), '%s[%s, %s] != 0' % (A, names[0], names[1]),
                         '%s[%s, %s] == 1' % (A, names[1], names[0]), '%s[%s, %s]' % (A, names[1], names[0])) and \
            len(n_def) == 1 and norm(n_def[0].value) in ('len(%s)' % A, '%s.shape[0]' % A)
        if diag:
            ok = ok and cfg.dominates(diag[0], em)
            if not cfg.dominates(diag[0], em):
                why = 'edge list is built before the diagonal is filled'
    rep.ob('D.edge-list-covers-all-cells', f, em if em is not None else 'edge_map = [{u, v} ...]', ok, why, line=f.node.lineno)
    # 4 merge loop
    outer = None
    for s in stmts:
        if isinstance(s, ast.For) and em is not None and norm(s.iter) == norm(em.targets[0]):
            outer = s
    if outer is None:
        rep.ob('D.merge-loop-shape', f, 'for item in edge_map', False, 'no loop over the edge list', line=f.node.lineno)
        return
    item = norm(outer.target)
    inner = [s for s in outer.body if isinstance(s, ast.For)]
    rep.ob('D.merge-loop-shape', f, outer, len(inner) == 1, 'expected one pass over the existing sets per edge')
    if len(inner) != 1:
        return
    inner = inner[0]
    U = norm(inner.iter)
    sv = norm(inner.target)
    # fresh carried list each outer iteration, before the inner loop
    init = [s for s in outer.body if isinstance(s, ast.Assign) and isinstance(s.value, ast.List) and not s.value.elts]
    T = norm(init[0].targets[0]) if init else None
    rep.ob('D.carried-list-fresh-per-edge', f, init[0] if init else 'temp = []', len(init) == 1 and outer.body.index(init[0]) < outer.body.index(inner),
           'the list of carried sets must be emptied for every edge before the pass', line=outer.lineno)
    # no early exit anywhere in the outer loop
    exits = [x for x in ast.walk(outer) if isinstance(x, (ast.Break, ast.Continue, ast.Return, ast.Raise))]
    rep.ob('D.no-early-exit', f, exits[0] if exits else 'no break/continue/return in the merge loops', not exits,
           'an early exit drops the sets not yet visited (or the merged item)', line=outer.lineno)
    # each existing set: merged xor carried
    body = inner.body
    ok = False
    why = 'every existing set must be either merged into the item (iff it shares a node with it) or appended to the carried list'
    if len(body) == 1 and isinstance(body[0], ast.If):
        t = body[0]
        pos = None
        if m.match(t.test, 'not %s.isdisjoint(%s)' % (sv, item)) or m.match(t.test, 'not %s.isdisjoint(%s)' % (item, sv)) \
                or m.match(t.test, '%s & %s' % (sv, item)) or m.match(t.test, '%s.intersection(%s)' % (sv, item)):
            pos, neg = t.body, t.orelse
        elif m.match(t.test, '%s.isdisjoint(%s)' % (sv, item)) or m.match(t.test, '%s.isdisjoint(%s)' % (item, sv)):
            pos, neg = t.orelse, t.body
        if pos is not None:
            merge_ok = len(pos) == 1 and (m.match(pos[0], '%s = %s.union(%s)' % (item, sv, item)) or m.match(pos[0], '%s = %s.union(%s)' % (item, item, sv))
                                          or m.match(pos[0], '%s = %s | %s' % (item, sv, item)) or m.match(pos[0], '%s = %s | %s' % (item, item, sv))
                                          or m.match(pos[0], '%s |= %s' % (item, sv)))
            carry_ok = len(neg) == 1 and m.match(neg[0], '%s.append(%s)' % (T, sv)) is not None
            ok = bool(merge_ok) and carry_ok
            if not merge_ok:
                why = 'a set sharing a node with the item is not merged into it'
            elif not carry_ok:
                why = 'a set disjoint from the item is not carried over: it is lost'
        else:
            why = 'the merge test is not "shares a node with the item" (got `%s`)' % norm(t.test)
    rep.ob('D.each-set-merged-or-carried', f, body[0] if body else inner, ok, why)
    # merged item appended after the pass, carried list replaces
    idx = outer.body.index(inner)
    after = outer.body[idx + 1:]
    app = [s for s in after if m.match(s, '%s.append(%s)' % (T, item))]
    swap = [s for s in after if m.match(s, '%s = %s' % (U, T))]
    rep.ob('D.item-appended-after-pass', f, app[0] if app else '%s.append(%s)' % (T, item), len(app) == 1, 'the (merged) item must be appended exactly once after the pass', line=outer.lineno)
    rep.ob('D.carried-list-replaces-sets', f, swap[0] if swap else '%s = %s' % (U, T), len(swap) == 1 and (not app or after.index(app[0]) < after.index(swap[0])),
           'the carried list (with the item) must replace the set list', line=outer.lineno)
    uinit = [s for s in stmts if isinstance(s, ast.Assign) and norm(s.targets[0]) == U and isinstance(s.value, ast.List) and not s.value.elts and not pm.loops(s)]
    rep.ob('D.sets-start-empty', f, uinit[0] if uinit else '%s = []' % U, len(uinit) == 1, 'set list must start empty', line=f.node.lineno)
    # 5 labels and sizes from the same list
    cfgr = cfg.returns
    ok = False
    if len(cfgr) == 1 and isinstance(cfgr[0].value, ast.Tuple) and len(cfgr[0].value.elts) == 2:
        c, z = (norm(e) for e in cfgr[0].value.elts)
        cd = [s for s in stmts if isinstance(s, ast.Assign) and norm(s.targets[0]) == c]
        zd = [s for s in stmts if isinstance(s, ast.Assign) and norm(s.targets[0]) == z]
        okc = len(cd) == 1 and m.match(cd[0].value, 'np.array([$I + 1 for $V in range(n) for $I in range(len(%s)) if $V in %s[$I]])' % (U, U)) is not None
        okz = len(zd) == 1 and (m.match(zd[0].value, 'np.array([len($S) for $S in %s])' % U) is not None)
        ok = okc and okz and cd[0].lineno > outer.lineno and zd[0].lineno > outer.lineno
        rep.ob('D.labels-are-list-index-plus-one', f, cd[0] if cd else c, okc, 'node v must get label i+1 where i is the position of the set containing v, nodes in order')
        rep.ob('D.sizes-are-set-lengths', f, zd[0] if zd else z, okz, 'sizes must be the lengths of the same sets, in list order')
    rep.ob('D.returns-labels-and-sizes', f, cfgr[0] if cfgr else 'return', ok, 'must return (labels, sizes) read off the final set list', line=f.node.lineno)
    # 6 number_of_components
    g = prog.func(CLU, 'number_of_components')
    mg = Matcher(prog, g)
    gs = _stmts(g)
    call = [s for s in gs if isinstance(s, ast.Assign) and isinstance(s.value, ast.Call) and prog.resolve_expr(g, s.value.func) == ('func', f)]
    okn = False
    if call and isinstance(call[0].targets[0], ast.Tuple) and len(call[0].targets[0].elts) == 2:
        sz = norm(call[0].targets[0].elts[1])
        lab = norm(call[0].targets[0].elts[0])
        rets = CFG(g.node).returns
        okn = len(rets) == 1 and (norm(rets[0].value) in ('len(%s)' % sz, '%s.size' % sz, 'np.size(%s)' % sz, 'np.max(%s)' % lab, 'int(np.max(%s))' % lab))
    rep.ob('D.number-of-components-is-size-count', g, call[0] if call else 'get_components(A)', okn, 'number_of_components must be the number of entries of the size vector', line=g.node.lineno)
    # 7 consumers
    n_cons = 0
    for h in prog.all_functions():
        if h is f or h is g:
            continue
        for c in walk_no_nested(h.node):
            if isinstance(c, ast.Call) and isinstance(c.func, ast.Name) and c.func.id in ('get_components', 'number_of_components'):
                r = prog.resolve_expr(h, c.func)
                n_cons += 1
                rep.ob('W.consumer-calls-library-routine', h, c, r[0] == 'func' and r[1] in (f, g),
                       '%s resolves to %s, not to clustering.%s' % (c.func.id, r, c.func.id))
    rep.stat('consumer_call_sites', n_cons)
    rep.floor('D.', 14)
    rep.floor('W.', 6)


def variants(root):
    from ..selftest import Variant as V
    C = 'bct/algorithms/clustering.py'
    S = 'def get_components('
    out = [
        V('carried sets dropped', 'break', C, '            else:\n                temp.append(s)\n', '', 'D.each-set', 'get_components', scope=S),
        V('early exit after first merge', 'break', C, '                item = s.union(item)\n', '                item = s.union(item)\n                break\n', 'D.no-early-exit', 'get_components', scope=S),
        V('item appended inside the pass', 'break', C, '        temp.append(item)\n        union_sets = temp', '            temp.append(item)\n        union_sets = temp', 'D.item-appended', 'get_components', scope=S),
        V('carried list not reset', 'break', C, '    for item in edge_map:\n        temp = []\n', '    temp = []\n    for item in edge_map:\n', 'D.carried-list-fresh', 'get_components', scope=S),
        V('merge test inverted', 'break', C, 'if not s.isdisjoint(item):', 'if s.isdisjoint(item):', 'D.each-set', 'get_components', scope=S),
        V('merge keeps only the old set', 'break', C, 'item = s.union(item)', 'item = s', 'D.each-set', 'get_components', scope=S),
        V('diagonal not filled', 'break', C, '    np.fill_diagonal(A, 1)\n', '', 'D.every-node', 'get_components', scope=S),
        V('upper triangle starts at u+1 without diagonal seeds', 'break', C, 'for u in range(n) for v in range(n) if A[u,v] == 1', 'for u in range(n) for v in range(u + 1, n) if A[u,v] == 1', 'D.edge-list', 'get_components', scope=S),
        V('symmetry check removed', 'break', C, "    if not np.all(A == A.T):  # ensure matrix is undirected", "    if False:", 'D.asymmetric', 'get_components', scope=S),
        V('labels zero-based', 'break', C, 'comps = np.array([i+1 for v in range(n)', 'comps = np.array([i for v in range(n)', 'D.labels', 'get_components', scope=S),
        V('sizes from edge list', 'break', C, 'comp_sizes = np.array([len(s) for s in union_sets])', 'comp_sizes = np.array([len(s) for s in edge_map])', 'D.sizes', 'get_components', scope=S),
        V('number_of_components counts nodes', 'break', C, '    return len(csizes)', '    return int(np.sum(csizes))', 'D.number-of', 'number_of_components'),
        V('argument binarised in place', 'break', C, 'A = binarize(A, copy=True)\n    n = len(A)\n    np.fill_diagonal(A, 1)', 'A = binarize(A, copy=False)\n    n = len(A)\n    np.fill_diagonal(A, 1)', 'A.', 'get_components', scope=S),
        V('neutral: isdisjoint sides', 'neutral', C, 'if not s.isdisjoint(item):', 'if not item.isdisjoint(s):', scope=S),
        V('neutral: union via operator', 'neutral', C, 'item = s.union(item)', 'item = item | s', scope=S),
        V('neutral: working copy of the loop variable', 'neutral', C, '    for item in edge_map:\n        temp = []\n', '    for edge in edge_map:\n        item = edge\n        temp = []\n', scope=S),
        V('neutral: branches swapped', 'neutral', C, '            if not s.isdisjoint(item):\n                item = s.union(item)\n            else:\n                temp.append(s)\n',
          '            if s.isdisjoint(item):\n                temp.append(s)\n            else:\n                item = s.union(item)\n', scope=S),
    ]
    return out
