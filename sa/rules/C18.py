"""C18 - random-walk and spectral measures satisfy their defining equations.

Necessary structural conditions (DESIGN 5/C18):
 S  spectral sums over eigenvectors (subgraph_centrality) use an orthonormal decomposition (eigh); a single
    eigenvector (eigenvector_centrality_und) is the column selected by argmax of the same call's eigenvalues, through abs;
 W  findwalks: the slot index of the third axis equals the matrix power stored there (docstring: Wq[i,j,q] = walks of
    length q): one explicit store of the first power at slot 1, the loop starts at the next slot and multiplies exactly
    once per slot, no slot is written twice;
 P  pagerank_centrality: zero degrees replaced before inversion, column-normalisation A D^-1, system matrix
    I - d A D^-1, right-hand side (1-d) f/sum f, result divided by its sum;
 M  mean_first_passage_time: value-numbered result equals the fundamental-matrix formula; diffusion_efficiency is the
    element-wise reciprocal of that routine's output with the diagonal zeroed and divisor n^2 - n.
"""
import ast

import sympy as sp

from ..core import spelling
from ..core.astutil import norm, cn, ParentMap
from ..core.cfg import CFG
from ..core.loader import walk_no_nested
from ..core.pattern import Matcher
from ..engines.valnum import ValNum
from .C09 import result_term, _eq

DIST = 'bct.algorithms.distance'
CEN = 'bct.algorithms.centrality'
EFF = 'bct.algorithms.efficiency'


def _stmts(f):
    return [n for n in walk_no_nested(f.node) if isinstance(n, ast.stmt)]


def _body(f):
    return [s for s in f.node.body if not (isinstance(s, ast.Expr) and isinstance(s.value, ast.Constant))]


def check(prog, rep):
    rep.explanation = (
        'Structural necessary conditions of the defining equations: spectral sums must come from an orthonormal eigendecomposition (eigh) so '
        'that they do not depend on the basis chosen inside a degenerate eigenspace; the eigenvector returned is selected by the argmax of the '
        'same decomposition; findwalks stores the q-th power in slot q, each slot once; PageRank builds I - d A D^-1 with guarded degrees and '
        'normalises; the first-passage-time expression is compared, after value numbering, with the fundamental-matrix formula, and '
        'diffusion efficiency with its definition. Conditioning, convergence and the validity of the formulas themselves are not decided.')
    rep.assume('scipy/numpy eigh returns orthonormal eigenvectors; eig returns unit-norm columns; solve/inv are exact')
    _spectral(prog, rep)
    _findwalks(prog, rep)
    _pagerank(prog, rep)
    _mfpt(prog, rep)
    rep.floor('S.', 4)
    rep.floor('W.', 4)
    rep.floor('P.', 5)
    rep.floor('M.', 4)


# ------------------------------------------------------------------ spectral
def eig_sites(prog, f):
    """[(stmt, vals name, vecs name, qualified callee, argument)] for `vals, vecs = <eig-like>(X)`"""
    out = []
    for s in _stmts(f):
        if isinstance(s, ast.Assign) and isinstance(s.targets[0], ast.Tuple) and len(s.targets[0].elts) == 2 and isinstance(s.value, ast.Call):
            r = prog.resolve_expr(f, s.value.func)
            if r[0] == 'ext' and r[1].rsplit('.', 1)[-1] in ('eig', 'eigh', 'eigs', 'eigsh') and 'linalg' in r[1]:
                out.append((s, norm(s.targets[0].elts[0]), norm(s.targets[0].elts[1]), r[1], s.value.args[0] if s.value.args else None))
    return out


def _spectral(prog, rep):
    f = prog.func(CEN, 'subgraph_centrality')
    m = Matcher(prog, f)
    sites = eig_sites(prog, f)
    rep.ob('S.decomposition-found', f, sites[0][0] if sites else 'vals, vecs = linalg.eigh(CIJ)', len(sites) == 1, 'expected one eigendecomposition', line=f.node.lineno)
    if sites:
        s, vals, vecs, q, arg = sites[0]
        # vecs used in a product with itself (squared) and contracted with a function of vals
        uses_sq = any(m.match(n, '%s * %s' % (vecs, vecs)) or m.match(n, '%s ** 2' % vecs) or m.match(n, 'np.square(%s)' % vecs) for x in _stmts(f) for n in ast.walk(x))
        rep.ob('S.spectral-sum-uses-orthonormal-basis', f, s, (not uses_sq) or q.endswith(('eigh', 'eigsh')),
               'sum_k v_ik^2 exp(lambda_k) is the diagonal of expm(A) only for an orthonormal eigenbasis; %s returns an arbitrary (non-orthogonal) basis inside '
               'repeated eigenvalues (cycles, complete bipartite graphs, disjoint copies) and complex dtype' % q)
        cfg = CFG(f.node)
        env, vn = result_term(prog, f, _body(f))
        got = env.get('<return>')
        V, L = sp.Function('item1')(sp.Symbol('DEC')), sp.Function('item0')(sp.Symbol('DEC'))
        ok = False
        if got is not None:
            txt = str(got)
            ok = 'np.exp(item0(' in txt and (txt.count('item1(') >= 2 or '**2' in txt) and 'item1(' in txt and 'matprod(' in txt
        rep.ob('S.subgraph-formula', f, cfg.returns[0] if cfg.returns else 'return', ok, 'result must be (V*V) . exp(lambda) of one decomposition of the input')
        rep.ob('S.decomposes-the-input', f, s, arg is not None and norm(arg) == f.params[0], 'the matrix decomposed must be the argument')
    f = prog.func(CEN, 'eigenvector_centrality_und')
    m = Matcher(prog, f)
    sites = eig_sites(prog, f)
    cfg = CFG(f.node)
    ok = False
    why = 'expected vals, vecs = eig(CIJ); i = argmax(vals); return abs(vecs[:, i])'
    if len(sites) == 1 and len(cfg.returns) == 1:
        s, vals, vecs, q, arg = sites[0]
        b = m.match(cfg.returns[0].value, 'np.abs(%s[:, $I])' % vecs)
        if b:
            idef = [x for x in _stmts(f) if isinstance(x, ast.Assign) and norm(x.targets[0]) == norm(b['I'])]
            ok = len(idef) == 1 and (m.match(idef[0].value, 'np.argmax(%s)' % vals) or m.match(idef[0].value, 'np.argmax(np.real(%s))' % vals)) is not None \
                and norm(arg) == f.params[0]
            why = 'the column index must be the argmax of the eigenvalues of the same decomposition'
        else:
            why = 'the returned vector must be |v| of a column of the eigenvector matrix (non-negative)'
    rep.ob('S.leading-eigenvector-selected-from-same-decomposition', f, cfg.returns[0] if cfg.returns else 'return', ok, why, line=f.node.lineno)


# ------------------------------------------------------------------ findwalks
def _findwalks(prog, rep):
    f = prog.func(DIST, 'findwalks')
    m = Matcher(prog, f)
    stmts = _stmts(f)
    pm = ParentMap(f.node)
    A = None
    pw = None
    for s in stmts:
        b = m.match(s, '$P = $A.copy()')
        if b and isinstance(b['P'], ast.Name):
            pw, A = b['P'].id, norm(b['A'])
    stores = [s for s in stmts if isinstance(s, ast.Assign) and m.match(s.targets[0], '$W[:, :, $Q]')]
    W = norm(stores[0].targets[0].value) if stores else 'Wq'
    explicit = [s for s in stores if not pm.loops(s)]
    looped = [s for s in stores if pm.loops(s)]
    ok = len(explicit) == 1 and len(looped) == 1 and pw is not None
    rep.ob('W.store-shape', f, '; '.join(norm(s) for s in stores), ok, 'expected one explicit store of the first power and one store per loop iteration', line=f.node.lineno)
    if not ok:
        return
    e = explicit[0]
    s0 = norm(e.targets[0].slice.elts[2])
    val0 = norm(e.value)
    rep.ob('W.first-power-in-slot-one', f, e, s0 == '1' and val0 in (A, pw),
           'Wq[i,j,q] is documented as the number of walks of length q: the adjacency matrix (length 1) belongs in slot 1 (got slot %s <- %s)' % (s0, val0))
    lp = pm.loops(looped[0])[0]
    q = norm(lp.target)
    rng = lp.iter
    okr = isinstance(rng, ast.Call) and norm(rng.func) == 'range' and len(rng.args) == 2 and norm(rng.args[1]) in ('n', 'len(%s)' % A)
    start = norm(rng.args[0]) if okr else None
    rep.ob('W.loop-starts-after-the-explicit-slot', f, lp.iter, okr and s0.isdigit() and start == str(int(s0) + 1),
           'the loop stores into slots %s.. while slot %s already holds the first power: slot %s is written twice and every slot holds a power one too high'
           % (start, s0, s0) if okr and start == s0 else 'loop must run over range(%s, n)' % (int(s0) + 1 if s0.isdigit() else '?'))
    body = lp.body
    mult = [s for s in body if m.match(s, '%s = np.dot(%s, %s)' % (pw, pw, A)) or m.match(s, '%s = np.dot(%s, %s)' % (pw, A, pw)) or m.match(s, '%s = %s @ %s' % (pw, pw, A))]
    st = looped[0]
    okm = len(mult) == 1 and body.index(mult[0]) < body.index(st) and norm(st.value) == pw and norm(st.targets[0].slice.elts[2]) == q
    rep.ob('W.one-multiplication-per-slot', f, '%s; %s' % (norm(mult[0]) if mult else '?', norm(st)), okm,
           'each iteration must multiply the running power by the adjacency matrix exactly once and store it in slot q')
    al = [s for s in stmts if m.match(s, '%s = np.zeros((n, n, n))' % W)]
    rep.ob('W.all-lengths-allocated', f, al[0] if al else '%s = np.zeros((n, n, n))' % W, len(al) == 1, 'one slot per length 0..n-1', line=f.node.lineno)
    cfg = CFG(f.node)
    tw = [s for s in stmts if isinstance(s, ast.Assign) and m.match(s.value, 'np.sum(%s)' % W)]
    wl = [s for s in stmts if isinstance(s, ast.Assign) and m.match(s.value, 'np.sum(np.sum(%s, axis=0), axis=0)' % W)]
    rep.ob('W.totals-from-the-same-array', f, cfg.returns[0] if cfg.returns else 'return', len(tw) == 1 and len(wl) == 1 and tw[0].lineno > lp.lineno,
           'total and per-length counts must be sums of the filled array', line=f.node.lineno)


# ------------------------------------------------------------------ pagerank
def _pagerank(prog, rep):
    f = prog.func(CEN, 'pagerank_centrality')
    m = Matcher(prog, f)
    stmts = _stmts(f)
    cfg = CFG(f.node)
    A, d = f.params[0], f.params[1]
    deg = [s for s in stmts if isinstance(s, ast.Assign) and m.match(s.value, 'np.sum(%s, axis=0)' % A)]
    D = norm(deg[0].targets[0]) if deg else 'deg'
    guard = [s for s in stmts if m.match(s, '%s[%s == 0] = 1' % (D, D)) or m.match(s, '%s[np.logical_not(%s)] = 1' % (D, D))]
    inv = [s for s in stmts if isinstance(s, ast.Assign) and (m.match(s.value, 'np.diag(1 / %s)' % D) or m.match(s.value, 'np.diag(1.0 / %s)' % D))]
    rep.ob('P.degrees-are-column-sums', f, deg[0] if deg else 'deg = np.sum(A, axis=0)', len(deg) == 1, 'PageRank divides each column of A by its sum (out-going probability mass)', line=f.node.lineno)
    rep.ob('P.zero-degrees-replaced-before-inversion', f, guard[0] if guard else '%s[%s == 0] = 1' % (D, D),
           len(guard) == 1 and len(inv) == 1 and guard[0].lineno < inv[0].lineno, 'nodes without connections must not produce 1/0', line=f.node.lineno)
    D1 = norm(inv[0].targets[0]) if inv else 'D1'
    B = [s for s in stmts if isinstance(s, ast.Assign) and (m.match(s.value, 'np.eye($N) - %s * np.dot(%s, %s)' % (d, A, D1)) or m.match(s.value, 'np.eye($N) - %s * (%s @ %s)' % (d, A, D1)))]
    rep.ob('P.system-matrix', f, B[0] if B else 'B = np.eye(N) - d * np.dot(A, D1)', len(B) == 1, 'system matrix must be I - d A D^-1', line=f.node.lineno)
    bvec = [s for s in stmts if isinstance(s, ast.Assign) and m.match(s.value, '(1 - %s) * $F' % d)]
    okb = False
    if bvec:
        fn = norm(m.match(bvec[0].value, '(1 - %s) * $F' % d)['F'])
        fd = [s for s in stmts if isinstance(s, ast.Assign) and norm(s.targets[0]) == fn]
        vals = sorted(norm(s.value) for s in fd)
        okb = vals == sorted([cn('np.ones((N,)) / N'), cn('falff / np.sum(falff)')])
    rep.ob('P.right-hand-side', f, bvec[0] if bvec else 'b = (1 - d) * f / sum(f)', okb, 'right-hand side must be (1-d) times the normalised prior (uniform by default)', line=f.node.lineno)
    sol = [s for s in stmts if isinstance(s, ast.Assign) and B and bvec and m.match(s.value, 'linalg.solve(%s, %s)' % (norm(B[0].targets[0]), norm(bvec[0].targets[0])))]
    R = norm(sol[0].targets[0]) if sol else 'r'
    nrm = [s for s in stmts if m.match(s, '%s /= np.sum(%s)' % (R, R)) or m.match(s, '%s = %s / np.sum(%s)' % (R, R, R))]
    rep.ob('P.solution-normalised', f, nrm[0] if nrm else '%s /= np.sum(%s)' % (R, R), len(sol) == 1 and len(nrm) == 1 and all(cfg.dominates(nrm[0], r) and norm(r.value) == R for r in cfg.returns),
           'the solution of the linear system must be divided by its sum before it is returned', line=f.node.lineno)


# ------------------------------------------------------------------ mfpt / diffusion efficiency
MFPT_REF = '''
P = np.linalg.solve(np.diag(np.sum(adjacency, axis=1)), adjacency)
n = len(P)
D, V = np.linalg.eig(P.T)
aux = np.abs(D - 1)
index = np.where(aux == aux.min())[0]
w = V[:, index].T
w = w / np.sum(w)
W = np.real(np.repeat(w, n, 0))
I = np.eye(n)
Z = np.linalg.inv(I - P + W)
C = (np.repeat(np.atleast_2d(np.diag(Z)), n, 0) - Z) / W
'''


def _mfpt(prog, rep):
    f = prog.func(DIST, 'mean_first_passage_time')
    body = [s for s in _body(f) if not isinstance(s, ast.If)]
    import sympy as sp

    def _positions_of_a_vector_mask(t):
        # the eigenvalue distances form a vector: np.flatnonzero(mask) and np.where(mask)[0] are the same positions
        return t.replace(lambda x: isinstance(x, sp.Function) and x.func.__name__ == 'np.flatnonzero' and len(x.args) == 1,
                         lambda x: sp.Function('idx')(sp.Function('np.where')(x.args[0]), sp.Integer(0)))
    env, vn = result_term(prog, f, body, rewrites=[_positions_of_a_vector_mask])
    got = env.get('<return>')
    renv, _ = result_term(prog, f, spelling.parse(MFPT_REF).body, param_map={'adjacency': f.params[0]}, rewrites=[_positions_of_a_vector_mask])
    want = renv.get('C')
    rep.ob('M.fundamental-matrix-formula', f, 'return %s' % str(got)[:120], got is not None and want is not None and _eq(got, want),
           'result differs from (diag(Z) - Z) / W with Z = inv(I - P + W), P row-normalised, W the stationary distribution repeated in rows', line=f.node.lineno)
    m = Matcher(prog, f)
    stmts = _stmts(f)
    P = [s for s in stmts if isinstance(s, ast.Assign) and norm(s.targets[0]) == 'P']
    rep.ob('M.transition-matrix-row-normalised', f, P[0] if P else 'P', len(P) == 1 and m.match(P[0].value, 'np.linalg.solve(np.diag(np.sum(%s, axis=1)), %s)' % (f.params[0], f.params[0])) is not None,
           'P must be D^-1 A with D the row sums (each row sums to one)', line=f.node.lineno)
    chk = [s for s in stmts if isinstance(s, ast.If) and any(isinstance(x, ast.Raise) for x in s.body)]
    rep.ob('M.stationary-eigenvalue-checked', f, chk[0].test if chk else 'if |lambda - 1| > tol: raise', len(chk) == 1, 'the eigenvalue nearest 1 must be verified before use', line=f.node.lineno)
    g = prog.func(EFF, 'diffusion_efficiency')
    mg = Matcher(prog, g)
    gs = _stmts(g)
    call = [s for s in gs if isinstance(s, ast.Assign) and isinstance(s.value, ast.Call) and prog.resolve_expr(g, s.value.func) == ('func', f)]
    rep.ob('M.diffusion-uses-library-mfpt', g, call[0] if call else 'mfpt = mean_first_passage_time(adj)', len(call) == 1, 'diffusion efficiency must be computed from mean_first_passage_time', line=g.node.lineno)
    if call:
        MF = norm(call[0].targets[0])
        inv = [s for s in gs if isinstance(s, ast.Assign) and (mg.match(s.value, '1 / %s' % MF) or mg.match(s.value, '1.0 / %s' % MF))]
        E = norm(inv[0].targets[0]) if inv else 'ediff'
        z = [s for s in gs if mg.match(s, 'np.fill_diagonal(%s, 0)' % E)]
        glob = [s for s in gs if isinstance(s, ast.Assign) and (mg.match(s.value, 'np.sum(%s) / (n ** 2 - n)' % E) or mg.match(s.value, 'np.sum(%s) / (n * n - n)' % E) or mg.match(s.value, 'np.sum(%s) / (n * (n - 1))' % E))]
        nd = [s for s in gs if isinstance(s, ast.Assign) and norm(s.targets[0]) == 'n']
        ok = len(inv) == 1 and len(z) == 1 and len(glob) == 1 and z[0].lineno > inv[0].lineno and glob[0].lineno > z[0].lineno and len(nd) == 1 and mg.match(nd[0].value, 'len(%s)' % g.params[0]) is not None
        rep.ob('M.diffusion-efficiency-definition', g, glob[0] if glob else 'gediff', ok,
               'efficiency must be the element-wise reciprocal of the first-passage times, diagonal zeroed, summed and divided by n^2 - n', line=g.node.lineno)
        cfg = CFG(g.node)
        for r in cfg.returns:
            rep.ob('M.diffusion-returns-both', g, r, isinstance(r.value, ast.Tuple) and [norm(e) for e in r.value.elts] == [norm(glob[0].targets[0]) if glob else '?', E], 'must return (global efficiency, pairwise matrix)')


def variants(root):
    from ..selftest import Variant as V
    D = 'bct/algorithms/distance.py'
    C = 'bct/algorithms/centrality.py'
    E = 'bct/algorithms/efficiency.py'
    out = [
        V('subgraph: eig instead of eigh', 'break', C, 'vals, vecs = linalg.eigh(CIJ)', 'vals, vecs = linalg.eig(CIJ)', 'S.spectral', 'subgraph_centrality', scope='def subgraph_centrality('),
        V('subgraph: vecs not squared', 'break', C, 'np.dot(vecs * vecs, np.exp(vals))', 'np.dot(vecs, np.exp(vals))', 'S.subgraph-formula', 'subgraph_centrality'),
        V('neutral: pagerank zero degrees by logical_not', 'neutral', C, 'deg[deg == 0] = 1', 'deg[np.logical_not(deg)] = 1', scope='def pagerank_centrality('),
        V('eigenvector: argmin', 'break', C, 'i = np.argmax(vals)', 'i = np.argmin(vals)', 'S.leading', 'eigenvector_centrality_und'),
        V('eigenvector: sign kept', 'break', C, 'return np.abs(vecs[:, i])', 'return vecs[:, i]', 'S.leading', 'eigenvector_centrality_und'),
        V('eigenvector: row instead of column', 'break', C, 'return np.abs(vecs[:, i])', 'return np.abs(vecs[i, :])', 'S.leading', 'eigenvector_centrality_und'),
        V('findwalks: loop rewrites slot 1', 'break', D, 'for q in range(2, n):', 'for q in range(1, n):', 'W.loop-starts', 'findwalks'),
        V('findwalks: first power in slot 0', 'break', D, 'Wq[:, :, 1] = CIJ', 'Wq[:, :, 0] = CIJ', 'W.', 'findwalks'),
        V('findwalks: store before multiply', 'break', D, '        CIJpwr = np.dot(CIJpwr, CIJ)\n        Wq[:, :, q] = CIJpwr\n', '        Wq[:, :, q] = CIJpwr\n        CIJpwr = np.dot(CIJpwr, CIJ)\n', 'W.one-mult', 'findwalks'),
        V('pagerank: row sums', 'break', C, 'deg = np.sum(A, axis=0)', 'deg = np.sum(A, axis=1)', 'P.degrees', 'pagerank_centrality'),
        V('pagerank: zero degree guard after inversion', 'break', C, '    deg[deg == 0] = 1\n    D1 = np.diag(1 / deg)\n', '    D1 = np.diag(1 / deg)\n    deg[deg == 0] = 1\n', 'P.zero-degrees', 'pagerank_centrality'),
        V('pagerank: D^-1 A', 'break', C, 'B = np.eye(N) - d * np.dot(A, D1)', 'B = np.eye(N) - d * np.dot(D1, A)', 'P.system', 'pagerank_centrality'),
        V('pagerank: not normalised', 'break', C, '    r /= np.sum(r)\n', '', 'P.solution', 'pagerank_centrality'),
        V('pagerank: prior not normalised', 'break', C, 'norm_falff = falff / np.sum(falff)', 'norm_falff = falff', 'P.right-hand', 'pagerank_centrality'),
        V('mfpt: column-normalised', 'break', D, 'np.diag(np.sum(adjacency, axis=1))', 'np.diag(np.sum(adjacency, axis=0))', 'M.', 'mean_first_passage_time', scope='def mean_first_passage_time('),
        V('mfpt: Z without W', 'break', D, 'Z = np.linalg.inv(I - P + W)', 'Z = np.linalg.inv(I - P)', 'M.fundamental', 'mean_first_passage_time', scope='def mean_first_passage_time('),
        V('mfpt: sign of numerator', 'break', D, '(np.repeat(np.atleast_2d(np.diag(Z)), n, 0) - Z) / W', '(Z - np.repeat(np.atleast_2d(np.diag(Z)), n, 0)) / W', 'M.fundamental', 'mean_first_passage_time', scope='def mean_first_passage_time('),
        V('diffusion: divisor n*n', 'break', E, 'gediff = np.sum(ediff) / (n ** 2 - n)', 'gediff = np.sum(ediff) / (n ** 2)', 'M.diffusion-efficiency', 'diffusion_efficiency'),
        V('diffusion: diagonal kept', 'break', E, '    np.fill_diagonal(ediff, 0)\n', '', 'M.diffusion-efficiency', 'diffusion_efficiency'),
        V('neutral: matmul in findwalks', 'neutral', D, 'CIJpwr = np.dot(CIJpwr, CIJ)', 'CIJpwr = CIJpwr @ CIJ', scope='def findwalks('),
        V('neutral: n*(n-1)', 'neutral', E, 'gediff = np.sum(ediff) / (n ** 2 - n)', 'gediff = np.sum(ediff) / (n * (n - 1))', scope='def diffusion_efficiency('),
        V('neutral: mfpt temporaries', 'neutral', D, '    I = np.eye(n)\n\n    Z = np.linalg.inv(I - P + W)', '    Z = np.linalg.inv(np.eye(n) - P + W)', scope='def mean_first_passage_time('),
    ]
    return out
