"""C13 - library calls never modify the caller's arrays unless copy=False is requested.

Interprocedural may-mutate analysis (engine A, sa/engines/alias.py): for every public
function and every parameter, no path may write memory reachable from the parameter when
the `copy` flag (if any) has its default value; through callees as well.
"""
import ast

from ..core.astutil import norm
from ..core.loader import AnalysisError
from ..engines.alias import AliasEngine, FRESH, NP_VIEW_FUNCS, VIEW_METHODS, VIEW_ATTRS, MUTATOR_METHODS, NP_MUTATORS


def public_functions(prog):
    api = dict(prog.public_api())
    out = {('bct.' + k): v for k, v in api.items()}
    if 'bct.nbs_parallel' in prog.modules:
        for k, f in prog.modules['bct.nbs_parallel'].toplevel.items():
            if not k.startswith('_'):
                out['bct.nbs_parallel.' + k] = f
    return out


def check(prog, rep, engine=None):
    eng = engine or AliasEngine(prog)
    rep.explanation = (
        'May-mutate analysis over all paths of all public functions and their resolved callees: abstract value of each variable = '
        'set of parameters it may share memory with (forward dataflow on the statement CFG, flow-sensitive so that `W = W.copy()` '
        'kills the alias, path-pruned only on the documented `copy` flag). A write site (element/slice store, in-place operator on '
        'an array, np.fill_diagonal/put/place/copyto, out=, .sort/.fill/..., rng.shuffle, or a callee whose summary writes the bound '
        'parameter) on a value that may alias a parameter is a violation naming the site and the call chain. Covers every input.')
    rep.trust('NumPy view/copy table: views = attrs %s, methods %s, np.%s, basic indexing; everything else (arithmetic, fancy/bool '
              'indexing, .copy/.astype, reductions, constructors) returns fresh memory' % (
                  sorted(VIEW_ATTRS), sorted(VIEW_METHODS), sorted(NP_VIEW_FUNCS)))
    rep.trust('writers = subscript/slice store, AugAssign on array-kinded names, np.%s, out=, methods %s, shuffle' % (
        sorted(NP_MUTATORS), sorted(MUTATOR_METHODS)))
    rep.assume('external (NumPy/SciPy) functions other than the listed writers do not modify their arguments')
    rep.assume('an index expression of unknown kind is treated as basic indexing (may alias): errs towards reporting')
    pub = public_functions(prog)
    rep.stat('public_functions', len(pub))
    rep.stat('definitions_analysed', len(eng.funcs))
    for k, v in eng.stats.items():
        rep.stat(k, v)
    n_params = 0
    for name in sorted(pub):
        f = pub[name]
        mut = eng.mutated_params(f, 'default')
        for p in f.all_params:
            n_params += 1
            sites = mut.get(p, [])
            if not sites:
                rep.ob('A.no-arg-mutation', f, '%s(%s)' % (f.name, p), True, '', line=f.node.lineno)
            else:
                seen = set()
                for s in sites:
                    key = (s.func.key, norm(s.node).split('\n')[0])
                    if key in seen:
                        continue
                    seen.add(key)
                    rep.ob('A.no-arg-mutation', f, '%s(%s): %s' % (f.name, p, norm(s.node).split('\n')[0][:90]), False,
                           'argument `%s` may be modified: %s' % (p, s.describe()), line=getattr(s.node, 'lineno', f.node.lineno))
    rep.stat('parameters_checked', n_params)
    # classification of every fill_diagonal site in the package: operand fresh or argument alias
    rep.floor("A.no-arg-mutation", 370)
    if len(pub) < 150:
        rep.error('only %d public functions found (floor 150)' % len(pub))
    if eng.stats['fill_diagonal_sites'] < 40:
        rep.error('only %d np.fill_diagonal sites classified (floor 40)' % eng.stats['fill_diagonal_sites'])
    _fixtures(rep)


def _fixtures(rep):
    import os
    import shutil
    import tempfile
    from ..core.loader import Program
    here = os.path.join(os.path.dirname(os.path.dirname(os.path.abspath(__file__))), 'fixtures', 'C13')
    tmp = tempfile.mkdtemp(prefix='c13fx-')
    try:
        shutil.copytree(here, os.path.join(tmp, 'bct'))
        p2 = Program(tmp)
        e2 = AliasEngine(p2)
        n = 0
        for f in p2.all_functions():
            if f.name.startswith(('pos_', 'neg_')):
                n += 1
                fired = bool(e2.mutated_params(f, 'default'))
                if fired != f.name.startswith('pos_'):
                    rep.error('fixture %s: may-mutate analysis %s but expected %s' % (
                        f.name, 'fired' if fired else 'silent', 'fire' if f.name.startswith('pos_') else 'silence'))
        rep.stat('fixtures_evaluated', n)
        if n < 15:
            rep.error('fixtures missing')
    finally:
        shutil.rmtree(tmp, ignore_errors=True)


# ------------------------------------------------------------------ self-test variants
def variants(root):
    """Breaking: delete each `X = X.copy()` of a parameter that is syntactically written afterwards;
    flip copy=True to copy=False; np.array -> np.asarray.  Neutral: other spellings of the copy."""
    from ..selftest import Variant as V
    from ..core.loader import Program, walk_no_nested
    prog = Program(root)
    pub = public_functions(prog)
    out = []
    seen_lines = set()
    for name in sorted(pub):
        f = pub[name]
        stmts = [n for n in walk_no_nested(f.node) if isinstance(n, ast.stmt)]
        for n in stmts:
            if isinstance(n, ast.Assign) and len(n.targets) == 1 and isinstance(n.targets[0], ast.Name) \
                    and isinstance(n.value, ast.Call) and isinstance(n.value.func, ast.Attribute) and n.value.func.attr == 'copy' \
                    and isinstance(n.value.func.value, ast.Name) and n.value.func.value.id == n.targets[0].id \
                    and n.targets[0].id in f.all_params and n.lineno == n.end_lineno:
                x = n.targets[0].id
                later = [m for m in stmts if m.lineno > n.lineno]
                written = False
                for m in later:
                    if isinstance(m, ast.Assign):
                        for t in m.targets:
                            for tt in (t.elts if isinstance(t, ast.Tuple) else [t]):
                                if isinstance(tt, ast.Subscript) and isinstance(tt.value, ast.Name) and tt.value.id == x:
                                    written = True
                    elif isinstance(m, ast.AugAssign):
                        t = m.target
                        if (isinstance(t, ast.Name) and t.id == x) or (isinstance(t, ast.Subscript) and isinstance(t.value, ast.Name) and t.value.id == x):
                            written = True
                    elif isinstance(m, ast.Expr) and isinstance(m.value, ast.Call) and norm(m.value.func) == 'np.fill_diagonal' \
                            and m.value.args and isinstance(m.value.args[0], ast.Name) and m.value.args[0].id == x:
                        written = True
                    # rebinding kills
                    if isinstance(m, ast.Assign) and any(isinstance(t, ast.Name) and t.id == x for t in m.targets) and not written:
                        break
                key = (f.module.relpath, n.lineno)
                if key in seen_lines:
                    continue
                seen_lines.add(key)
                line = f.module.source.split('\n')[n.lineno - 1]
                if written:
                    out.append(V('%s: delete `%s`' % (f.name, line.strip()), 'break', f.module.relpath, expect='A.no-arg-mutation',
                                 function=f.qualname, lines=[(n.lineno, line, 'pass')]))
                    out.append(V('%s: neutral np.array copy' % f.name, 'neutral', f.module.relpath,
                                 lines=[(n.lineno, line, '%s = np.array(%s)' % (x, x))]))
    REF = 'bct/algorithms/reference.py'
    out += [
        V('randomizer_bin_und: binarize copy=False', 'break', REF, 'R = binarize(R, copy=True)  # binarize', 'R = binarize(R, copy=False)', 'A.no-arg-mutation', 'randomizer_bin_und'),
        V('degrees_und: binarize in place', 'break', 'bct/algorithms/degree.py', 'binarize(CIJ, copy=True)', 'binarize(CIJ, copy=False)', 'A.no-arg-mutation'),
        V('threshold_absolute: copy ignored', 'break', 'bct/utils/other.py', "    if copy:\n        W = W.copy()\n    np.fill_diagonal(W, 0)  # clear diagonal\n    W[W < thr] = 0", "    np.fill_diagonal(W, 0)  # clear diagonal\n    W[W < thr] = 0", 'A.no-arg-mutation', 'threshold_absolute'),
        V('invert: inverted copy flag', 'break', 'bct/utils/other.py', "    if copy:\n        W = W.copy()\n    E = np.where(W)", "    if not copy:\n        W = W.copy()\n    E = np.where(W)", 'A.no-arg-mutation', 'invert'),
        V('distance_wei: working matrix not copied', 'break', 'bct/algorithms/distance.py', 'G1 = G.copy()\n        V = [u]', 'G1 = G\n        V = [u]', 'A.no-arg-mutation', 'distance_wei'),
        V('ci2ls: ci shifted in place', 'break', 'bct/algorithms/modularity.py', "_, ci = np.unique(ci, return_inverse=True)\n    ci += 1\n    nr_indices = int(max(ci))", "ci -= (np.min(ci) - 1)\n    nr_indices = int(max(ci))", 'A.no-arg-mutation', 'ci2ls'),
        V('get_components: out= on argument', 'break', 'bct/algorithms/clustering.py', "    if not np.all(A == A.T):  # ensure matrix is undirected", "    np.abs(A, out=A)\n    if not np.all(A == A.T):  # ensure matrix is undirected", 'A.no-arg-mutation', 'get_components'),
        V('neutral: np.copy spelling', 'neutral', REF, '    R = R.copy()\n    n = len(R)\n    i, j = np.where(R)', '    R = np.copy(R)\n    n = len(R)\n    i, j = np.where(R)', count=0),
        V('neutral: arithmetic makes fresh', 'neutral', 'bct/algorithms/core.py', 'W = W.copy()\n    np.fill_diagonal(W, 0)', 'W = W * 1.0\n    np.fill_diagonal(W, 0)', count=0),
    ]
    return out
