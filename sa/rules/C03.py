"""C03 - shortest-path distance matrices equal true minimum path lengths.

Only the part of this property that is visible in the shape of the code is decided (DESIGN 5/C03):
 T  sentinel typestate: 0 = 'not reached yet' is turned into inf before the diagonal is reset, both after the search and
    before the return; the reachability matrix is derived from the marked distance matrix; weighted routines start from
    inf off the diagonal / turn absent connections into inf before relaxing;
 E  efficiencies and characteristic path length are means of (inverse) distances over ordered pairs of distinct nodes:
    operand, diagonal exclusion and divisor n^2 - n (or the number of retained entries);
 C  the private distance routines inside efficiency_bin / efficiency_wei are clones of distance_bin / distance_wei
    (loop bodies agree statement by statement modulo hop bookkeeping), so the efficiencies are means of inverses of
    *those* distances; rout_efficiency takes its distances from distance_wei_floyd;
 K  relaxation kernels: algebraic BFS adds n to newly reached pairs only; Dijkstra keeps min(old, via v) and counts hops on
    strict improvement; Floyd replaces on strict improvement with the minimum.
That each algorithm returns the minimum over all paths, and that the five routines agree with each other, is NOT decided.
"""
import ast

from ..core import spelling
from ..core.astutil import norm, cn, where_unpack, through_nonempty_guards, ParentMap, same_up_to_reordering, loop_exits
from ..core.cfg import CFG
from ..core.loader import walk_no_nested
from ..core.pattern import Matcher

DIST = 'bct.algorithms.distance'
EFF = 'bct.algorithms.efficiency'


def _stmts(node):
    return [n for n in walk_no_nested(node) if isinstance(n, ast.stmt)]


def _body(f):
    return [s for s in f.node.body if not (isinstance(s, ast.Expr) and isinstance(s.value, ast.Constant))]


def check(prog, rep):
    rep.explanation = (
        'Shape-level necessary conditions for the distance / efficiency routines: the order in which the "unreached" sentinel 0 is '
        'replaced by inf and the diagonal reset; where the reachability flags come from; initial inf off the diagonal for the label-correcting '
        'routines; operands, diagonal handling and divisors of the global efficiencies and the characteristic path length; statement-level '
        'agreement between the private distance routines of efficiency_* and the public ones; the relaxation kernels (add n only to newly '
        'reached pairs / keep the minimum / strict comparison). The algorithmic core -- minimality over all paths, tie handling, agreement of '
        'different algorithms -- quantifies over runtime values and is left undecided.')
    rep.assume('np.dot of 0/1 matrices counts walks; np.min / np.argmin behave as documented (argmin returns the first minimum)')
    _distance_bin(prog, rep)
    _breadthdist(prog, rep)
    _distance_wei(prog, rep)
    _floyd(prog, rep)
    _reachdist(prog, rep)
    _efficiencies(prog, rep)
    _clones(prog, rep)
    rep.floor('T.', 8)
    rep.floor('E.', 5)
    rep.floor('C.', 2)
    rep.floor('K.', 5)


def _bfs_kernel(rep, f, m, body, G, tag):
    """algebraic BFS: D = eye; n = 1; nPATH = G.copy(); L = nPATH != 0; while any(L): D += n*L; n += 1; nPATH = nPATH.G; L = (nPATH != 0)*(D == 0)"""
    loops = [s for s in body if isinstance(s, ast.While)]
    ok = len(loops) == 1 and m.match(loops[0].test, 'np.any($L)') is not None
    rep.ob('K.bfs-loop', f, loops[0].test if loops else 'while np.any(L)', ok, 'expected one `while np.any(L)` search loop' + tag, line=f.node.lineno)
    if not ok:
        return None
    lp = loops[0]
    L = norm(m.match(lp.test, 'np.any($L)')['L'])
    b = [norm(s) for s in lp.body]
    D = None
    for s in lp.body:
        bb = m.match(s, '$D += $N * %s' % L)
        if bb:
            D, N = norm(bb['D']), norm(bb['N'])
    okb = D is not None and same_up_to_reordering(lp.body, ['%s += %s * %s' % (D, N, L), '%s += 1' % N, 'nPATH = np.dot(nPATH, %s)' % G, cn('%s = (nPATH != 0) * (%s == 0)' % (L, D))])
    rep.ob('K.bfs-adds-length-to-newly-reached-pairs-only', f, '; '.join(b)[:150], okb,
           'each round must add the current length n to exactly the pairs reached for the first time (walk matrix nonzero and distance still 0), then advance n' + tag, line=lp.lineno)
    init = {norm(s.targets[0]): norm(s.value) for s in body if isinstance(s, ast.Assign) and isinstance(s.targets[0], ast.Name) and s.lineno < lp.lineno}
    oki = D is not None and init.get(D) in ('np.eye(len(%s))' % G, 'np.eye(n)') and init.get('nPATH') in ('%s.copy()' % G, G) and init.get(L) == 'nPATH != 0' and init.get('n') == '1'
    rep.ob('T.bfs-start-state', f, 'D=%s; n=%s; nPATH=%s; L=%s' % (init.get(D), init.get('n'), init.get('nPATH'), init.get(L)), oki,
           'search must start with the identity as distance marker (diagonal never "unreached"), length 1 and the adjacency matrix as first walk matrix' + tag, line=f.node.lineno)
    return lp, D


def _distance_bin(prog, rep):
    f = prog.func(DIST, 'distance_bin')
    m = Matcher(prog, f)
    body = _body(f)
    cfg = CFG(f.node)
    G = f.params[0]
    cp = [s for s in body if m.match(s, '%s = binarize(%s, copy=True)' % (G, G)) or m.match(s, '%s = binarize(%s)' % (G, G))]
    rep.ob('T.binarised-copy', f, cp[0] if cp else 'G = binarize(G, copy=True)', len(cp) == 1, 'weights must be discarded on a copy', line=f.node.lineno)
    r = _bfs_kernel(rep, f, m, body, G, '')
    if r is None:
        return
    lp, D = r
    inf = [s for s in body if m.match(s, '%s[%s == 0] = np.inf' % (D, D)) or m.match(s, '%s[np.logical_not(%s)] = np.inf' % (D, D))]
    dz = [s for s in body if m.match(s, 'np.fill_diagonal(%s, 0)' % D)]
    ok = len(inf) == 1 and len(dz) == 1 and lp.lineno < inf[0].lineno < dz[0].lineno and all(cfg.dominates(dz[0], x) for x in cfg.returns)
    rep.ob('T.unreached-to-inf-then-diagonal-to-zero', f, '; '.join(norm(s) for s in inf + dz), ok,
           'after the search: 0 (never reached) -> inf first, then the diagonal -> 0; in the other order the diagonal becomes inf / self-distances are lost', line=f.node.lineno)
    for x in cfg.returns:
        rep.ob('T.returns-distance-matrix', f, x, norm(x.value) == D, 'must return the distance matrix')


def _breadthdist(prog, rep):
    f = prog.func(DIST, 'breadthdist')
    m = Matcher(prog, f)
    body = _body(f)
    cfg = CFG(f.node)
    fill = [s for s in _stmts(f.node) if m.match(s, 'D[$I, :], _ = breadth(%s, $I)' % f.params[0])]
    rep.ob('K.row-per-source-from-bfs', f, fill[0] if fill else 'D[i, :], _ = breadth(CIJ, i)', len(fill) == 1, 'row i must be the BFS distance vector from source i', line=f.node.lineno)
    inf = [s for s in body if m.match(s, 'D[D == 0] = np.inf')]
    rd = [s for s in body if m.match(s, 'R = D != np.inf') or m.match(s, 'R = np.isfinite(D)') or m.match(s, 'R = np.logical_not(np.isinf(D))')]
    ok = len(inf) == 1 and len(rd) == 1 and inf[0].lineno < rd[0].lineno
    rep.ob('T.reachability-from-marked-distances', f, '; '.join(norm(s) for s in inf + rd), ok,
           'reachability flags must be computed from the distance matrix *after* unreached entries were set to inf (so R is true exactly where D is finite)', line=f.node.lineno)
    for x in cfg.returns:
        rep.ob('T.returns-distance-matrix', f, x, norm(x.value) == '(R, D)', 'must return (R, D)')
    g = prog.func(DIST, 'breadth')
    gm = Matcher(prog, g)
    gs = _stmts(g.node)
    want = ['distance[v] = distance[u] + 1', 'branch[v] = u', 'color[v] = gray', 'Q.append(v)']
    wb = [s for s in gs if isinstance(s, ast.If) and gm.match(s.test, 'color[v] == white')]
    got = sorted(norm(s) for s in wb[0].body) if len(wb) == 1 else []
    if len(wb) == 1:
        # `nd = distance[u] + 1` named at the top of the same iteration over v: the only write to `distance` before the white test is
        # `distance[v] = nd` under `distance[v] == 0`, which touches distance[u] only when v is u -- and u, taken from the queue, is not white
        pmg = ParentMap(g.node)
        inner = [lp for lp in pmg.loops(wb[0]) if isinstance(lp, ast.For)]
        for s in wb[0].body:
            if isinstance(s, ast.Assign) and norm(s.targets[0]) == 'distance[v]' and isinstance(s.value, ast.Name) and inner:
                nm = s.value.id
                defs = [x for x in gs if isinstance(x, ast.Assign) and any(isinstance(t, ast.Name) and t.id == nm for t in x.targets)]
                if len(defs) == 1 and any(defs[0] is x for x in inner[0].body) and defs[0].lineno < wb[0].lineno and gm.match(defs[0].value, 'distance[u] + 1'):
                    got = sorted(['distance[v] = distance[u] + 1' if norm(x) == norm(s) else norm(x) for x in wb[0].body])
    okw = len(wb) == 1 and got == sorted(want)
    rep.ob('K.bfs-discovers-white-nodes-once', g, wb[0].test if wb else 'if color[v] == white', okw,
           'a node is given distance(u)+1, coloured and queued exactly when first discovered', line=g.node.lineno)
    pop = [s for s in gs if gm.match(s, 'Q = Q[1:]')]
    head = [s for s in gs if gm.match(s, 'u = Q[0]')]
    rep.ob('K.bfs-queue-is-fifo', g, '; '.join(norm(s) for s in head + pop), len(pop) == 1 and len(head) == 1, 'breadth-first order needs a FIFO queue (take Q[0], drop it afterwards)', line=g.node.lineno)


def _dijkstra_core(rep, f, m, fn_node, G, tag, with_hops):
    """for u: S=ones; G1=G.copy(); V=[u]; while True: S[V]=0; G1[:,V]=0; for v in V: W=where(G1[v,:]); relax; exits; V = where(D[u,:]==minD)"""
    stmts = _stmts(fn_node)
    src = [s for s in fn_node.body if isinstance(s, ast.For) and m.match(s.iter, 'range(n)')]
    if len(src) != 1:
        rep.ob('K.dijkstra-source-loop', f, 'for u in range(n)', False, 'expected one source loop' + tag, line=fn_node.lineno)
        return None
    lp = src[0]
    u = norm(lp.target)
    top = [norm(s) for s in lp.body if isinstance(s, ast.Assign)]
    okt = cn('S = np.ones((n,), dtype=bool)') in top and 'G1 = %s.copy()' % G in top and 'V = [%s]' % u in top
    rep.ob('K.dijkstra-per-source-state', f, '; '.join(top), okt, 'temporary-label set, working copy and frontier must be re-created per source' + tag, line=lp.lineno)
    wl = [s for s in lp.body if isinstance(s, ast.While)]
    if len(wl) != 1:
        return None
    w = wl[0]
    b = w.body
    head = [norm(s) for s in b[:2]]
    rep.ob('K.dijkstra-settles-frontier', f, '; '.join(head), sorted(head) == sorted(['S[V] = 0', 'G1[:, V] = 0']),
           'the current frontier becomes permanent and its in-connections are removed before relaxing' + tag, line=w.lineno)
    vl = [s for s in b if isinstance(s, ast.For) and norm(s.iter) == 'V']
    relax = None
    if vl:
        v = norm(vl[0].target)
        outs = loop_exits(vl[0])
        rep.ob('K.dijkstra-relaxes-from-every-settled-node', f, outs[0] if outs else vl[0].iter, not outs,
               'all nodes settled together (equal lengths) are already permanent: leaving the relaxation loop early drops the connections of the remaining ones, '
               'so nodes reachable only through them keep a longer length or inf' + tag, line=vl[0].lineno)
        vbody = through_nonempty_guards(vl[0].body, 'W')
        names = {norm(s.targets[0]): s for s in vbody if isinstance(s, ast.Assign) and isinstance(s.targets[0], (ast.Name, ast.Subscript))}
        W = [s for s in vbody if where_unpack(s) is not None and m.match(where_unpack(s)[1], 'G1[%s, :]' % v)]
        td = names.get('td')
        oktd = td is not None and m.match(td.value, 'np.array([D[%s, W].flatten(), (D[%s, %s] + G1[%s, W]).flatten()])' % (u, u, v, v)) is not None
        st = [s for s in vbody if isinstance(s, ast.Assign) and norm(s.targets[0]) == 'D[%s, W]' % u]
        okmin = False
        if st:
            val = st[0].value
            if isinstance(val, ast.Name) and val.id in names:
                val = names[val.id].value
            okmin = m.match(val, 'np.min(td, axis=0)') is not None
        relax = bool(W) and oktd and okmin
        rep.ob('K.dijkstra-keeps-minimum-of-old-and-via-v', f, st[0] if st else 'D[u, W] = np.min([D[u, W], D[u, v] + G1[v, W]])', bool(relax),
               'each neighbour keeps the smaller of its old length and the length through the newly settled node v' + tag, line=w.lineno)
        if with_hops:
            wi = names.get('wi')
            ind = names.get('ind')
            hb = [s for s in vbody if isinstance(s, ast.Assign) and m.match(s.targets[0], 'B[%s, ind]' % u)]
            okh = wi is not None and m.match(wi.value, 'np.argmin(td, axis=0)') is not None and ind is not None and \
                m.match(ind.value, 'W[np.where(wi == 1)]') is not None and len(hb) == 1 and m.match(hb[0].value, 'B[%s, %s] + 1' % (u, v)) is not None
            rep.ob('K.hops-updated-on-strict-improvement', f, hb[0] if hb else 'B[u, ind] = B[u, v] + 1', okh,
                   'edge counts change only where the path through v is strictly shorter (argmin picks the old path on ties) and become hops(v)+1', line=w.lineno)
    ex = [norm(s.test) for s in b if isinstance(s, ast.If) and any(isinstance(x, ast.Break) for x in s.body)]
    md = [norm(s) for s in b if isinstance(s, ast.Assign) and norm(s.targets[0]) == 'minD']
    nv = [norm(s) for s in b if where_unpack(s) is not None and norm(where_unpack(s)[0]) == 'V']
    okx = ex in (['D[%s, S].size == 0' % u, 'np.isinf(minD)'], ['not np.any(S)', 'np.isinf(minD)'], ['len(D[%s, S]) == 0' % u, 'np.isinf(minD)']) and md == ['minD = np.min(D[%s, S])' % u] and nv == [cn('V, = np.where(D[%s, :] == minD)' % u)]
    rep.ob('K.dijkstra-next-frontier-is-all-minimal-temporary-nodes', f, '; '.join(ex + md + nv), okx,
           'the search ends when no temporary node is left or the nearest one is unreachable; otherwise all nodes at the minimal temporary length are settled together' + tag, line=w.lineno)
    return lp


def _distance_wei(prog, rep):
    f = prog.func(DIST, 'distance_wei')
    m = Matcher(prog, f)
    body = _body(f)
    cfg = CFG(f.node)
    G = f.params[0]
    init = [norm(s) for s in body if isinstance(s, ast.Assign)]
    lp = _dijkstra_core(rep, f, m, f.node, G, '', True)
    ok = 'D = np.zeros((n, n))' in init and 'D[np.logical_not(np.eye(n))] = np.inf' in init and 'B = np.zeros((n, n))' in init
    if lp is not None:
        ok = ok and all(s.lineno < lp.lineno for s in body if isinstance(s, ast.Assign) and norm(s) in ('D = np.zeros((n, n))', 'D[np.logical_not(np.eye(n))] = np.inf'))
    rep.ob('T.inf-off-diagonal-zero-on-diagonal-before-search', f, '; '.join(init[:4]), ok,
           'all pairs start unreached (inf) except the diagonal (0), before the source loop', line=f.node.lineno)
    for x in cfg.returns:
        rep.ob('T.returns-distance-matrix', f, x, norm(x.value) == '(D, B)', 'must return (D, B)')


def _floyd(prog, rep):
    f = prog.func(DIST, 'distance_wei_floyd')
    m = Matcher(prog, f)
    stmts = _stmts(f.node)
    pm = ParentMap(f.node)
    kl = [s for s in f.node.body if isinstance(s, ast.For) and m.match(s.iter, 'range(n)')
          and any(isinstance(x, ast.Assign) and norm(x.targets[0]) == 'SPL' for x in s.body)]
    A = f.params[0]
    z = [s for s in stmts if m.match(s, 'SPL[SPL == 0] = np.inf')]
    cp = [s for s in stmts if m.match(s, "SPL = %s.copy().astype('float')" % A) or m.match(s, 'SPL = %s.copy().astype(float)' % A) or m.match(s, 'SPL = %s.astype(float)' % A)]
    ok = len(z) == 1 and len(cp) == 1 and len(kl) == 1 and cp[0].lineno < z[0].lineno < kl[0].lineno and \
        any((norm(t) == 'transform is not None' and not pol) or (norm(t) == 'transform is None' and pol) for t, pol, k, o in pm.guards(z[0]))
    rep.ob('T.absent-connection-is-inf-before-relaxation', f, '; '.join(norm(s) for s in cp + z), ok,
           'without a transform, 0 (no connection) must become inf on a float copy before the k-loop', line=f.node.lineno)
    tr = {norm(s.value) for s in stmts if isinstance(s, ast.Assign) and norm(s.targets[0]) == 'SPL' and pm.guards(s) and any(norm(t).startswith('transform ==') for t, pol, k, o in pm.guards(s))}
    rep.ob('T.transforms', f, '; '.join(sorted(tr)), tr == {'-np.log(%s)' % A, '1 / %s' % A}, "transforms must be -log(w) and 1/w (absent connections map to inf by themselves)", line=f.node.lineno)
    if len(kl) == 1:
        b = [norm(s) for s in kl[0].body]
        okk = cn('i2k_k2j = np.repeat(SPL[:, [k]], n, 1) + np.repeat(SPL[[k], :], n, 0)') in b and cn('path = SPL > i2k_k2j') in b and cn('SPL = np.min(np.stack([SPL, i2k_k2j], 2), 2)') in b \
            and b.index(cn('path = SPL > i2k_k2j')) < b.index(cn('SPL = np.min(np.stack([SPL, i2k_k2j], 2), 2)'))
        rep.ob('K.floyd-strict-improvement-then-minimum', f, '; '.join(b)[:160], okk,
               'for every k: candidate = SPL[i,k] + SPL[k,j]; pairs with a strictly shorter candidate are recorded from the *old* SPL, then SPL takes the minimum', line=kl[0].lineno)
    dz = [norm(s) for s in f.node.body if isinstance(s, ast.Assign) and kl and s.lineno > kl[0].lineno]
    okd = cn('I = np.eye(n) > 0') in dz and 'SPL[I] = 0' in dz and ('hops[I], Pmat[I] = (0, 0)' in dz or 'Pmat[I] = 0' in dz)
    rep.ob('T.diagonal-of-all-outputs-reset', f, '; '.join(dz)[:160], okd, 'after the k-loop the diagonals of lengths and next-hop matrix must be reset (hop counts of self-pairs: see C12)', line=f.node.lineno)


def _reachdist_axes(prog, rep, f, g):
    """Axis provenance.  np.sum(CIJ, axis=0)[j] counts what enters j, axis=1 what leaves i.  A node nothing enters can never be a
    target (its *column* of D is inf), a node nothing leaves never a source (its *row*).  The same two sets, complemented,
    select the block R[rows, cols] whose completion ends the recursion."""
    m = Matcher(prog, f)
    stmts = [s for s in walk_no_nested(f.node) if isinstance(s, ast.Assign)]
    deg = {}
    for s in stmts:
        for pat in ('$X = np.sum($A, axis=$K)', '$X = np.sum($A, $K)', '$X = $A.sum(axis=$K)', '$X = $A.sum($K)',
                    '$X = np.count_nonzero($A, axis=$K)'):
            b = m.match(s, pat)
            if b and isinstance(b['X'], ast.Name) and isinstance(b['K'], ast.Constant) and b['K'].value in (0, 1):
                deg[b['X'].id] = 'in' if b['K'].value == 0 else 'out'
                break
    zero = {}
    for s in stmts:
        for pat in ('$Z, = np.where($X == 0)', '$Z = np.where($X == 0)[0]', '$Z = np.flatnonzero($X == 0)', '$Z, = np.where(np.logical_not($X))',
                    '$Z, = np.nonzero($X == 0)', '$Z = np.nonzero($X == 0)[0]'):
            b = m.match(s, pat)
            if b and isinstance(b['Z'], ast.Name) and isinstance(b['X'], ast.Name) and b['X'].id in deg:
                zero[b['Z'].id] = deg[b['X'].id]
                break
    kept = {}
    for s in stmts:
        b = m.match(s, '$C = np.delete($L, $Z)') or m.match(s, '$C = np.setdiff1d($L, $Z)')
        if b and isinstance(b['C'], ast.Name) and isinstance(b['Z'], ast.Name) and b['Z'].id in zero:
            kept[b['C'].id] = zero[b['Z'].id]
    ncol = nrow = 0
    for s in stmts:
        b = m.match(s, '$D[:, $S] = np.inf')
        if b and isinstance(b['S'], ast.Name) and b['S'].id in zero:
            ncol += 1
            rep.ob('E.unreachable-columns-are-nodes-without-incoming-links', f, s, zero[b['S'].id] == 'in',
                   'column j of the distance matrix is unreachable for everybody only when nothing enters j (zero column sum, axis=0); '
                   '`%s` holds the nodes with zero %s-degree' % (b['S'].id, zero[b['S'].id]), line=s.lineno)
        b = m.match(s, '$D[$S, :] = np.inf') or m.match(s, '$D[$S] = np.inf')
        if b and isinstance(b['S'], ast.Name) and b['S'].id in zero:
            nrow += 1
            rep.ob('E.unreachable-rows-are-nodes-without-outgoing-links', f, s, zero[b['S'].id] == 'out',
                   'row i of the distance matrix is all-inf only when nothing leaves i (zero row sum, axis=1); '
                   '`%s` holds the nodes with zero %s-degree' % (b['S'].id, zero[b['S'].id]), line=s.lineno)
    if not ncol:
        rep.ob('E.unreachable-columns-are-nodes-without-incoming-links', f, 'D[:, id0] = np.inf', False,
               'no statement marks the columns of nodes without incoming links as unreachable (the recursion stops before the marker n+2 is reached)', line=f.node.lineno)
    if not nrow:
        rep.ob('E.unreachable-rows-are-nodes-without-outgoing-links', f, 'D[od0, :] = np.inf', False,
               'no statement marks the rows of nodes without outgoing links as unreachable', line=f.node.lineno)
    # the completion test of the recursion
    if g is None:
        return
    mg = Matcher(prog, g)
    params = [a.arg for a in g.node.args.args]
    tests = []
    for sub in ast.walk(g.node):
        b = mg.match(sub, 'np.ix_($R, $C)')
        if b and isinstance(b['R'], ast.Name) and isinstance(b['C'], ast.Name):
            tests.append((sub, b['R'].id, b['C'].id))
    calls = [c for c in ast.walk(f.node) if isinstance(c, ast.Call) and isinstance(c.func, ast.Name) and c.func.id == g.name
             and not any(c is x for x in ast.walk(g.node))]
    for sub, r, c in tests:
        ok = r in params and c in params and bool(calls)
        why = 'block selectors are not parameters of the helper'
        for call in calls:
            if not ok:
                break
            try:
                ar, ac = call.args[params.index(r)], call.args[params.index(c)]
            except IndexError:
                ok = False
                why = 'call does not pass the selectors positionally'
                break
            kr = kept.get(ar.id) if isinstance(ar, ast.Name) else None
            kc = kept.get(ac.id) if isinstance(ac, ast.Name) else None
            if (kr, kc) != ('out', 'in'):
                ok = False
                why = ('the recursion must continue until every pair (source with outgoing links, target with incoming links) is reached: rows '
                       'selector `%s` keeps nodes with non-zero %s-degree, column selector `%s` keeps nodes with non-zero %s-degree' % (
                           norm(ar), kr, norm(ac), kc))
        rep.ob('E.completion-test-block-axes', g, sub, ok, why, line=sub.lineno)
    if not tests:
        rep.ob('E.completion-test-block-axes', g, 'np.ix_(row, col)', False, 'the recursion has no completion test over the reachable block', line=g.node.lineno)


def _reachdist(prog, rep):
    f = prog.func(DIST, 'reachdist')
    m = Matcher(prog, f)
    body = _body(f)
    post = [norm(s) for s in body if isinstance(s, ast.Assign)]
    ok = 'D = powr - D + 1' in post and 'D[D == n + 2] = np.inf' in post and 'D[:, id0] = np.inf' in post and 'D[od0, :] = np.inf' in post and \
        post.index('D = powr - D + 1') < post.index('D[D == n + 2] = np.inf')
    rep.ob('T.reachdist-sentinel', f, '; '.join(post[-4:]), ok, 'pairs never reached carry the marker n+2 after the conversion and must become inf; nodes without in/out connections are unreachable', line=f.node.lineno)
    g = f.nested.get('reachdist2')
    _reachdist_axes(prog, rep, f, g)
    if g is not None:
        b = [norm(s) for s in g.node.body if not isinstance(s, ast.If)]
        okb = b[:3] == ['CIJpwr = np.dot(CIJpwr, CIJ)', 'R = np.logical_or(R, CIJpwr != 0)', 'D += R']
        rep.ob('K.reachdist-accumulates-reachability-per-power', g, '; '.join(b[:3]), okb, 'each power adds the pairs reached so far', line=g.node.lineno)


def _efficiencies(prog, rep):
    f = prog.func(EFF, 'efficiency_bin')
    m = Matcher(prog, f)
    stmts = _stmts(f.node)
    glob = [s for s in stmts if isinstance(s, ast.Assign) and norm(s.targets[0]) == 'E' and (m.match(s.value, 'np.sum(e) / (n * n - n)') or m.match(s.value, 'np.sum(e) / (n ** 2 - n)') or m.match(s.value, 'np.sum(e) / (n * (n - 1))'))]
    ed = [s for s in stmts if m.match(s, 'e = distance_inv(G)')]
    nd = [s for s in stmts if m.match(s, 'n = len(G)')]
    rep.ob('E.global-efficiency-bin', f, glob[0] if glob else 'E = np.sum(e) / (n * n - n)', len(glob) == 1 and len(ed) == 1 and len(nd) == 1,
           'global efficiency = sum of inverse distances over ordered pairs / (n^2 - n), n = number of nodes of the same matrix', line=f.node.lineno)
    g = f.nested.get('distance_inv')
    if g is not None:
        gm = Matcher(prog, g)
        r = _bfs_kernel(rep, g, gm, [s for s in g.node.body], g.params[0], ' (distance_inv)')
        if r:
            lp, D = r
            post = [norm(s) for s in g.node.body if s.lineno > lp.lineno and not isinstance(s, ast.Return)]
            okp = post in (['%s[np.logical_not(%s)] = np.inf' % (D, D), '%s = 1 / %s' % (D, D), 'np.fill_diagonal(%s, 0)' % D],
                           ['%s[%s == 0] = np.inf' % (D, D), '%s = 1 / %s' % (D, D), 'np.fill_diagonal(%s, 0)' % D])
            rep.ob('T.unreached-to-inf-then-inverted-then-diagonal-zero', g, '; '.join(post), okp,
                   'unreached -> inf, then 1/D (so unreached pairs contribute 0), then the diagonal (1/1) -> 0', line=g.node.lineno)
    f = prog.func(EFF, 'efficiency_wei')
    m = Matcher(prog, f)
    stmts = _stmts(f.node)
    glob = [s for s in stmts if isinstance(s, ast.Assign) and norm(s.targets[0]) == 'E' and (m.match(s.value, 'np.sum(e) / (n * n - n)') or m.match(s.value, 'np.sum(e) / (n ** 2 - n)'))]
    ed = [s for s in stmts if m.match(s, 'e = distance_inv_wei(Gl)')]
    gl = [s for s in stmts if m.match(s, 'Gl = invert(Gw, copy=True)') or m.match(s, 'Gl = invert(Gw)')]
    nd = [s for s in stmts if m.match(s, 'n = len(Gw)')]
    rep.ob('E.global-efficiency-wei', f, glob[0] if glob else 'E = np.sum(e) / (n * n - n)', len(glob) == 1 and len(ed) == 1 and len(gl) == 1 and len(nd) == 1,
           'global weighted efficiency = sum of inverse shortest lengths (lengths = inverted weights) / (n^2 - n)', line=f.node.lineno)
    g = f.nested.get('distance_inv_wei')
    if g is not None:
        post = [norm(s) for s in g.node.body if isinstance(s, (ast.Assign, ast.Expr)) and not isinstance(s.value if hasattr(s, 'value') else None, ast.Constant)]
        tail = post[-3:]
        rep.ob('T.diagonal-protected-then-inverted-then-zero', g, '; '.join(tail), tail == ['np.fill_diagonal(D, 1)', 'D = 1 / D', 'np.fill_diagonal(D, 0)'],
               'the zero diagonal must be protected before inversion and cleared afterwards', line=g.node.lineno)
        init = [norm(s) for s in g.node.body if isinstance(s, ast.Assign)]
        rep.ob('T.inf-off-diagonal-zero-on-diagonal-before-search', g, '; '.join(init[:3]), 'D = np.zeros((n, n))' in init and 'D[np.logical_not(np.eye(n))] = np.inf' in init,
               'all pairs start unreached (inf) except the diagonal', line=g.node.lineno)
    f = prog.func(EFF, 'rout_efficiency')
    m = Matcher(prog, f)
    stmts = _stmts(f.node)
    call = [s for s in stmts if isinstance(s, ast.Assign) and m.match(s.value, 'distance_wei_floyd(D, transform=transform)')]
    r = prog.resolve_name(f, 'distance_wei_floyd')
    inv = [s for s in stmts if m.match(s, 'Erout = 1 / Erout')]
    dz = [s for s in stmts if m.match(s, 'np.fill_diagonal(Erout, 0)')]
    ge = [s for s in stmts if isinstance(s, ast.Assign) and norm(s.targets[0]) == 'GErout']
    okg = bool(ge) and (m.match(ge[0].value, 'np.sum(Erout[np.where(np.logical_not(np.isnan(Erout)))]) / (n ** 2 - n)') or m.match(ge[0].value, 'np.nansum(Erout) / (n ** 2 - n)')) is not None
    rep.ob('E.routing-efficiency', f, ge[0] if ge else 'GErout', len(call) == 1 and r[0] == 'func' and r[1].module.modname == DIST and len(inv) == 1 and len(dz) == 1 and okg
           and inv[0].lineno < dz[0].lineno < ge[0].lineno, 'mean inverse Floyd distance over ordered pairs of distinct nodes: 1/SPL, diagonal 0, sum / (n^2 - n)', line=f.node.lineno)
    f = prog.func(DIST, 'charpath')
    m = Matcher(prog, f)
    stmts = _stmts(f.node)
    pm = ParentMap(f.node)
    dg = [s for s in stmts if m.match(s, 'np.fill_diagonal(D, np.nan)')]
    nf = [s for s in stmts if m.match(s, 'D[np.isinf(D)] = np.nan')]
    okd = len(dg) == 1 and any(norm(t) == 'not include_diagonal' and pol for t, pol, k, o in pm.guards(dg[0]))
    okn = len(nf) == 1 and any(norm(t) == 'not include_infinite' and pol for t, pol, k, o in pm.guards(nf[0]))
    rep.ob('E.charpath-exclusions', f, '; '.join(norm(s) for s in dg + nf), okd and okn, 'diagonal and infinite entries are dropped exactly when the corresponding flag is off', line=f.node.lineno)
    dv = [s for s in stmts if m.match(s, 'Dv = D[np.logical_not(np.isnan(D))].ravel()') or m.match(s, 'Dv = D[np.logical_not(np.isnan(D))]')]
    lam = [s for s in stmts if m.match(s, 'lambda_ = np.mean(Dv)')]
    ef = [s for s in stmts if m.match(s, 'efficiency = np.mean(1 / Dv)')]
    rep.ob('E.charpath-means-over-retained-entries', f, '; '.join(norm(s) for s in dv + lam + ef), len(dv) == 1 and len(lam) == 1 and len(ef) == 1 and
           dv[0].lineno > max([s.lineno for s in dg + nf] or [0]), 'characteristic path length = mean of the retained distances, efficiency = mean of their inverses', line=f.node.lineno)


def _loop_sig(stmts, drop=()):
    out = []
    for s in stmts:
        t = norm(s)
        if any(d in t for d in drop):
            continue
        out.append(t)
    return out


def _clones(prog, rep):
    f = prog.func(DIST, 'distance_bin')
    g = prog.func(EFF, 'efficiency_bin').nested.get('distance_inv')
    if g is not None:
        lf = [s for s in f.node.body if isinstance(s, ast.While)]
        lg = [s for s in g.node.body if isinstance(s, ast.While)]
        import re
        a = [re.sub(r'\b%s\b' % re.escape(f.params[0]), 'G', x) for x in _loop_sig(lf[0].body)] if lf else None
        b = [re.sub(r'\b%s\b' % re.escape(g.params[0]), 'G', x) for x in _loop_sig(lg[0].body)] if lg else None
        same = a is not None and b is not None and lf and lg and same_up_to_reordering(
            [spelling.parse(x).body[0] for x in b], a)
        rep.ob('C.private-bfs-is-a-clone-of-distance_bin', g, 'loop body: %s' % '; '.join(b or [])[:120], bool(same),
               'the search loop of efficiency_bin.distance_inv differs from distance_bin: the efficiency would be computed from other "distances"', line=g.node.lineno)
    f = prog.func(DIST, 'distance_wei')
    g = prog.func(EFF, 'efficiency_wei').nested.get('distance_inv_wei')
    if g is not None:
        m = Matcher(prog, g)
        lp = _dijkstra_core(rep, g, m, g.node, g.params[0], ' (distance_inv_wei)', False)
        rep.ob('C.private-dijkstra-is-a-clone-of-distance_wei', g, 'Dijkstra core obligations shared with distance_wei', lp is not None,
               'distance_inv_wei does not have the verified Dijkstra shape', line=g.node.lineno)


def variants(root):
    from ..selftest import Variant as V
    D = 'bct/algorithms/distance.py'
    E = 'bct/algorithms/efficiency.py'
    out = []

    def B(name, fn, old, new, expect, file=D, **kw):
        out.append(V('%s: %s' % (fn, name), 'break', file, old, new, expect, None, scope='def %s(' % fn, **kw))

    def N(name, fn, old, new, file=D, **kw):
        out.append(V('%s: neutral %s' % (fn, name), 'neutral', file, old, new, scope='def %s(' % fn, **kw))
    B('diagonal reset before inf marking', 'distance_bin', '    D[D == 0] = np.inf  # disconnected nodes are assigned d=inf\n    np.fill_diagonal(D, 0)\n', '    np.fill_diagonal(D, 0)\n    D[D == 0] = np.inf\n', 'T.unreached')
    B('already reached pairs updated again', 'distance_bin', 'L = (nPATH != 0) * (D == 0)', 'L = (nPATH != 0)', 'K.bfs-adds')
    B('length advanced before use', 'distance_bin', '        D += n * L\n        n += 1\n', '        n += 1\n        D += n * L\n', 'K.bfs-adds')
    B('reachability before marking', 'breadthdist', '    D[D == 0] = np.inf\n    R = (D != np.inf)\n', '    R = (D != np.inf)\n    D[D == 0] = np.inf\n', 'T.reachability')
    B('queue used as stack', 'breadth', 'u = Q[0]', 'u = Q[-1]', 'K.bfs-queue')
    B('max instead of min relaxation', 'distance_wei', 'd = np.min(td, axis=0)', 'd = np.max(td, axis=0)', 'K.dijkstra-keeps')
    B('hops updated on ties too', 'distance_wei', 'ind = W[np.where(wi == 1)]', 'ind = W', 'K.hops')
    B('start matrix not inf', 'distance_wei', '    D[np.logical_not(np.eye(n))] = np.inf\n', '', 'T.inf-off')
    B('only one minimal node settled', 'distance_wei', 'V, = np.where(D[u, :] == minD)', 'V = [int(np.argmin(np.where(S, D[u, :], np.inf)))]', 'K.dijkstra-next')
    B('relaxation loop left at a node without unvisited neighbours', 'distance_wei', '                W, = np.where(G1[v, :])  # neighbors of shortest nodes\n',
      '                W, = np.where(G1[v, :])  # neighbors of shortest nodes\n                if W.size == 0:\n                    break\n', 'K.dijkstra-relaxes')
    N('node without unvisited neighbours skipped', 'distance_wei', '                W, = np.where(G1[v, :])  # neighbors of shortest nodes\n',
      '                W, = np.where(G1[v, :])  # neighbors of shortest nodes\n                if W.size == 0:\n                    continue\n')
    B('private search: relaxation loop left early', 'efficiency_wei', '                    W, = np.where(G1[v, :])  # neighbors of smallest nodes\n',
      '                    W, = np.where(G1[v, :])  # neighbors of smallest nodes\n                    if not len(W):\n                        break\n', '', file=E)
    N('unreachable test with the arms exchanged', 'distance_wei', '            if np.isinf(minD):  # some nodes cannot be reached\n                break\n\n            V, = np.where(D[u, :] == minD)\n',
      '            if not np.isinf(minD):\n                V, = np.where(D[u, :] == minD)\n            else:\n                break\n')
    N('next distance named at the top of the iteration', 'breadth', '        for v in ns:\n', '        for v in ns:\n            nd = distance[u] + 1\n',
      also=[(D, '                distance[v] = distance[u] + 1\n                branch[v] = u', '                distance[v] = nd\n                branch[v] = u', 1)])
    B('floyd non-strict', 'distance_wei_floyd', 'path = SPL > i2k_k2j', 'path = SPL >= i2k_k2j', 'K.floyd')
    B('floyd zero weights stay zero', 'distance_wei_floyd', '        SPL[SPL == 0] = np.inf\n', '', 'T.absent')
    B('floyd diagonal not reset', 'distance_wei_floyd', '    SPL[I] = 0\n', '', 'T.diagonal-of-all')
    B('efficiency divisor n*n', 'efficiency_bin', 'E = np.sum(e) / (n * n - n)', 'E = np.sum(e) / (n * n)', 'E.global-efficiency-bin', file=E)
    B('efficiency_wei on weights not lengths', 'efficiency_wei', 'e = distance_inv_wei(Gl)\n        E = np.sum(e)', 'e = distance_inv_wei(Gw)\n        E = np.sum(e)', 'E.global-efficiency-wei', file=E)
    B('private bfs drifts', 'efficiency_bin', 'L = (nPATH != 0) * (D == 0)', 'L = (nPATH != 0) * (D <= 1)', '', file=E)
    B('inverse distance keeps diagonal', 'efficiency_bin', '        D = 1 / D\n        np.fill_diagonal(D, 0)\n', '        D = 1 / D\n', 'T.unreached-to-inf-then-inverted', file=E)
    B('routing efficiency counts diagonal', 'rout_efficiency', '    np.fill_diagonal(Erout, 0)\n', '', 'E.routing', file=E)
    B('charpath drops diagonal always', 'charpath', '    if not include_diagonal:\n        np.fill_diagonal(D, np.nan)', '    np.fill_diagonal(D, np.nan)', 'E.charpath-exclusions')
    B('reachdist sentinel off by one', 'reachdist', 'D[D == n + 2] = np.inf', 'D[D == n + 1] = np.inf', 'T.reachdist')
    B('reachdist in/out degree axes exchanged', 'reachdist', 'id = np.sum(CIJ, axis=0)\n    od = np.sum(CIJ, axis=1)', 'id = np.sum(CIJ, axis=1)\n    od = np.sum(CIJ, axis=0)', 'E.unreachable')
    B('reachdist sinks marked as unreachable targets', 'reachdist', 'D[:, id0] = np.inf\n    D[od0, :] = np.inf', 'D[:, od0] = np.inf\n    D[id0, :] = np.inf', 'E.unreachable')
    B('reachdist completion block transposed', 'reachdist', 'R, D, powr = reachdist2(CIJ, CIJpwr, R, D, n, powr, col, row)\n\n', 'R, D, powr = reachdist2(CIJ, CIJpwr, R, D, n, powr, row, col)\n\n', 'E.completion')
    B('reachdist source-less columns not marked', 'reachdist', '    D[:, id0] = np.inf\n', '', 'E.unreachable')
    N('reachdist degrees by method call', 'reachdist', 'id = np.sum(CIJ, axis=0)\n    od = np.sum(CIJ, axis=1)', 'id = CIJ.sum(axis=0)\n    od = CIJ.sum(axis=1)')
    N('reachdist zero sets by flatnonzero', 'reachdist', 'id0, = np.where(id == 0)', 'id0 = np.flatnonzero(id == 0)')
    N('n**2 spelling', 'efficiency_bin', 'E = np.sum(e) / (n * n - n)', 'E = np.sum(e) / (n ** 2 - n)', file=E)
    N('logical_not mask', 'distance_bin', 'D[D == 0] = np.inf', 'D[np.logical_not(D)] = np.inf')
    return out
