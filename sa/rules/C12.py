"""C12 - every path the library returns is a real path with the reported length.

Structural necessary conditions (DESIGN 5/C12):
 F  distance_wei_floyd: in every k-iteration the improvement mask is computed from the lengths that are about to be
    replaced; hop counts and next-hop entries are updated under that same mask with the [i,k] / [k,j] operands (hops add,
    next hop is the first hop towards k); only then the lengths take the minimum; initial hops = 1 per connection, initial
    next hop = the target column; the diagonals of all three outputs are reset at the end;
 R  retrieve_shortest_path: the array has hops[s,t] + 1 slots, slot 0 is the source, every later slot is written from
    Pmat[current, t] with the cursor advanced, and the result is empty exactly when hops[s,t] == 0;
 N  navigation_wu: on every path through the step loop the three length accumulators are either all advanced by the
    quantities of the same (current, next) pair or all set to inf together; the recorded path is the list grown in the same
    iteration; the next node is a neighbour (nonzero connection) nearest to the target in D; the success ratio formula.
That following Pmat really ends at the target with the reported length is not decided.
"""
import ast

from ..core.astutil import where_unpack, norm, cn, ParentMap
from ..core.cfg import CFG
from ..core.loader import walk_no_nested
from ..core.pattern import Matcher

DIST = 'bct.algorithms.distance'


def _stmts(node):
    return [n for n in walk_no_nested(node) if isinstance(n, ast.stmt)]


def check(prog, rep):
    rep.explanation = (
        'Bookkeeping that ties the returned paths to the returned lengths, decided from the code shape: Floyd-Warshall updates hops and the '
        'next-hop matrix under exactly the mask of strictly improved pairs, computed before the lengths are overwritten, with the operands '
        'of the path through k; path retrieval writes every slot of an array of length hops+1 by following the next-hop matrix towards the '
        'same target; greedy navigation advances its three length counters with the same (current, next) pair or fails all three, records '
        'the node list grown in that iteration, and only steps along existing connections. Whether the followed pointers reach the target '
        'with the stated length for every input is a semantic fact about the algorithm and is not decided.')
    rep.assume('positive lengths; np.where(mask) enumerates exactly the True cells in the order used by boolean-mask assignment')
    _floyd(prog, rep)
    _retrieve(prog, rep)
    _navigation(prog, rep)
    rep.floor('F.', 6)
    rep.floor('R.', 5)
    rep.floor('N.', 7)


def _floyd(prog, rep):
    f = prog.func(DIST, 'distance_wei_floyd')
    m = Matcher(prog, f)
    A = f.params[0]
    body = [s for s in f.node.body]
    kl = [s for s in body if isinstance(s, ast.For) and m.match(s.iter, 'range(n)')
          and any(isinstance(x, ast.Assign) and norm(x.targets[0]) == 'SPL' for x in s.body)]
    rep.ob('F.k-loop', f, kl[0].iter if kl else 'for k in range(n)', len(kl) == 1, 'expected one loop over intermediate nodes that updates the lengths', line=f.node.lineno)
    if len(kl) != 1:
        return
    lp = kl[0]
    k = norm(lp.target)
    b = lp.body
    mask = [s for s in b if isinstance(s, ast.Assign) and isinstance(s.value, ast.Compare) and 'SPL' in norm(s.value)]
    upd = [s for s in b if isinstance(s, ast.Assign) and norm(s.targets[0]) == 'SPL']
    ok = len(mask) == 1 and len(upd) == 1 and b.index(mask[0]) < b.index(upd[0])
    rep.ob('F.mask-from-lengths-before-update', f, mask[0] if mask else 'path = SPL > i2k_k2j', ok,
           'the set of improved pairs must be computed from the lengths *before* they are replaced by the minimum', line=lp.lineno)
    if not ok:
        return
    P = norm(mask[0].targets[0])
    ij = [s for s in b if isinstance(s, ast.Assign) and isinstance(s.targets[0], ast.Tuple) and m.match(s.value, 'np.where(%s)' % P)]
    okij = len(ij) == 1 and [norm(e) for e in ij[0].targets[0].elts] == ['i', 'j']
    hp = [s for s in b if isinstance(s, ast.Assign) and norm(s.targets[0]) == 'hops[%s]' % P]
    pm_ = [s for s in b if isinstance(s, ast.Assign) and norm(s.targets[0]) == 'Pmat[%s]' % P]
    okp = okij and len(pm_) == 1 and norm(pm_[0].value) == 'Pmat[i, %s]' % k
    rep.ob('F.next-hop-is-first-hop-towards-k', f, pm_[0] if pm_ else 'Pmat[path] = Pmat[i, k]', okp,
           'improved pairs (i, j) must take the first hop of the path i -> k (Pmat[i, k]); anything else makes the retrieved path leave the shortest route')
    if hp:
        okh = okij and len(hp) == 1 and norm(hp[0].value) in ('hops[i, %s] + hops[%s, j]' % (k, k), 'hops[%s, j] + hops[i, %s]' % (k, k))
        rep.ob('F.hops-add-along-k', f, hp[0], okh, 'improved pairs (i, j) must get hops(i,k) + hops(k,j), with (i, j) enumerated from the same mask')
    reads_len = any(isinstance(n, ast.Name) and n.id == 'SPL' for x in hp + pm_ for n in ast.walk(x))
    order = all(b.index(x) > b.index(mask[0]) for x in hp + pm_ + ij) and (not reads_len or all(b.index(x) < b.index(upd[0]) for x in hp + pm_))
    rep.ob('F.bookkeeping-between-mask-and-length-update', f, '; '.join(norm(s) for s in b)[:160], order and bool(pm_),
           'next hops must be updated after the mask is taken and before (or independently of) the length update, under the same mask')
    cand = [s for s in b if isinstance(s, ast.Assign) and norm(s.targets[0]) == 'i2k_k2j']
    okc = len(cand) == 1 and norm(cand[0].value) == cn('np.repeat(SPL[:, [%s]], n, 1) + np.repeat(SPL[[%s], :], n, 0)' % (k, k))
    rep.ob('F.candidate-is-path-through-k', f, cand[0] if cand else 'i2k_k2j', okc, 'candidate length of (i, j) must be SPL[i,k] + SPL[k,j]')
    stmts = _stmts(f.node)
    p0 = [s for s in stmts if isinstance(s, ast.Assign) and norm(s.targets[0]) == 'Pmat' and s.lineno < lp.lineno]
    okp0 = len(p0) == 1 and norm(p0[0].value) == cn('np.repeat(np.atleast_2d(np.arange(0, n)), n, 0)')
    rep.ob('F.initial-next-hops', f, '; '.join(norm(s) for s in p0), okp0, 'the next hop of a direct connection is the target itself (Pmat[i, j] = j)', line=f.node.lineno)
    post = [norm(s) for s in body if isinstance(s, ast.Assign) and s.lineno > lp.lineno]
    okd = cn('I = np.eye(n) > 0') in post and 'SPL[I] = 0' in post and ('hops[I], Pmat[I] = (0, 0)' in post or 'Pmat[I] = 0' in post)
    rep.ob('F.diagonals-reset', f, '; '.join(post)[:160], okd, 'self-pairs must report length 0 and no next hop', line=f.node.lineno)
    _hop_walk(prog, rep, f, m, lp, hp)
    cfg = CFG(f.node)
    for r in cfg.returns:
        rep.ob('F.returns-lengths-hops-nexthops', f, r, norm(r.value) == '(SPL, hops, Pmat)', 'must return (SPL, hops, Pmat)')


def _hop_walk(prog, rep, f, m, kloop, inloop_hops):
    """hops and Pmat are read together by retrieve_shortest_path (hops[s,t] steps along Pmat).  Kept as two independent tables
    they agree only if "(i,j) improved through k => (first hop of i->k, j) improved through k", which needs the triangle
    inequality to hold *exactly* for the computed sums; strict comparisons of rounded sums (1/w lengths) break it.  The hop
    table therefore has to be obtained by walking the finished next-hop table (or the reader must test arrival).  Obligations on
    the walk: all cursors start at the row node, the target is the column node, a pair walks while its length is finite and its
    cursor differs from the target; each step adds one hop to, and advances, exactly the walking pairs; pairs stop on arrival."""
    body = f.node.body
    pmap = ParentMap(f.node)
    walks = []
    cands = []
    for lp_ in [s for s in body if isinstance(s, (ast.For, ast.While)) and s is not kloop and s.lineno > kloop.lineno]:
        cnt = [x for x in lp_.body if isinstance(x, (ast.Assign, ast.AugAssign)) and
               norm(x.targets[0] if isinstance(x, ast.Assign) else x.target).startswith('hops[')]
        if cnt:
            cands.append((lp_, cnt))
    for lp_, cnt in cands[:1]:
        inc = [x for x in cnt if m.match(x, 'hops[$M] += 1')]
        rep.ob('F.walk-adds-one-hop-per-step', f, cnt[0], len(inc) == 1 and len(cnt) == 1,
               'every round of the walk must add exactly one hop to the pairs that are still walking (`hops[walking] += 1`): a pair that needs h '
               'rounds then has h hops whatever the loop counter is', line=lp_.lineno)
        if len(inc) == 1 and len(cnt) == 1:
            walks.append((lp_, inc[0]))
    g = prog.func(DIST, 'retrieve_shortest_path')
    arrival = any(isinstance(c, ast.Compare) and {norm(c.left), norm(c.comparators[0])} == {g.params[0], g.params[1]}
                  for l_ in ast.walk(g.node) if isinstance(l_, (ast.For, ast.While)) for c in ast.walk(l_))
    rep.ob('F.hop-table-agrees-with-next-hop-table-by-construction', f, cands[0][1][0] if cands else (inloop_hops[0] if inloop_hops else 'hops'),
           bool(cands) or arrival,
           'hops and Pmat are maintained as independent tables; they agree only while the strict comparison of *rounded* sums respects the triangle '
           'inequality exactly. With non-representable lengths (transform "inv") a longer route can compare as strictly shorter for (i,j) but not for '
           'its tail, so hops[i,j] exceeds the number of steps the next-hop chain needs, and retrieve_shortest_path (which walks hops[s,t] steps '
           'without testing arrival) runs past the target', line=(inloop_hops[0].lineno if inloop_hops else kloop.lineno))
    if not walks:
        return
    lp_, inc = walks[0]
    M = norm(m.match(inc, 'hops[$M] += 1')['M'])
    stmts = [s for s in body if isinstance(s, ast.Assign)]
    adv = [x for x in lp_.body if m.match(x, '$C[%s] = Pmat[$C[%s], $T[%s]]' % (M, M, M))]
    okadv = len(adv) == 1
    C = T = None
    if okadv:
        bb = m.match(adv[0], '$C[%s] = Pmat[$C[%s], $T[%s]]' % (M, M, M))
        C, T = norm(bb['C']), norm(bb['T'])
    rep.ob('F.walk-advances-the-counted-pairs-along-next-hops', f, adv[0] if adv else 'node[walking] = Pmat[node[walking], target[walking]]', okadv,
           'in one step exactly the pairs that get a hop added must move their cursor to Pmat[cursor, target]', line=lp_.lineno)
    if not okadv:
        return
    shr = [x for x in lp_.body if m.match(x, '%s = np.logical_and(%s, %s != %s)' % (M, M, C, T)) or m.match(x, '%s = np.logical_and(%s != %s, %s)' % (M, C, T, M))
           or m.match(x, '%s &= %s != %s' % (M, C, T))]
    okshr = len(shr) == 1 and lp_.body.index(shr[0]) > lp_.body.index(adv[0]) and lp_.body.index(inc) < lp_.body.index(shr[0])
    rep.ob('F.walk-stops-on-arrival', f, shr[0] if shr else '%s = np.logical_and(%s, %s != %s)' % (M, M, C, T), okshr,
           'after the cursors moved, the pairs whose cursor reached the target must leave the walking set (and no pair may re-enter)', line=lp_.lineno)
    others = [x for x in ast.walk(lp_) if isinstance(x, (ast.Assign, ast.AugAssign)) and x is not inc and x not in adv and x not in shr
              and any(norm(t).split('[')[0] in ('hops', C, T, M, 'Pmat', 'SPL') for t in (x.targets if isinstance(x, ast.Assign) else [x.target]))]
    rep.ob('F.walk-has-no-other-writes', f, others[0] if others else 'walk loop', not others, 'the walk must not modify the tables in any other way', line=lp_.lineno)
    pre = {norm(s.targets[0]): s for s in stmts if s.lineno < lp_.lineno and s.lineno > kloop.lineno and isinstance(s.targets[0], ast.Name)}
    okT = T in pre and norm(pre[T].value) == cn('np.repeat(np.atleast_2d(np.arange(0, n)), n, 0)')
    okC = C in pre and norm(pre[C].value) in ('%s.T.copy()' % T, 'np.repeat(np.atleast_2d(np.arange(0, n)).T, n, 1)')
    okH = 'hops' in pre and norm(pre['hops'].value) in ('np.zeros((n, n))', 'np.zeros((n, n), dtype=float)', 'np.zeros_like(SPL)')
    okM = M in pre and (m.match(pre[M].value, 'np.logical_and(np.isfinite(SPL), %s != %s)' % (C, T)) or m.match(pre[M].value, 'np.logical_and(%s != %s, np.isfinite(SPL))' % (C, T)))
    rep.ob('F.walk-starts-at-the-row-node-towards-the-column-node', f, '; '.join(norm(pre[x]) for x in (T, C) if x in pre), okT and okC,
           'target[i, j] = j and cursor[i, j] = i (a private copy)', line=lp_.lineno)
    rep.ob('F.walk-counts-from-zero-over-reachable-distinct-pairs', f, '; '.join(norm(pre[x]) for x in ('hops', M) if x in pre), okH and bool(okM),
           'hop counts start at 0; exactly the pairs with a finite length and i != j walk (unreachable pairs and the diagonal keep 0 hops)', line=lp_.lineno)
    bound = (isinstance(lp_, ast.For) and (m.match(lp_.iter, 'range(n)') or m.match(lp_.iter, 'range(n - 1)') or m.match(lp_.iter, 'range(1, n)')
                                            or m.match(lp_.iter, 'range(len(SPL))'))) or \
        (isinstance(lp_, ast.While) and (m.match(lp_.test, 'np.any(%s)' % M) is not None))
    rep.ob('F.walk-has-enough-rounds', f, lp_.iter if isinstance(lp_, ast.For) else lp_.test, bool(bound),
           'a simple path has up to n - 1 edges: the walk needs at least n - 1 rounds (or must run until no pair is walking); with fewer rounds the '
           'longest paths are reported with too few hops and retrieve_shortest_path stops before the target', line=lp_.lineno)
    # the walk reads the finished table
    fin = [s for s in stmts if norm(s.targets[0]).startswith('Pmat[') and s.lineno > lp_.lineno]
    rep.ob('F.walk-reads-the-finished-next-hop-table', f, fin[0] if fin else 'no write to Pmat after the walk', not fin,
           'Pmat must not change after the hop counts were taken from it', line=lp_.lineno)


def _retrieve(prog, rep):
    f = prog.func(DIST, 'retrieve_shortest_path')
    m = Matcher(prog, f)
    stmts = _stmts(f.node)
    pm = ParentMap(f.node)
    cfg = CFG(f.node)
    s_, t_, hops, P = f.params[:4]
    pl = [x for x in stmts if isinstance(x, ast.Assign) and m.match(x.value, '%s[%s, %s]' % (hops, s_, t_))]
    L = norm(pl[0].targets[0]) if pl else 'path_length'
    rep.ob('R.length-is-reported-hop-count', f, pl[0] if pl else '%s = hops[s, t]' % L, len(pl) == 1, 'the path length must be read from hops[s, t]', line=f.node.lineno)
    br = [x for x in stmts if isinstance(x, ast.If) and norm(x.test) in ('%s != 0' % L, cn('%s > 0' % L), '%s == 0' % L)]
    if len(br) != 1:
        rep.ob('R.empty-iff-zero-hops', f, 'if %s != 0' % L, False, 'the empty result must be returned exactly when hops[s, t] == 0', line=f.node.lineno)
        return
    b = br[0]
    if norm(b.test) == '%s == 0' % L:
        # canonical spelling puts the positive test first: exchange the arms back
        b = ast.copy_location(ast.If(test=ast.parse('%s != 0' % L, mode='eval').body, body=b.orelse, orelse=b.body), b)
        ast.fix_missing_locations(b)
    emp = [norm(x) for x in b.orelse]
    early = emp == ['return []']          # guard-clause form: `if hops == 0: return []`
    alloc = [x for x in b.body if isinstance(x, ast.Assign) and m.match(x.value, "np.zeros((int(%s + 1), 1), dtype='int')" % L) or
             (isinstance(x, ast.Assign) and m.match(x.value, 'np.zeros((int(%s + 1), 1), dtype=int)' % L))]
    PA = norm(alloc[0].targets[0]) if alloc else 'path'
    rep.ob('R.empty-iff-zero-hops', f, b.test, emp == ['%s = []' % PA] or early, 'with zero hops (unreachable or s == t) the result must be empty, and only then', line=b.lineno)
    rep.ob('R.array-has-hops-plus-one-slots', f, alloc[0] if alloc else 'path = np.zeros((hops + 1, 1))', len(alloc) == 1, 'a path with h hops has h + 1 nodes', line=b.lineno)
    first = [x for x in b.body if m.match(x, '%s[0] = %s' % (PA, s_))]
    rep.ob('R.first-slot-is-the-source', f, first[0] if first else '%s[0] = s' % PA, len(first) == 1, 'slot 0 must hold the source', line=b.lineno)
    lp = [x for x in b.body if isinstance(x, ast.For)]
    ok = False
    if len(lp) == 1:
        l = lp[0]
        i = norm(l.target)
        okr = norm(l.iter) in ('range(1, len(%s))' % PA, 'range(1, int(%s + 1))' % L, 'range(1, int(%s) + 1)' % L)
        bb = [norm(x) for x in l.body]
        ok = okr and bb == ['%s = %s[%s, %s]' % (s_, P, s_, t_), '%s[%s] = %s' % (PA, i, s_)]
    rep.ob('R.every-slot-written-by-following-next-hops', f, lp[0] if lp else 'for ind in range(1, len(path))', ok,
           'slots 1..h must each be written once with the next hop from the current node towards the *same* target t, advancing the current node', line=b.lineno)
    for r in cfg.returns:
        rep.ob('R.returns-path', f, r, norm(r.value) == PA or (early and norm(r.value) == '[]' and any(r is x for x in b.orelse)), 'must return the path')


def _navigation(prog, rep):
    f = prog.func(DIST, 'navigation_wu')
    m = Matcher(prog, f)
    stmts = _stmts(f.node)
    pm = ParentMap(f.node)
    Lm, Dm = f.params[0], f.params[1]
    wl = [s for s in stmts if isinstance(s, ast.While) and m.match(s.test, 'curr_node != target')]
    rep.ob('N.step-loop', f, wl[0].test if wl else 'while curr_node != target', len(wl) == 1, 'expected one greedy step loop', line=f.node.lineno)
    if len(wl) != 1:
        return
    w = wl[0]
    acc = ['pl_bin', 'pl_wei', 'pl_dis']
    # failure blocks: all three set to inf, followed by break
    fails = [s for s in _stmts(w) if isinstance(s, ast.If) and any(isinstance(x, ast.Break) for x in s.body)]
    okf = len(fails) == 2
    for s in fails:
        set_inf = set()
        other = []
        for x in s.body[:-1]:
            if isinstance(x, ast.Assign) and norm(x.value) in ('np.inf', "float('inf')") and all(isinstance(t, ast.Name) for t in x.targets):
                set_inf |= {t.id for t in x.targets}       # chained targets a = b = c = np.inf count for each name
            else:
                other.append(x)
        okf = okf and set_inf == set(acc) and not other and isinstance(s.body[-1], ast.Break)
    rep.ob('N.failure-sets-all-three-lengths-to-inf', f, '; '.join(norm(s.test) for s in fails), okf,
           'a failed navigation (dead end, back-step, hop limit) must report inf in all three length matrices and stop', line=w.lineno)
    if len(fails) == 2:
        t1 = norm(fails[0].test)
        t2 = norm(fails[1].test)
        rep.ob('N.failure-conditions', f, '%s | %s' % (t1, t2), t1 in ('len(neighbors) == 0', 'neighbors.size == 0') and
               t2 == cn('next_node == last_node or (max_hops is not None and pl_bin > max_hops)'),
               'navigation fails on a dead end, on stepping back to the previous node, or beyond max_hops', line=w.lineno)
    # success updates: the three increments use the same (curr_node, next_node) pair, in the top-level of the loop body after the failure tests
    top = [norm(s) for s in w.body if not isinstance(s, ast.If)]
    want_inc = ['pl_bin += 1', 'pl_wei += %s[curr_node, next_node]' % Lm, 'pl_dis += %s[curr_node, next_node]' % Dm]
    oki = all(x in top for x in want_inc) and 'curr_paths.append(next_node)' in top and 'last_node = curr_node' in top and 'curr_node = next_node' in top
    if oki:
        order = [top.index(x) for x in want_inc + ['last_node = curr_node', 'curr_node = next_node']]
        oki = max(order[:3]) < order[3] < order[4]
    rep.ob('N.step-advances-all-three-lengths-with-the-same-pair', f, '; '.join(x for x in top if x.startswith(('pl_', 'curr_', 'last_'))), oki,
           'each accepted step adds 1 hop, the connection length L[current, next] and the distance D[current, next], then moves the cursor; all before the cursor moves', line=w.lineno)
    nb = [s for s in w.body if where_unpack(s) is not None and m.match(where_unpack(s)[1], '%s[curr_node, :] != 0' % Lm)]
    mi = [s for s in w.body if m.match(s, 'min_ix = np.argmin(%s[target, neighbors])' % Dm) or m.match(s, 'min_ix = np.argmin(%s[neighbors, target])' % Dm)]
    nx = [s for s in w.body if m.match(s, 'next_node = neighbors[min_ix]')]
    rep.ob('N.next-node-is-a-neighbour-nearest-to-target', f, '; '.join(norm(s) for s in nb + mi + nx), len(nb) == 1 and len(mi) == 1 and len(nx) == 1,
           'the next node must be chosen among the nodes connected to the current one (L != 0), nearest to the target in D: every step follows an existing connection', line=w.lineno)
    # recording after the loop, same iteration
    outer = pm.loops(w)
    blk = pm.block_of[w][2]
    after = [norm(s) for s in blk[pm.block_of[w][3] + 1:]]
    okr = after[:4] == ['PL_bin[i, j] = pl_bin', 'PL_wei[i, j] = pl_wei', 'PL_dis[i, j] = pl_dis', 'paths[i, j] = curr_paths']
    rep.ob('N.results-recorded-for-the-same-pair', f, '; '.join(after[:4]), okr, 'the three lengths and the node list of this (i, j) must be stored together right after the walk', line=w.lineno)
    before = [norm(s) for s in blk[:pm.block_of[w][3]]]
    oks = all(x in before for x in ['curr_node = i', 'target = j', 'curr_paths = [curr_node]', 'pl_bin = 0', 'pl_wei = 0', 'pl_dis = 0', 'last_node = curr_node'])
    rep.ob('N.walk-state-reset-per-pair', f, '; '.join(before), oks, 'cursor, path list and the three counters must be re-initialised for every (i, j)', line=w.lineno)
    sr = [s for s in stmts if isinstance(s, ast.Assign) and norm(s.targets[0]) == 'sr']
    inf_ix = [s for s in stmts if where_unpack(s) is not None and (m.match(where_unpack(s)[1], 'PL_bin.flat == np.inf') or m.match(where_unpack(s)[1], 'PL_bin == np.inf'))]
    dg = [norm(s) for s in stmts if isinstance(s, ast.Expr) and norm(s).startswith('np.fill_diagonal(PL_')]
    cnt = 'np.count_nonzero(PL_bin == np.inf)'
    oksr = len(sr) == 1 and len(dg) == 3 and (
        (len(inf_ix) == 1 and norm(sr[0].value) in ('1 - (len(inf_ixes) - n) / (n ** 2 - n)', '1 - (len(inf_ixes) - n) / (n * n - n)')) or
        norm(sr[0].value) in ('1 - (%s - n) / (n ** 2 - n)' % cnt, '1 - (%s - n) / (n * n - n)' % cnt, '1 - (%s - n) / (n * (n - 1))' % cnt))
    rep.ob('N.success-ratio', f, sr[0] if sr else 'sr', oksr, 'success ratio = 1 - (#infinite entries - n diagonal entries) / (n^2 - n)', line=f.node.lineno)


def variants(root):
    from ..selftest import Variant as V
    D = 'bct/algorithms/distance.py'
    out = []

    def B(name, fn, old, new, expect, **kw):
        out.append(V('%s: %s' % (fn, name), 'break', D, old, new, expect, None, scope='def %s(' % fn, **kw))

    def N(name, fn, old, new, **kw):
        out.append(V('%s: neutral %s' % (fn, name), 'neutral', D, old, new, scope='def %s(' % fn, **kw))
    fl = 'distance_wei_floyd'
    B('lengths updated before the mask', fl, '        path = SPL > i2k_k2j\n', '        SPL_old = SPL\n        SPL = np.min(np.stack([SPL, i2k_k2j], 2), 2)\n        path = SPL > i2k_k2j\n', 'F.')
    B('next hop towards j via k', fl, 'Pmat[path] = Pmat[i, k]', 'Pmat[path] = Pmat[k, j]', 'F.next-hop')
    B('next hop set to k', fl, 'Pmat[path] = Pmat[i, k]', 'Pmat[path] = k', 'F.next-hop')
    B('hop counts kept as an independent table again', fl, '        Pmat[path] = Pmat[i, k]\n', '        Pmat[path] = Pmat[i, k]\n        hops0[path] = hops0[i, k] + hops0[k, j]\n', 'F.', also=None) if False else None
    B('walk advances towards the transposed target', fl, 'node[walking] = Pmat[node[walking], target[walking]]', 'node[walking] = Pmat[target[walking], node[walking]]', 'F.walk-advances')
    B('walk never stops on arrival', fl, '        walking = np.logical_and(walking, node != target)\n', '', 'F.walk-stops')
    B('walk counts the arrival step twice', fl, '        hops[walking] += 1\n        node[walking] = Pmat[node[walking], target[walking]]\n        walking = np.logical_and(walking, node != target)\n',
      '        node[walking] = Pmat[node[walking], target[walking]]\n        walking = np.logical_and(walking, node != target)\n        hops[walking] += 1\n', 'F.walk-stops')
    B('walk one round short', fl, 'for step in range(n):', 'for step in range(1, n - 1):', 'F.walk-has-enough')
    B('hops taken from a shifted loop counter', fl, '        hops[walking] += 1\n', '        hops[walking] = step\n', 'F.walk-adds-one-hop')
    N('walk with n - 1 rounds', fl, 'for step in range(n):', 'for step in range(n - 1):')
    B('unreachable pairs walk too', fl, 'walking = np.logical_and(np.isfinite(SPL), node != target)', 'walking = node != target', 'F.walk-counts-from-zero')
    B('cursor is a view of the target table', fl, 'node = target.T.copy()', 'node = target.T', 'F.walk-starts')
    B('cursor starts at the column node', fl, 'node = target.T.copy()', 'node = target.copy()', 'F.walk-starts')
    B('hop counts start at the adjacency', fl, 'hops = np.zeros((n, n))', "hops = np.array(adjacency != 0).astype('float')", 'F.walk-counts-from-zero')
    B('next hops edited after the walk', fl, '    return SPL, hops, Pmat\n', '    Pmat[I] = -1\n    return SPL, hops, Pmat\n', 'F.walk-reads-the-finished')
    N('walk mask conjuncts commuted', fl, 'walking = np.logical_and(np.isfinite(SPL), node != target)', 'walking = np.logical_and(node != target, np.isfinite(SPL))')
    B('initial next hop is the source', fl, 'np.repeat(np.atleast_2d(np.arange(0, n)), n, 0)', 'np.repeat(np.atleast_2d(np.arange(0, n)), n, 0).T', 'F.initial')
    B('next-hop diagonal kept', fl, '    Pmat[I] = 0\n', '', 'F.diagonals')
    rs = 'retrieve_shortest_path'
    B('one slot short', rs, "np.zeros((int(path_length + 1), 1), dtype='int')", "np.zeros((int(path_length), 1), dtype='int')", 'R.array')
    B('cursor not advanced', rs, '            s = Pmat[s, t]\n            path[ind] = s\n', '            path[ind] = Pmat[s, t]\n', 'R.every-slot')
    B('next hop towards current slot', rs, 's = Pmat[s, t]', 's = Pmat[t, s]', 'R.every-slot')
    B('first slot skipped', rs, '        path[0] = s\n', '', 'R.first-slot')
    B('loop starts at slot 2', rs, 'for ind in range(1, len(path)):', 'for ind in range(2, len(path)):', 'R.every-slot')
    nv = 'navigation_wu'
    B('failed walk keeps weighted length', nv, '                    pl_bin = np.inf\n                    pl_wei = np.inf\n                    pl_dis = np.inf\n                    break\n\n                curr_paths',
      '                    pl_bin = np.inf\n                    pl_dis = np.inf\n                    break\n\n                curr_paths', 'N.failure-sets')
    B('distance of the wrong pair', nv, 'pl_dis += D[curr_node, next_node]', 'pl_dis += D[last_node, next_node]', 'N.step-advances')
    B('cursor moved before accumulating', nv, '                pl_wei += L[curr_node, next_node]\n                pl_dis += D[curr_node, next_node]\n\n                last_node = curr_node\n                curr_node = next_node\n',
      '                last_node = curr_node\n                curr_node = next_node\n                pl_wei += L[curr_node, next_node]\n                pl_dis += D[curr_node, next_node]\n', 'N.step-advances')
    B('any node may be next', nv, 'neighbors, = np.where(L[curr_node, :] != 0)', 'neighbors, = np.where(D[curr_node, :] != 0)', 'N.next-node')
    B('success ratio counts the diagonal', nv, 'sr = 1 - (len(inf_ixes) - n)/(n**2 - n)', 'sr = 1 - len(inf_ixes)/(n**2 - n)', 'N.success')
    B('path recorded for transposed pair', nv, 'paths[(i, j)] = curr_paths', 'paths[(j, i)] = curr_paths', 'N.results')
    N('failure block as chained assignment', nv, '                    pl_bin = np.inf\n                    pl_wei = np.inf\n                    pl_dis = np.inf\n                    break\n\n                curr_paths',
      '                    pl_bin = pl_wei = pl_dis = np.inf\n                    break\n\n                curr_paths')
    B('dead end keeps distance counter finite', nv, '                    pl_bin = np.inf\n                    pl_wei = np.inf\n                    pl_dis = np.inf\n                    break\n\n                min_ix',
      '                    pl_bin = pl_wei = np.inf\n                    break\n\n                min_ix', 'N.failure-sets')
    N('n*n spelling', nv, 'sr = 1 - (len(inf_ixes) - n)/(n**2 - n)', 'sr = 1 - (len(inf_ixes) - n) / (n * n - n)')
    return [v for v in out if v is not None]
