"""C05 - seeded calls are reproducible and never touch the global random stream.

Effect discipline over the whole call graph (engine A / RNG part, DESIGN 4.A):
 R1 every seed-accepting function binds rng = get_rng(seed) exactly once, outside
    any loop, dominating every draw -- or is a pure forwarder / worker-tuple packer;
 R2 every call to a seed-accepting callee passes the local rng object (forwarders: the seed);
 R3 the callee closure of every seed-accepting function contains no use of a
    process-global generator or other nondeterminism source;
 R4 get_rng maps None/np.random -> the global RandomState, RandomState -> itself,
    anything else -> a fresh RandomState built from the argument only; no module state;
 R5 every draw is a method call on the local rng value (never on np.random / random);
 R6 no hidden state: no `global`, no mutable default argument, `seed` never rebound.
"""
import ast

from ..core.astutil import norm, ParentMap, get_kw
from ..core.cfg import CFG
from ..core.loader import AnalysisError, walk_no_nested
from ..engines.callgraph import CallGraph

DRAW_METHODS = {
    'rand', 'randn', 'randint', 'random_integers', 'random_sample', 'random', 'ranf', 'sample',
    'choice', 'bytes', 'shuffle', 'permutation', 'beta', 'binomial', 'chisquare', 'dirichlet',
    'exponential', 'gamma', 'geometric', 'gumbel', 'hypergeometric', 'laplace', 'logistic',
    'lognormal', 'logseries', 'multinomial', 'multivariate_normal', 'negative_binomial',
    'noncentral_chisquare', 'noncentral_f', 'normal', 'pareto', 'poisson', 'power', 'rayleigh',
    'standard_cauchy', 'standard_exponential', 'standard_gamma', 'standard_normal', 'standard_t',
    'triangular', 'uniform', 'vonmises', 'wald', 'weibull', 'zipf', 'integers',
    'seed', 'set_state', 'get_state', 'getrandbits', 'randrange', 'gauss', 'betavariate',
    'expovariate', 'gammavariate', 'lognormvariate', 'normalvariate', 'paretovariate',
    'triangular', 'vonmisesvariate', 'weibullvariate', 'choices', 'setstate', 'getstate', 'randbytes',
}
# state readers are also forbidden on the global object inside a seeded closure only if they
# write; get_state is read-only but reveals nothing wrong -> allowed on the global stream.
GLOBAL_READONLY = {'get_state', 'getstate'}

NONDET_EXT_PREFIX = ('time.', 'os.urandom', 'os.getpid', 'uuid.', 'secrets.', 'datetime.')
GLOBAL_RNG_MODULES = ('numpy.random', 'random')


def _is_global_rng_ref(res):
    """resolution names numpy.random(.something) or the stdlib random module"""
    if res[0] != 'ext':
        return False
    q = res[1]
    return q == 'random' or q.startswith('random.') or q == 'numpy.random' or q.startswith('numpy.random.')


def _local_ctor(qual, call):
    """Constructors of *local* generators: RandomState(arg...), random.Random(arg...), default_rng(arg),
    Generator/PCG64/MT19937(arg).  Without argument they draw OS entropy -> nondeterministic."""
    tail = qual.rsplit('.', 1)[-1]
    if tail in ('RandomState', 'Random', 'default_rng', 'Generator', 'PCG64', 'MT19937', 'SeedSequence', 'SystemRandom'):
        if tail == 'SystemRandom':
            return 'nondet'
        if call is not None and (call.args or call.keywords):
            return 'local'
        return 'nondet'
    return None


class Ctx:
    def __init__(self, prog, rep):
        self.prog = prog
        self.rep = rep
        self.cg = CallGraph(prog)
        self.get_rng = None
        hits = [f for f in prog.all_functions() if f.name == 'get_rng' and f.parent is None]
        if len(hits) != 1:
            raise AnalysisError('expected exactly one get_rng, found %d' % len(hits))
        self.get_rng = hits[0]
        self.seedable = [f for f in prog.all_functions()
                         if 'seed' in f.all_params and f is not self.get_rng]


def _rng_bindings(ctx, f):
    """[(stmt, target name, call node)] for `x = get_rng(...)` in f's own body."""
    out = []
    for n in walk_no_nested(f.node):
        if isinstance(n, ast.Assign) and isinstance(n.value, ast.Call):
            r = ctx.prog.resolve_expr(f, n.value.func)
            if r[0] == 'func' and r[1] is ctx.get_rng:
                for t in n.targets:
                    if isinstance(t, ast.Name):
                        out.append((n, t.id, n.value))
    return out


def _stores(f, name):
    out = []
    for n in walk_no_nested(f.node):
        if isinstance(n, ast.Name) and n.id == name and isinstance(n.ctx, (ast.Store, ast.Del)):
            out.append(n)
    return out


def _rng_names(ctx, f):
    """Names that hold the local generator inside f: targets of get_rng bindings whose every
    store in f is such a binding; plus, for nested functions, the enclosing function's rng names
    that f does not rebind; plus parameters literally forwarded an rng (handled by callers)."""
    names = {}
    binds = _rng_bindings(ctx, f)
    by = {}
    for st, nm, call in binds:
        by.setdefault(nm, []).append((st, call))
    for nm, lst in by.items():
        if len(_stores(f, nm)) == len(lst):
            names[nm] = lst
    if f.parent is not None:
        for nm, lst in _rng_names(ctx, f.parent).items():
            if nm not in names and not _stores(f, nm) and nm not in f.all_params:
                names[nm] = lst
    return names


def _direct_global_uses(ctx, f):
    """Call sites in f's own body that use a process-global generator / nondeterminism source.
    Returns list of (node, description)."""
    bad = []
    pm = None
    for n in walk_no_nested(f.node):
        if isinstance(n, ast.Call):
            r = ctx.prog.resolve_expr(f, n.func)
            if r[0] == 'ext':
                q = r[1]
                if _is_global_rng_ref(r):
                    kind = _local_ctor(q, n)
                    if kind == 'local':
                        continue
                    if kind == 'nondet':
                        bad.append((n, 'generator constructed without a seed argument (OS entropy): ' + q))
                        continue
                    if q.rsplit('.', 1)[-1] in GLOBAL_READONLY:
                        continue
                    bad.append((n, 'call on the process-global generator: ' + q))
                elif q.startswith(NONDET_EXT_PREFIX):
                    bad.append((n, 'nondeterminism source: ' + q))
            elif r[0] == 'builtin' and r[1] in ('hash', 'id'):
                bad.append((n, 'nondeterminism source: builtin %s()' % r[1]))
            elif r[0] == 'method':
                # method call on an expression: is the receiver a local-generator constructor or the global object?
                recv = n.func.value
                meth = n.func.attr
                if meth in DRAW_METHODS and meth not in GLOBAL_READONLY:
                    rr = _classify_receiver(ctx, f, recv)
                    if rr == 'global':
                        bad.append((n, 'draw on an alias of the process-global generator'))
                    elif rr == 'nondet':
                        bad.append((n, 'draw on a generator constructed without seed'))
    return bad


def _classify_receiver(ctx, f, recv, depth=0):
    """'global' | 'nondet' | 'localctor' | 'rng' | 'unknown' for a receiver expression."""
    if depth > 4:
        return 'unknown'
    if isinstance(recv, ast.Call):
        r = ctx.prog.resolve_expr(f, recv.func)
        if r[0] == 'ext' and _is_global_rng_ref(r):
            k = _local_ctor(r[1], recv)
            if k == 'local':
                return 'localctor'
            if k == 'nondet':
                return 'nondet'
            return 'global'
        if r[0] == 'func' and r[1] is ctx.get_rng:
            if not recv.args and not recv.keywords:
                return 'global'
            return 'rng'
        return 'unknown'
    if isinstance(recv, (ast.Attribute, ast.Name)):
        r = ctx.prog.resolve_expr(f, recv)
        if r[0] == 'ext' and _is_global_rng_ref(r):
            return 'global'
        if isinstance(recv, ast.Name) and r[0] == 'local':
            if recv.id in _rng_names(ctx, f):
                return 'rng'
            # follow simple local definitions
            g = f
            while g is not None:
                kinds = set()
                found = False
                for n in walk_no_nested(g.node):
                    if isinstance(n, ast.Assign) and any(isinstance(t, ast.Name) and t.id == recv.id for t in n.targets):
                        found = True
                        kinds.add(_classify_receiver(ctx, g, n.value, depth + 1))
                if found:
                    for k in ('global', 'nondet'):
                        if k in kinds:
                            return k
                    if kinds == {'rng'}:
                        return 'rng'
                    if kinds == {'localctor'}:
                        return 'localctor'
                    return 'unknown'
                if recv.id in g.all_params:
                    return 'param'
                g = g.parent
        return 'unknown'
    if isinstance(recv, ast.IfExp):
        ks = {_classify_receiver(ctx, f, recv.body, depth + 1), _classify_receiver(ctx, f, recv.orelse, depth + 1)}
        for k in ('global', 'nondet'):
            if k in ks:
                return k
    return 'unknown'


def _seed_arg_of_call(call, callee):
    """Expression passed for the callee's `seed` parameter, or None if omitted; 'STAR' if unknowable."""
    for k in call.keywords:
        if k.arg == 'seed':
            return k.value
        if k.arg is None:
            return 'STAR'
    if any(isinstance(a, ast.Starred) for a in call.args):
        return 'STAR'
    if 'seed' in callee.params:
        idx = callee.params.index('seed')
        if len(call.args) > idx:
            return call.args[idx]
    return None


def _in_loop(pm, node):
    return bool(pm.loops(node))


def check(prog, rep):
    ctx = Ctx(prog, rep)
    cg = ctx.cg
    rep.explanation = (
        'RNG effect discipline decided from the source: every function with a `seed` parameter is '
        'checked for (R1) a single get_rng(seed) binding that dominates all draws, (R2) forwarding of '
        'the local generator object to every seed-accepting callee, (R3) absence of any use of the '
        'process-global numpy/stdlib generators or other nondeterminism sources in its whole resolved '
        'callee closure, (R5) draws only through the local generator, (R6) no hidden state; get_rng '
        'itself is checked branch by branch (R4). Together these imply determinism given (args, seed), '
        'int-seed == RandomState(int) equivalence, and an untouched global stream, for all inputs.')
    rep.assume('numpy RandomState / random.Random methods are deterministic functions of the object state')
    rep.assume('no dynamic code (exec/eval/getattr-dispatch/importlib) reaches a generator; checked: such calls are reported')
    rep.trust('resolution of names through the package import tables (sa/core/loader.py)')

    seedable = ctx.seedable
    rep.stat('seed_accepting_functions', len(seedable))
    rep.stat('call_sites_resolved', sum(len(v) for v in cg.calls.values()))
    rep.stat('call_sites_unresolved', len(cg.unresolved))

    # ---------------- R4: get_rng ------------------------------------------------
    _check_get_rng(ctx)

    direct = {f: _direct_global_uses(ctx, f) for f in prog.all_functions()}

    n_draws = 0
    for f in sorted(seedable, key=lambda x: x.key):
        pm = ParentMap(f.node)
        cfg = CFG(f.node)
        binds = _rng_bindings(ctx, f)
        rngs = _rng_names(ctx, f)
        # seedable callees called from f (own body and nested helpers)
        scalls = []
        bodies = [f] + [g for g in cg.closure(f) if _is_nested_in(g, f)]
        for g in bodies:
            for call, r in cg.calls[g]:
                if r[0] == 'func' and 'seed' in r[1].all_params and r[1] is not ctx.get_rng:
                    scalls.append((g, call, r[1]))
        # draws in f and nested helpers
        draws = []
        for g in bodies:
            gr = _rng_names(ctx, g)
            for call, r in cg.calls[g]:
                if r[0] == 'method' and isinstance(call.func, ast.Attribute) and call.func.attr in DRAW_METHODS:
                    k = _classify_receiver(ctx, g, call.func.value)
                    if k in ('rng', 'global', 'nondet', 'localctor'):
                        draws.append((g, call, k))
        n_draws += len(draws)

        # ---- R6: seed never rebound, no global stmt, immutable defaults
        st = _stores(f, 'seed')
        rep.ob('R6.seed-not-rebound', f, 'seed', not st,
               'parameter `seed` is reassigned at line %s; the generator would no longer be a function of the caller\'s seed' %
               (st[0].lineno if st else ''))
        # ---- R1
        all_get = [(g, call) for g in bodies for call, r in cg.calls[g] if r[0] == 'func' and r[1] is ctx.get_rng]
        stray = [(g, call) for g, call in all_get if not any(call is b[2] for b in binds)]
        for g, call in stray:
            rep.ob('R1.single-binding', f, call, False,
                   'get_rng is called outside the single `rng = get_rng(seed)` binding%s: an int seed restarts the stream '
                   'at each such call while a RandomState continues' % (' (in helper %s)' % g.qualname if g is not f else ''),
                   line=call.lineno)
        if binds:
            ok_one = len(binds) == 1
            rep.ob('R1.single-binding', f, binds[0][0], ok_one,
                   'get_rng is called %d times in one activation; an int seed restarts the stream each time while a '
                   'RandomState continues, so the two seed forms diverge' % len(binds))
            for stmt, nm, call in binds:
                arg = call.args[0] if call.args else get_kw(call, 'seed')
                ok = isinstance(arg, ast.Name) and arg.id == 'seed' and not call.keywords[1:] and len(call.args) <= 1
                rep.ob('R1.binding-arg-is-seed', f, stmt, ok,
                       'get_rng must receive the `seed` parameter itself (got %s): otherwise the seed is ignored or the '
                       'global stream is used' % (norm(arg) if arg is not None else 'no argument'))
                rep.ob('R1.binding-not-in-loop', f, stmt, not _in_loop(pm, stmt),
                       'get_rng(seed) inside a loop re-creates the generator per iteration (int seed restarts, RandomState continues)')
                rep.ob('R1.name-is-rng', f, stmt, nm in rngs,
                       'name %s is also assigned something other than get_rng(seed) in this function' % nm)
            for g, call, k in draws:
                stmt0 = binds[0][0]
                if g is f:
                    dst = pm.stmt_of(call)
                    ok = cfg.dominates(stmt0, dst)
                    rep.ob('R1.binding-dominates-draw', f, call, ok,
                           'a path reaches this draw without passing the get_rng(seed) binding')
                else:
                    # nested helper: binding must dominate the def statement of the outermost helper in f
                    h = g
                    while h.parent is not f:
                        h = h.parent
                    ok = cfg.dominates(stmt0, h.node)
                    rep.ob('R1.binding-dominates-draw', f, call, ok,
                           'nested helper %s is defined on a path not dominated by the get_rng(seed) binding' % h.name,
                           line=call.lineno)
        else:
            # forwarder (b) or worker packer (c) or no randomness at all
            mode = None
            if len(scalls) == 1 and not draws:
                g, call, callee = scalls[0]
                sa = _seed_arg_of_call(call, callee)
                fwd = isinstance(sa, ast.Name) and sa.id == 'seed'
                gpm = pm if g is f else ParentMap(g.node)
                rep.ob('R1.forwarder', f, call, fwd and not _in_loop(gpm, call),
                       'a function without its own generator must hand `seed` to exactly one seed-accepting call, outside loops '
                       '(got seed=%s%s)' % (norm(sa) if sa is not None and sa != 'STAR' else sa,
                                            ', inside a loop' if _in_loop(gpm, call) else ''))
                mode = 'forwarder'
            elif not scalls and not draws:
                w = _worker_pack(ctx, f)
                if w is not None:
                    mode = 'worker'
                    ok, why, node = w
                    rep.ob('R1.worker-tuple', f, node, ok, why)
                else:
                    rep.ob('R1.seed-consumed', f, f.node.name, False,
                           '`seed` parameter is accepted but never reaches get_rng or a seed-accepting callee', line=f.node.lineno)
            else:
                rep.ob('R1.single-binding', f, f.node.name, False,
                       'function draws or calls several seed-accepting callees but never binds rng = get_rng(seed)',
                       line=f.node.lineno)
        # ---- R2: forwarding
        for g, call, callee in scalls:
            if not binds and len(scalls) == 1 and not draws:
                continue   # judged by R1.forwarder
            sa = _seed_arg_of_call(call, callee)
            grn = _rng_names(ctx, g)
            if sa is None:
                ok, why = False, 'seed-accepting callee %s is called without a seed: it falls back to the global stream' % callee.name
            elif sa == 'STAR':
                ok, why = False, 'cannot see which value reaches %s(seed=...) through *args/**kwargs' % callee.name
            elif isinstance(sa, ast.Name) and sa.id in grn:
                ok, why = True, ''
            else:
                ok, why = False, ('%s receives seed=%s instead of the local generator object: an int seed would restart the '
                                  'stream in the callee while a RandomState continues it' % (callee.name, norm(sa)))
            rep.ob('R2.forward-rng', f, call, ok, why)
        # ---- R5: draws only through local rng
        for g, call, k in draws:
            rep.ob('R5.draw-on-local-rng', f, call, k == 'rng',
                   {'global': 'draw on the process-global generator',
                    'nondet': 'draw on an unseeded generator',
                    'localctor': 'draw on a generator other than get_rng(seed)\'s result: int seeds and RandomState seeds diverge'}.get(k, ''))
        # ---- R3: closure
        clo = cg.closure(f)
        bad_path = cg.path(f, lambda x: bool(direct.get(x)) and x is not ctx.get_rng)
        if bad_path is None:
            rep.ob('R3.closure-clean', f, '%d functions in callee closure' % len(clo), True, '', line=f.node.lineno)
        else:
            last = bad_path[-1]
            for node, desc in direct[last]:
                rep.ob('R3.closure-clean', f, node, False,
                       '%s in %s, reached via %s' % (desc, last.qualname, ' -> '.join(x.qualname for x in bad_path)),
                       line=node.lineno)
        # ---- R6: hidden state in closure
        for g in sorted(clo, key=lambda x: x.key):
            for n in walk_no_nested(g.node):
                if isinstance(n, (ast.Global, ast.Nonlocal)):
                    rep.ob('R6.no-hidden-state', f, n, False,
                           '%s in %s: results could depend on call history' % (norm(n), g.qualname), line=n.lineno)
            for pname, d in g.defaults.items():
                if isinstance(d, (ast.List, ast.Dict, ast.Set, ast.Call, ast.ListComp, ast.DictComp)):
                    rep.ob('R6.no-hidden-state', f, '%s=%s' % (pname, norm(d)), False,
                           'mutable default argument of %s persists across calls' % g.qualname, line=g.node.lineno)
        # dynamic-dispatch constructs
        for g in sorted(clo, key=lambda x: x.key):
            for call, r in cg.calls[g]:
                if r[0] == 'builtin' and r[1] in ('exec', 'eval', 'getattr', '__import__', 'compile'):
                    rep.ob('R3.no-dynamic-dispatch', f, call, False,
                           'dynamic construct %s in %s defeats the closure analysis' % (r[1], g.qualname), line=call.lineno)
    rep.stat('draw_sites', n_draws)

    # every function that binds get_rng without a `seed` parameter (worker bodies)
    for f in prog.all_functions():
        if f in seedable or f is ctx.get_rng:
            continue
        for stmt, nm, call in _rng_bindings(ctx, f):
            ok, why = _worker_body(ctx, f, stmt, call)
            rep.ob('R1.worker-body', f, stmt, ok, why)

    rep.floor('R1.', 38)
    rep.floor('R3.closure-clean', 38)
    rep.floor('R5.', 45)
    rep.floor('R2.', 5)
    rep.floor('R4.', 4)
    _fixtures(rep)


def _is_nested_in(g, f):
    p = g.parent
    while p is not None:
        if p is f:
            return True
        p = p.parent
    return False


# ------------------------------------------------------------------ worker tuples (nbs_parallel)
def _worker_pack(ctx, f):
    """nbs_parallel.nbs_bct: `seed` is placed unchanged in a tuple handed (via pool.map/map) to a worker
    whose matching unpacked name goes to get_rng.  Returns (ok, why, node) or None if no such shape."""
    for n in walk_no_nested(f.node):
        if isinstance(n, ast.Call) and isinstance(n.func, ast.Attribute) and n.func.attr in ('map', 'imap', 'starmap', 'apply_async') \
                or isinstance(n, ast.Call) and isinstance(n.func, ast.Name) and n.func.id == 'map':
            if not n.args:
                continue
            r = ctx.prog.resolve_expr(f, n.args[0])
            if r[0] != 'func':
                continue
            worker = r[1]
            wb = _rng_bindings(ctx, worker)
            if not wb:
                continue
            # position of the get_rng argument in worker's tuple-unpack of its parameter
            pos = _worker_seed_pos(ctx, worker, wb[0][2])
            if pos is None:
                return (False, 'worker %s does not obtain its get_rng argument from its argument tuple' % worker.name, n)
            # find the tuple built in f
            src = n.args[1] if len(n.args) > 1 else None
            tup = _find_tuple(f, src)
            if tup is None:
                return (False, 'cannot find the argument tuple passed to worker %s' % worker.name, n)
            if pos >= len(tup.elts):
                return (False, 'worker reads tuple slot %d which the caller does not fill' % pos, n)
            e = tup.elts[pos]
            ok = isinstance(e, ast.Name) and e.id == 'seed'
            return (ok, 'tuple slot %d consumed by %s as its seed is `%s`, not the caller\'s `seed`' % (pos, worker.name, norm(e)), n)
    return None


def _find_tuple(f, src):
    if src is None:
        return None
    if isinstance(src, ast.Name):
        for n in walk_no_nested(f.node):
            if isinstance(n, ast.Assign) and any(isinstance(t, ast.Name) and t.id == src.id for t in n.targets):
                return _find_tuple(f, n.value)
        return None
    if isinstance(src, (ast.ListComp, ast.GeneratorExp)):
        return src.elt if isinstance(src.elt, ast.Tuple) else None
    if isinstance(src, (ast.List, ast.Tuple)) and src.elts and isinstance(src.elts[0], ast.Tuple):
        return src.elts[0]
    return None


def _worker_seed_pos(ctx, worker, call):
    arg = call.args[0] if call.args else get_kw(call, 'seed')
    if not isinstance(arg, ast.Name) or len(worker.params) != 1:
        return None
    p = worker.params[0]
    for n in walk_no_nested(worker.node):
        if isinstance(n, ast.Assign) and isinstance(n.value, ast.Name) and n.value.id == p \
                and len(n.targets) == 1 and isinstance(n.targets[0], ast.Tuple):
            for i, e in enumerate(n.targets[0].elts):
                if isinstance(e, ast.Name) and e.id == arg.id:
                    return i
    return None


def _worker_body(ctx, f, stmt, call):
    """A function without `seed` parameter that binds get_rng(x): x must come from the argument tuple and
    any re-definition of x must depend on parameters only (e.g. `if seed is None: seed = u`)."""
    pos = _worker_seed_pos(ctx, f, call)
    if pos is None:
        return False, 'get_rng argument is not a name unpacked from the single tuple parameter'
    arg = (call.args[0] if call.args else get_kw(call, 'seed')).id
    unpacked = set()
    for n in walk_no_nested(f.node):
        if isinstance(n, ast.Assign) and len(n.targets) == 1 and isinstance(n.targets[0], ast.Tuple) \
                and isinstance(n.value, ast.Name) and n.value.id in f.params:
            unpacked |= {e.id for e in n.targets[0].elts if isinstance(e, ast.Name)}
    for n in walk_no_nested(f.node):
        if isinstance(n, ast.Assign) and any(isinstance(t, ast.Name) and t.id == arg for t in n.targets):
            used = {x.id for x in ast.walk(n.value) if isinstance(x, ast.Name)}
            if not used <= unpacked or any(isinstance(x, ast.Call) for x in ast.walk(n.value)):
                return False, 'worker re-derives its seed from %s, which is not a pure function of its arguments' % norm(n.value)
    pm = ParentMap(f.node)
    if _in_loop(pm, stmt):
        return False, 'get_rng called inside a loop'
    return True, ''


# ------------------------------------------------------------------ R4: get_rng itself
def _check_get_rng(ctx):
    f = ctx.get_rng
    rep = ctx.rep
    prog = ctx.prog
    cfg = CFG(f.node)
    pm = ParentMap(f.node)
    if f.params != ['seed']:
        rep.ob('R4.signature', f, f.node.name, False, 'get_rng must take exactly one parameter `seed`', line=f.node.lineno)
        return
    d = f.defaults.get('seed')
    rep.ob('R4.signature', f, 'seed=%s' % (norm(d) if d is not None else '<required>'),
           d is not None and isinstance(d, ast.Constant) and d.value is None,
           'get_rng() without argument must mean "global stream": default must be None', line=f.node.lineno)
    rets = cfg.returns
    if not rets:
        rep.ob('R4.returns', f, f.node.name, False, 'no return statement', line=f.node.lineno)
        return
    # falling off the end returns None
    from ..core.cfg import EXIT
    fall = [p for p in cfg.pred(EXIT) if not isinstance(p, ast.Return)]
    rep.ob('R4.no-fallthrough', f, f.node.name, not fall, 'a path falls off the end and returns None', line=f.node.lineno)
    saw_global = saw_pass = saw_fresh = False
    for r in rets:
        guards = pm.guards(r)
        v = r.value
        kind = _ret_kind(ctx, f, v)
        if kind == 'global':
            saw_global = True
            # must be guarded by a test that mentions `seed is None`
            conds = [norm(t) for t, pol, k, o in guards if pol]
            ok = any(_tests_none(t) for t, pol, k, o in guards if pol)
            rep.ob('R4.none->global', f, r, ok,
                   'the global generator is returned on a branch not guarded by `seed is None` (guards: %s)' % conds)
            # and every disjunct of that guard must be a none/np.random test
            for t, pol, k, o in guards:
                if pol and _tests_none(t):
                    extra = [norm(x) for x in _disjuncts(t) if not _is_none_test(x) and not _is_nprandom_test(ctx, f, x)]
                    rep.ob('R4.global-only-for-none', f, t, not extra,
                           'seed values other than None/np.random also get the global generator: %s' % extra)
        elif kind == 'passthrough':
            saw_pass = True
            ok = any(pol and _is_isinstance_rs(ctx, f, t) for t, pol, k, o in guards)
            rep.ob('R4.randomstate->itself', f, r, ok,
                   '`seed` is returned unchanged on a branch not guarded by isinstance(seed, RandomState)')
        elif kind == 'fresh':
            saw_fresh = True
            rep.ob('R4.other->fresh-from-arg', f, r, True, '')
        else:
            rep.ob('R4.return-kind', f, r, False, 'return value %s is neither the global generator, the argument, nor '
                   'a RandomState constructed from the argument' % norm(v))
    rep.ob('R4.has-none-branch', f, 'return <global RandomState>', saw_global,
           'no branch returns numpy\'s global RandomState: unseeded calls would not follow np.random.seed()', line=f.node.lineno)
    rep.ob('R4.has-passthrough-branch', f, 'return seed', saw_pass,
           'no branch returns a RandomState argument unchanged: nested calls could not share one stream', line=f.node.lineno)
    rep.ob('R4.has-fresh-branch', f, 'return RandomState(seed)', saw_fresh,
           'no branch builds a fresh RandomState from the seed', line=f.node.lineno)
    # fresh constructions: arguments depend on `seed` only; no module state; no global draws
    for n in walk_no_nested(f.node):
        if isinstance(n, ast.Call):
            r = prog.resolve_expr(f, n.func)
            if r[0] == 'ext' and _is_global_rng_ref(r):
                k = _local_ctor(r[1], n)
                if k == 'local':
                    names = {x.id for a in list(n.args) + [kw.value for kw in n.keywords] for x in ast.walk(a) if isinstance(x, ast.Name)}
                    free = {x for x in names if prog.resolve_name(f, x)[0] in ('local', 'global', 'unknown') and x != 'seed'
                            and x not in _derived_from_seed(f)}
                    rep.ob('R4.ctor-arg-from-seed', f, n, not free,
                           'generator constructed from %s, not from `seed` alone' % sorted(free))
                elif k == 'nondet':
                    rep.ob('R4.ctor-arg-from-seed', f, n, False, 'generator constructed without argument (OS entropy)')
                else:
                    rep.ob('R4.no-global-draw', f, n, r[1].rsplit('.', 1)[-1] in GLOBAL_READONLY,
                           'get_rng itself calls %s on the global stream' % r[1])
            elif r[0] == 'method' and isinstance(n.func, ast.Attribute) and n.func.attr in DRAW_METHODS:
                k = _classify_receiver(ctx, f, n.func.value)
                rep.ob('R4.no-global-draw', f, n, k in ('localctor', 'unknown', 'param'),
                       'get_rng draws from the %s generator' % k)
        if isinstance(n, (ast.Global, ast.Nonlocal)):
            rep.ob('R4.no-module-state', f, n, False, 'get_rng keeps state across calls')
        if isinstance(n, ast.Name) and isinstance(n.ctx, ast.Load):
            rr = prog.resolve_name(f, n.id)
            if rr[0] == 'global':
                rep.ob('R4.no-module-state', f, n, False,
                       'get_rng reads module-level variable %s: repeated calls with one seed could return a shared/advanced generator' % n.id)
    rep.ob('R4.no-module-state', f, 'no global/nonlocal/module variable', True, '', line=f.node.lineno)


def _derived_from_seed(f):
    """locals of get_rng whose every definition reads only `seed` (e.g. rstate = RandomState(seed))."""
    out = set()
    changed = True
    while changed:
        changed = False
        for n in walk_no_nested(f.node):
            if isinstance(n, ast.Assign) and len(n.targets) == 1 and isinstance(n.targets[0], ast.Name):
                nm = n.targets[0].id
                if nm in out:
                    continue
                used = {x.id for x in ast.walk(n.value) if isinstance(x, ast.Name) and isinstance(x.ctx, ast.Load)}
                loc = {u for u in used if u in {'seed'} | out or not _is_localish(f, u)}
                if used == loc:
                    out.add(nm)
                    changed = True
    return out


def _is_localish(f, name):
    from ..core.loader import local_stores
    return name in f.all_params or name in local_stores(f)


def _ret_kind(ctx, f, v, depth=0):
    if v is None or depth > 3:
        return 'other'
    if isinstance(v, ast.Name):
        if v.id == 'seed':
            return 'passthrough'
        kinds = set()
        for n in walk_no_nested(f.node):
            if isinstance(n, ast.Assign) and any(isinstance(t, ast.Name) and t.id == v.id for t in n.targets):
                kinds.add(_ret_kind(ctx, f, n.value, depth + 1))
        if kinds == {'fresh'}:
            return 'fresh'
        return 'other' if kinds else 'other'
    if isinstance(v, ast.Attribute):
        r = ctx.prog.resolve_expr(f, v)
        if r[0] == 'ext' and r[1] in ('numpy.random.mtrand._rand', 'numpy.random', 'numpy.random.mtrand'):
            return 'global'
        return 'other'
    if isinstance(v, ast.Call):
        r = ctx.prog.resolve_expr(f, v.func)
        if r[0] == 'ext' and _is_global_rng_ref(r) and _local_ctor(r[1], v) == 'local' and r[1].endswith('RandomState'):
            return 'fresh'
    return 'other'


def _disjuncts(t):
    if isinstance(t, ast.BoolOp) and isinstance(t.op, ast.Or):
        out = []
        for v in t.values:
            out += _disjuncts(v)
        return out
    return [t]


def _is_none_test(t):
    return (isinstance(t, ast.Compare) and len(t.ops) == 1 and isinstance(t.ops[0], (ast.Is, ast.Eq))
            and isinstance(t.left, ast.Name) and t.left.id == 'seed'
            and isinstance(t.comparators[0], ast.Constant) and t.comparators[0].value is None)


def _is_nprandom_test(ctx, f, t):
    if isinstance(t, ast.Compare) and len(t.ops) == 1 and isinstance(t.ops[0], (ast.Is, ast.Eq)):
        for a, b in ((t.left, t.comparators[0]), (t.comparators[0], t.left)):       # `is` / `==` are symmetric
            if isinstance(a, ast.Name) and a.id == 'seed':
                r = ctx.prog.resolve_expr(f, b)
                if r[0] == 'ext' and r[1] in ('numpy.random', 'numpy.random.mtrand._rand'):
                    return True
    return False


def _tests_none(t):
    return any(_is_none_test(x) for x in _disjuncts(t))


def _is_isinstance_rs(ctx, f, t):
    if isinstance(t, ast.Call) and isinstance(t.func, ast.Name) and t.func.id == 'isinstance' and len(t.args) == 2:
        if isinstance(t.args[0], ast.Name) and t.args[0].id == 'seed':
            r = ctx.prog.resolve_expr(f, t.args[1])
            return r[0] == 'ext' and r[1].endswith('RandomState')
    return False


# ------------------------------------------------------------------ fixtures
def _fixtures(rep):
    """must-fire / must-stay-silent snippets, re-evaluated on every run (a zero-violation rule must prove it can fire)."""
    import os
    import tempfile
    import shutil
    from ..core.loader import Program
    from ..core.report import Report
    here = os.path.join(os.path.dirname(os.path.dirname(os.path.abspath(__file__))), 'fixtures', 'C05')
    tmp = tempfile.mkdtemp(prefix='c05fx-')
    try:
        pk = os.path.join(tmp, 'bct')
        shutil.copytree(here, pk)
        p2 = Program(tmp)
        r2 = Report('C05', quiet=True)
        ctx = Ctx(p2, r2)
        direct = {f: _direct_global_uses(ctx, f) for f in p2.all_functions()}
        cg = ctx.cg
        fired = {}
        for f in ctx.seedable:
            bad = cg.path(f, lambda x: bool(direct.get(x)) and x is not ctx.get_rng)
            fired[f.name] = bad is not None
        expect = {'pos_global_draw': True, 'pos_alias_draw': True, 'pos_callee_draw': True, 'pos_stdlib_random': True,
                  'neg_local_draw': False, 'neg_local_ctor': False}
        for k, v in expect.items():
            if fired.get(k) is not v:
                rep.error('fixture %s: R3 %s but expected %s' % (k, 'fired' if fired.get(k) else 'silent', 'fire' if v else 'silence'))
        rep.stat('fixtures_evaluated', len(expect))
    finally:
        shutil.rmtree(tmp, ignore_errors=True)


# ------------------------------------------------------------------ self-test variants
def variants(root):
    from ..selftest import Variant as V
    REF = 'bct/algorithms/reference.py'
    MOD = 'bct/algorithms/modularity.py'
    MISC = 'bct/utils/miscellaneous_utilities.py'
    out = [
        V('randmio_und: global draw', 'break', REF, 'e1, e2 = rng.randint(k, size=(2,))', 'e1, e2 = np.random.randint(k, size=(2,))', 'R3.', 'randmio_und'),
        V('community_louvain: global permutation', 'break', MOD, 'rng.permutation(n)', 'np.random.permutation(n)', 'R3.', 'community_louvain'),
        V('null_model_und_sign: seed dropped', 'break', REF, 'W_r, eff = randmio_und_signed(W, bin_swaps, seed=rng)', 'W_r, eff = randmio_und_signed(W, bin_swaps)', 'R2.', 'null_model_und_sign'),
        V('null_model_und_sign: raw seed forwarded', 'break', REF, 'W_r, eff = randmio_und_signed(W, bin_swaps, seed=rng)', 'W_r, eff = randmio_und_signed(W, bin_swaps, seed=seed)', 'R2.', 'null_model_und_sign'),
        V('consensus_und: raw seed forwarded', 'break', 'bct/algorithms/clustering.py', 'seed=rng)', 'seed=seed)', 'R2.', 'consensus_und'),
        V('latmio_dir: get_rng()', 'break', REF, 'rng = get_rng(seed)\n    n = len(R)\n\n    ind_rp = rng.permutation(n)  # randomly reorder matrix\n    R = R.copy()\n    R = R[np.ix_(ind_rp, ind_rp)]\n\n    # create', 'rng = get_rng()\n    n = len(R)\n\n    ind_rp = rng.permutation(n)  # randomly reorder matrix\n    R = R.copy()\n    R = R[np.ix_(ind_rp, ind_rp)]\n\n    # create', 'R1.', 'latmio_dir'),
        V('pick_four: recursion drops rng', 'break', MISC, 'return pick_four_unique_nodes_quickly(n, rng)', 'return pick_four_unique_nodes_quickly(n)', 'R2.', 'pick_four_unique_nodes_quickly'),
        V('pick_four: recursion passes seed', 'break', MISC, 'return pick_four_unique_nodes_quickly(n, rng)', 'return pick_four_unique_nodes_quickly(n, seed)', 'R2.', 'pick_four_unique_nodes_quickly'),
        V('get_rng: None -> fresh RandomState', 'break', MISC, 'return np.random.mtrand._rand', 'return np.random.RandomState()', 'R4.', 'get_rng'),
        V('get_rng: reseeds global', 'break', MISC, '    try:\n        rstate =  np.random.RandomState(seed)', '    np.random.seed(seed)\n    try:\n        rstate =  np.random.RandomState(seed)', 'R4.', 'get_rng'),
        V('get_rng: RandomState copied not passed', 'break', MISC, '        return seed\n', '        return np.random.RandomState(seed.randint(2**31))\n', 'R4.', 'get_rng'),
        V('get_rng: cached instances', 'break', MISC, 'def get_rng(seed=None):', '_RNG_CACHE = {}\n\n\ndef get_rng(seed=None):', 'R4.', 'get_rng',
          also=[(MISC, '    try:\n        rstate =  np.random.RandomState(seed)', '    if seed in _RNG_CACHE:\n        return _RNG_CACHE[seed]\n    try:\n        rstate =  np.random.RandomState(seed)', 1)]),
        V('randomizer_bin_und: stdlib random', 'break', REF, 'if rng.random_sample() > alpha:', 'import random\n        if random.random() > alpha:', 'R3.', 'randomizer_bin_und'),
        V('core_periphery_dir: rebinding in loop', 'break', 'bct/algorithms/core.py', 'u = u[rng.randint(len(u))]', 'u = u[get_rng(seed).randint(len(u))]', 'R', 'core_periphery_dir'),
        V('generative_model: nested helper global draw', 'break', 'bct/algorithms/generative.py', 'r = np.sum(rng.random_sample()*C[-1] >= C)', 'r = np.sum(np.random.random_sample()*C[-1] >= C)', 'R3.', 'generative_model', count=3),
        V('evaluate_generative_model: seed not forwarded', 'break', 'bct/algorithms/generative.py', 'copy=True, seed=seed)', 'copy=True)', 'R1.', 'evaluate_generative_model'),
        V('nbs_parallel: tuple slot not seed', 'break', 'bct/nbs_parallel.py', 'perm_args = [(seed, u,', 'perm_args = [(None, u,', 'R1.', 'nbs_bct'),
        V('nbs: time-based tie break', 'break', 'bct/nbs.py', 'rng = get_rng(seed)', 'rng = get_rng(seed)\n    import time\n    _t = time.time()', 'R3.', 'nbs_bct'),
        V('makerandCIJ_und: seed rebound', 'break', REF, '    rng = get_rng(seed)\n    ix, = np.where(np.triu(', '    seed = 0 if seed is None else seed\n    rng = get_rng(seed)\n    ix, = np.where(np.triu(', 'R6.', 'makerandCIJ_und'),
        V('rentian: shuffle through module alias', 'break', 'bct/algorithms/physical_connectivity.py', 'rng.random_sample((2,))', 'np.random.mtrand._rand.random_sample((2,))', 'R', 'rentian_scaling'),
        # neutral
        V('neutral: rename rng', 'neutral', 'bct/algorithms/physical_connectivity.py', 'rng = get_rng(seed)', 'prng = get_rng(seed)',
          also=[('bct/algorithms/physical_connectivity.py', 'rng.random_sample', 'prng.random_sample', 1)]),
        V('neutral: keyword get_rng', 'neutral', REF, 'rng = get_rng(seed)\n    R = R.copy()\n    n = len(R)\n    i, j = np.where(R)\n    k = len(i)\n    itr *= k\n\n    max_attempts = np.round(n * k / (n * (n - 1)))\n    eff = 0\n\n    for it in range(int(itr)):\n        att = 0\n        while att <= max_attempts:  # while not rewired\n            while True:', 'rng = get_rng(seed=seed)\n    R = R.copy()\n    n = len(R)\n    i, j = np.where(R)\n    k = len(i)\n    itr *= k\n\n    max_attempts = np.round(n * k / (n * (n - 1)))\n    eff = 0\n\n    for it in range(int(itr)):\n        att = 0\n        while att <= max_attempts:  # while not rewired\n            while True:'),
        V('neutral: positional seed forward', 'neutral', REF, 'randmio_und_signed(W, bin_swaps, seed=rng)', 'randmio_und_signed(W, bin_swaps, rng)', count=0),
        V('neutral: isinstance mention', 'neutral', MOD, 'rng = get_rng(seed)\n    n = len(W)', 'rng = get_rng(seed)\n    _is_state = isinstance(seed, np.random.RandomState)\n    n = len(W)'),
        V('neutral: get_rng uses `is`', 'neutral', MISC, 'seed is None or seed == np.random', 'seed is None or seed is np.random'),
        V('neutral: unseeded viz function keeps global', 'neutral', 'bct/utils/visualization.py', 'np.random.randint', 'np.random.random_integers', count=1),
    ]
    return out
