"""C08 - betweenness counts exactly the shortest paths through each node and edge.

Structural necessary conditions for the three Brandes-style routines (betweenness_wei, edge_betweenness_bin,
edge_betweenness_wei) and the matrix-power routine betweenness_bin:
 Q  descending-fill typestate of the visiting order: `Q[q] = v; q -= 1` in the settle loop => free slots are Q[:q+1];
    the only other store into Q fills exactly Q[:q+1] with the unreachable set of the same source, after the search and
    before the dependency loop;
 R  relaxation: strict improvement resets path count and predecessor row, equal length adds to both, nothing else
    writes them (binary variant: already-marked => add, else mark/set);
 D  dependency accumulation visits Q[:n-1] (source last), adds DP[w] to the node score, and uses
    (1 + DP[w]) * NP[v] / NP[w] -- the same increment for the node and the edge accumulator;
 A  per-source state (distances, counts, predecessors, order, fill pointer, working matrix) is re-allocated inside the
    source loop;
 S  sibling agreement: node part of edge_betweenness_wei == betweenness_wei feature by feature; fill/dependency features
    agree across all three;
 B  betweenness_bin: sentinel ordering, dependency recursion and column sum have the published form.
"""
import ast

from ..core.astutil import norm, ParentMap, same_up_to_reordering, loop_exits
from ..core.cfg import CFG
from ..core.loader import walk_no_nested
from ..core.pattern import Matcher

CEN = 'bct.algorithms.centrality'
BRANDES = [('betweenness_wei', 'wei', False), ('edge_betweenness_wei', 'wei', True), ('edge_betweenness_bin', 'bin', True)]


def _stmts(node):
    return [n for n in walk_no_nested(node) if isinstance(n, ast.stmt)]


def check(prog, rep):
    rep.explanation = (
        'Brandes-type betweenness is correct if (i) nodes are recorded in non-increasing distance order with unreachable nodes first, '
        '(ii) path counts / predecessor sets are reset on strict improvement and extended on ties, (iii) dependencies are back-propagated in '
        'that order with increment (1+delta_w) sigma_v/sigma_w, (iv) all per-source state is fresh. The check establishes the bookkeeping '
        'side of (i)-(iv) from the source on every path: fill-pointer typestate of the order array, exhaustive relaxation branches, the '
        'dependency formula (identical for node and edge accumulators), allocation inside the source loop, and agreement of the sibling '
        'implementations. That the counts equal shortest-path fractions (the algorithm itself) is not decided.')
    rep.assume('positive connection lengths; np.where returns indices in increasing order')
    feats = {}
    for name, kind, edges in BRANDES:
        f = prog.func(CEN, name)
        feats[name] = _brandes(prog, rep, f, kind, edges)
    # sibling agreement
    a, b = feats.get('betweenness_wei'), feats.get('edge_betweenness_wei')
    if a and b:
        for k in sorted(set(a) | set(b)):
            if k.startswith('edge:'):
                continue
            rep.ob('S.node-part-of-edge-routine-equals-node-routine', (prog.func(CEN, 'edge_betweenness_wei').module.relpath, 'edge_betweenness_wei / betweenness_wei'),
                   '%s: %s | %s' % (k, str(a.get(k))[:70], str(b.get(k))[:70]), a.get(k) == b.get(k),
                   'edge_betweenness_wei and betweenness_wei differ in %s: their node vectors would not be the same' % k, line=0)
    c = feats.get('edge_betweenness_bin')
    if b and c:
        for k in ('fill', 'dependency', 'dependency-range', 'node-accumulate', 'edge:accumulate'):
            rep.ob('S.binary-and-weighted-edge-routines-agree', (prog.func(CEN, 'edge_betweenness_bin').module.relpath, 'edge_betweenness_bin / edge_betweenness_wei'),
                   '%s: %s | %s' % (k, str(c.get(k))[:70], str(b.get(k))[:70]), c.get(k) == b.get(k), 'the two edge routines differ in %s' % k, line=0)
    _bin(prog, rep)
    rep.floor('Q.', 9)
    rep.floor('R.', 6)
    rep.floor('D.', 9)
    rep.floor('A.', 3)
    rep.floor('S.', 10)


def _brandes(prog, rep, f, kind, edges):
    m = Matcher(prog, f)
    pm = ParentMap(f.node)
    stmts = _stmts(f.node)
    feats = {}
    src = [s for s in f.node.body if isinstance(s, ast.For) and m.match(s.iter, 'range(n)')]
    rep.ob('A.source-loop', f, src[0].iter if src else 'for u in range(n)', len(src) == 1, 'expected one loop over all sources', line=f.node.lineno)
    if len(src) != 1:
        return feats
    loop = src[0]
    u = norm(loop.target)
    body_stmts = _stmts(loop)
    # ---- Q fill
    fills = [s for s in body_stmts if m.match(s, '$Q[$P] = $V') and isinstance(s.targets[0].slice, ast.Name)]
    fill = None
    for s in fills:
        b = m.match(s, '$Q[$P] = $V')
        blk = pm.block_of[s][2]
        i = pm.block_of[s][3]
        qn, pn = norm(b['Q']), norm(b['P'])
        later = blk[i + 1:]
        dec = [x for x in later if m.match(x, '%s -= 1' % pn)]
        if len(dec) == 1:
            between = later[:later.index(dec[0])]
            touched = any(isinstance(n, ast.Name) and n.id in (qn, pn) for x in between for n in ast.walk(x))
            if not touched:
                fill = (s, qn, pn, norm(b['V']))
    rep.ob('Q.descending-fill', f, fill[0] if fill else 'Q[q] = v; q -= 1', fill is not None, 'settled nodes must be recorded from the end of the order array downwards', line=loop.lineno)
    if fill is None:
        return feats
    fs, Q, q, v = fill
    feats['fill'] = 'Q[q] = v; q -= 1'
    qinit = [s for s in loop.body if m.match(s, '%s = n - 1' % q)]
    rep.ob('Q.pointer-starts-at-last-slot', f, qinit[0] if qinit else '%s = n - 1' % q, len(qinit) == 1, 'fill pointer must start at n-1 for every source', line=loop.lineno)
    # v iterates the frontier
    vl = [lp for lp in pm.loops(fs) if isinstance(lp, ast.For) and norm(lp.target) == v]
    rep.ob('Q.every-settled-node-recorded-once', f, vl[0].iter if vl else 'for v in V', bool(vl) and any(fs is x for x in vl[0].body),
           'each node of the current frontier must be recorded exactly once, unconditionally', line=fs.lineno)
    if vl:
        outs = loop_exits(vl[0])
        rep.ob('Q.frontier-loop-visits-every-settled-node', f, outs[0] if outs else vl[0].iter, not outs,
               'the loop over the nodes settled together must not be left early: the remaining ones would be neither recorded nor relaxed', line=vl[0].lineno)
    # other stores into Q
    others = [s for s in body_stmts if isinstance(s, ast.Assign) and s is not fs and any(norm(t).startswith(Q + '[') for t in _targets(s)) and not m.match(s, '%s = $X' % Q)]
    unreach_src = {'wei': ('np.flatnonzero(np.isinf(D))',), 'bin': ('np.flatnonzero(np.logical_not(D))', 'np.flatnonzero(D == 0)')}[kind]
    ok_slice = False
    why = 'no statement places the unreachable nodes into the order array'
    tail = None
    for s in others:
        t = _targets(s)[0]
        tail = s
        if isinstance(t, ast.Subscript) and isinstance(t.slice, ast.Slice) and t.slice.lower is None:
            bound = norm(t.slice.upper) if t.slice.upper is not None else ''
            ok_bound = bound in ('%s + 1' % q, '1 + %s' % q)
            ok_src = norm(s.value) in unreach_src
            ok_slice = ok_bound and ok_src
            if not ok_bound:
                why = ('after the search the free slots are %s[:%s + 1] (%s + 1 of them, one per unreachable node); the store fills %s[:%s]: '
                       'the lengths differ by one and NumPy raises ValueError on every graph with an unreachable pair' % (Q, q, q, Q, bound))
            elif not ok_src:
                why = 'free slots must receive the nodes that were not reached from this source (%s), got %s' % (unreach_src[0], norm(s.value))
    if kind == 'wei' or others:
        rep.ob('Q.unreachable-fill-matches-free-slots', f, tail if tail is not None else '%s[:%s + 1], = unreachable' % (Q, q), ok_slice and len(others) == 1, why, line=loop.lineno)
    if kind == 'bin' and others and ok_slice:
        # the fill may be guarded only by a test that holds whenever at least one slot is still free (q + 1 >= 1)
        gs = [(t, pol) for t, pol, knd, owner in pm.guards(others[0]) if any(owner is x for x in ast.walk(loop)) and knd == 'if']
        okg, whyg = True, ''
        for t, pol in gs:
            acc = pol and any(m.match(t, pat) for pat in (
                'np.any(np.logical_not(D))', 'np.any(D == 0)', 'not np.all(D)', 'np.any(~D)', '%s >= 0' % q, '%s > -1' % q, '%s + 1 > 0' % q, '0 <= %s' % q,
                '-1 < %s' % q, '%s + 1 >= 1' % q, '%s + 1' % q, 'not D.all()'))
            if not acc:
                okg = False
                whyg = ('after the search %s + 1 slots of %s are still free, one per unreachable node; under `%s` the fill is skipped although slots remain '
                        '(e.g. exactly one unreachable node leaves %s == 0), and the stale slot content (node 0) is walked as if it had been reached' % (q, Q, norm(t), q))
        rep.ob('Q.unreachable-fill-not-skipped-while-slots-are-free', f, gs[-1][0] if gs else others[0], okg, whyg, line=others[0].lineno)
    feats['unreachable-fill'] = ('free slots [:q+1] <- unreachable' if ok_slice else norm(others[0].targets[0])) if others else None
    # ---- dependency loop
    dep = [s for s in loop.body if isinstance(s, ast.For) and m.match(s.iter, '%s[:n - 1]' % Q)]
    rep.ob('D.dependency-loop-over-order-without-source', f, dep[0].iter if dep else 'for w in %s[:n - 1]' % Q, len(dep) == 1,
           'dependencies must be propagated over the recorded order, excluding the last slot (the source)', line=loop.lineno)
    if len(dep) != 1:
        return feats
    dl = dep[0]
    w = norm(dl.target)
    feats['dependency-range'] = norm(dl.iter)
    if others:
        rep.ob('Q.order-complete-before-dependencies', f, others[0], loop.body.index(dl) > max(i for i, s in enumerate(loop.body) if any(x is others[0] for x in ast.walk(s))),
               'the order array must be complete before the dependency loop starts')
    acc = [s for s in dl.body if m.match(s, 'BC[%s] += DP[%s]' % (w, w))]
    rep.ob('D.node-score-accumulates-dependency', f, acc[0] if acc else 'BC[w] += DP[w]', len(acc) == 1, 'BC[w] must accumulate the dependency of the source on w', line=dl.lineno)
    feats['node-accumulate'] = 'BC[w] += DP[w]' if acc else None
    inner = [s for s in ast.walk(dl) if isinstance(s, ast.For) and s is not dl]      # (a guard around it is judged by D.every-predecessor)
    okf = False
    formula = None
    if len(inner) == 1:
        il = inner[0]
        vv = norm(il.target)
        okit = (m.match(il.iter, 'np.where(P[%s, :])[0]' % w) or m.match(il.iter, 'np.flatnonzero(P[%s, :])' % w)) is not None     # (a row: same positions)
        incs = [s for s in il.body if isinstance(s, ast.AugAssign)]
        defs = {norm(s.targets[0]): s.value for s in il.body if isinstance(s, ast.Assign) and isinstance(s.targets[0], ast.Name)}
        dp_inc = [s for s in incs if m.match(s.target, 'DP[%s]' % vv)]
        e_inc = [s for s in incs if m.match(s.target, 'EBC[%s, %s]' % (vv, w))]

        def rhs(s):
            val = s.value
            if isinstance(val, ast.Name) and val.id in defs:
                val = defs[val.id]
            return val
        want = m_template = '(1 + DP[%s]) * NP[%s] / NP[%s]' % (w, vv, w)
        if len(dp_inc) == 1:
            formula = norm(rhs(dp_inc[0]))
            okf = okit and m.match(rhs(dp_inc[0]), want) is not None
        rep.ob('D.dependency-formula', f, dp_inc[0] if dp_inc else 'DP[v] += (1 + DP[w]) * NP[v] / NP[w]', okf,
               'predecessor v of w must receive (1 + delta_w) * sigma_v / sigma_w (got %s over %s)' % (formula, norm(il.iter)), line=dl.lineno)
        feats['dependency'] = formula.replace(w, 'w').replace(vv, 'v') if formula else None
        if edges:
            oke = len(e_inc) == 1 and len(dp_inc) == 1 and norm(rhs(e_inc[0])) == norm(rhs(dp_inc[0]))
            rep.ob('D.edge-gets-the-same-increment', f, e_inc[0] if e_inc else 'EBC[v, w] += ...', oke,
                   'the connection v->w must receive exactly the increment added to the dependency of v', line=dl.lineno)
            feats['edge:accumulate'] = 'EBC[v, w] += same' if oke else None
        jumps = [x for x in ast.walk(dl) if isinstance(x, (ast.Continue, ast.Break, ast.Return))]
        uncond = any(il is x for x in dl.body) and all(any(z is x for x in il.body) for z in dp_inc + e_inc) and \
            all(any(z is x for x in dl.body) for z in acc)
        rep.ob('D.every-predecessor-receives-its-share', f, jumps[0] if jumps else il, uncond and not jumps,
               'for every node w of the order (source excluded) and *every* predecessor v of w the share must be added: the dependency loop may not be '
               'left or cut short (%s at line %s) and the accumulations may not sit under a condition' % (
                   type(jumps[0]).__name__.lower() if jumps else 'conditional accumulation (guard clause)', jumps[0].lineno if jumps else il.lineno), line=dl.lineno)
        feats['dependency-unconditional'] = bool(uncond and not jumps)
        extra = [s for s in incs if s not in dp_inc and s not in e_inc]
        rep.ob('D.no-other-accumulation', f, extra[0] if extra else 'accumulators in the dependency loop', not extra, 'unexpected extra accumulation', line=dl.lineno)
    else:
        rep.ob('D.dependency-formula', f, dl, False, 'expected one loop over the predecessors of w', line=dl.lineno)
    dpz = [s for s in loop.body if m.match(s, 'DP = np.zeros((n,))')]
    rep.ob('A.dependencies-zeroed-per-source', f, dpz[0] if dpz else 'DP = np.zeros((n,))', len(dpz) == 1 and loop.body.index(dpz[0]) < loop.body.index(dl), 'DP must be reset for each source', line=loop.lineno)
    # ---- per-source state
    need = ['D', 'NP', 'P', Q, q] + (['S', 'G1'] if kind == 'wei' else ['Gu'])
    top_assigned = {norm(t) for s in loop.body if isinstance(s, ast.Assign) for t in s.targets}
    missing = [x for x in need if x not in top_assigned]
    rep.ob('A.per-source-state-fresh', f, 'assigned at the top of the source loop: %s' % sorted(top_assigned & set(need)), not missing,
           'state %s is not re-created for each source: counts from earlier sources leak into later ones' % missing, line=loop.lineno)
    seeds = {norm(s) for s in loop.body if isinstance(s, ast.Assign) and isinstance(s.targets[0], ast.Subscript) and norm(s.targets[0].slice) == u}
    want_seeds = {'D[%s] = 0' % u, 'NP[%s] = 1' % u} if kind == 'wei' else {'D[%s] = 1' % u, 'NP[%s] = 1' % u}
    rep.ob('A.source-seeded', f, '; '.join(sorted(seeds)), want_seeds <= seeds, 'the source must start with distance 0 (visited mark) and one path', line=loop.lineno)
    feats['seeds'] = sorted(s.replace(u, 'u') for s in seeds)
    wc = [s for s in loop.body if isinstance(s, ast.Assign) and isinstance(s.value, ast.Call) and norm(s.value) == '%s.copy()' % f.params[0]]
    rep.ob('A.working-matrix-is-a-copy', f, wc[0] if wc else 'G1 = G.copy()', len(wc) == 1, 'columns of settled nodes are cleared in a per-source copy, never in the argument', line=loop.lineno)
    # ---- relaxation
    _relax(prog, rep, f, m, pm, loop, kind, v, feats)
    return feats


def _targets(s):
    out = []
    for t in s.targets:
        out.extend(t.elts if isinstance(t, ast.Tuple) else [t])
    return out


def _relax(prog, rep, f, m, pm, loop, kind, v, feats):
    ifs = [s for s in _stmts(loop) if isinstance(s, ast.If) and any(m.match(x, 'P[$W, %s] = 1' % v) for x in s.body)]
    nested = {id(x.orelse[0]) for x in ifs if len(x.orelse) == 1 and isinstance(x.orelse[0], ast.If)}
    ifs = [x for x in ifs if id(x) not in nested]
    if len(ifs) != 1:
        rep.ob('R.relaxation-found', f, 'if ...: P[w, v] = 1', False, 'expected one relaxation statement', line=loop.lineno)
        return
    r = ifs[0]
    wl = [lp for lp in pm.loops(r) if isinstance(lp, ast.For)]
    w = norm(wl[0].target) if wl else 'w'
    if kind == 'wei' and m.match(r.test, '$X == D[%s]' % w) is not None and len(r.orelse) == 1 and isinstance(r.orelse[0], ast.If) \
            and not r.orelse[0].orelse and m.match(r.orelse[0].test, '$X < D[%s]' % w) is not None:
        # `if tie: .. elif shorter: ..` -- the two tests exclude each other, so the order of the arms is immaterial: read it as `if shorter: .. elif tie: ..`
        inner = r.orelse[0]
        tie_arm = ast.copy_location(ast.If(test=r.test, body=r.body, orelse=[]), r)
        r = ast.copy_location(ast.If(test=inner.test, body=inner.body, orelse=[tie_arm]), inner)
    body = [norm(s) for s in r.body]
    orelse = r.orelse
    if kind == 'wei':
        test_ok = m.match(r.test, '$X < D[%s]' % w) is not None
        X = norm(m.match(r.test, '$X < D[%s]' % w)['X']) if test_ok else 'Duw'
        xdef = [s for s in wl[0].body if isinstance(s, ast.Assign) and norm(s.targets[0]) == X]
        ok_x = len(xdef) == 1 and (m.match(xdef[0].value, 'D[%s] + $G[%s, %s]' % (v, v, w)) is not None)
        strict = sorted(body) == sorted(['D[%s] = %s' % (w, X), 'NP[%s] = NP[%s]' % (w, v), 'P[%s, :] = 0' % w, 'P[%s, %s] = 1' % (w, v)])
        order_ok = body.index('P[%s, :] = 0' % w) < body.index('P[%s, %s] = 1' % (w, v)) if strict else False
        rep.ob('R.candidate-length', f, xdef[0] if xdef else X, test_ok and ok_x, 'candidate length must be D[v] + length(v, w), compared strictly with D[w]')
        rep.ob('R.strict-improvement-resets', f, r.test, strict and order_ok,
               'on a strictly shorter path: distance, path count := count of v, predecessor row cleared and then v set (got %s)' % body)
        tie_ok = len(orelse) == 1 and isinstance(orelse[0], ast.If) and m.match(orelse[0].test, '%s == D[%s]' % (X, w)) is not None \
            and sorted(norm(s) for s in orelse[0].body) == sorted(['NP[%s] += NP[%s]' % (w, v), 'P[%s, %s] = 1' % (w, v)]) and not orelse[0].orelse
        rep.ob('R.tie-adds-paths-and-predecessor', f, orelse[0].test if orelse and isinstance(orelse[0], ast.If) else 'elif Duw == D[w]', tie_ok,
               'on an equally short path: path count += count of v and v added as predecessor; no third branch')
        feats['relax'] = (norm(r.test), sorted(body), norm(orelse[0].test) if orelse and isinstance(orelse[0], ast.If) else None,
                          sorted(norm(s) for s in orelse[0].body) if orelse and isinstance(orelse[0], ast.If) else None)
    else:
        test_ok = m.match(r.test, 'D[%s]' % w) is not None
        tie = sorted(body) == sorted(['NP[%s] += NP[%s]' % (w, v), 'P[%s, %s] = 1' % (w, v)])
        new = sorted(norm(s) for s in orelse) == sorted(['D[%s] = 1' % w, 'NP[%s] = NP[%s]' % (w, v), 'P[%s, %s] = 1' % (w, v)])
        rep.ob('R.strict-improvement-resets', f, 'else: %s' % '; '.join(norm(s) for s in orelse), test_ok and new, 'first discovery: mark, path count := count of v, v is the only predecessor')
        rep.ob('R.tie-adds-paths-and-predecessor', f, r.test, test_ok and tie, 'node already discovered in this layer: path count += count of v, v added as predecessor')
        feats['relax'] = (norm(r.test), sorted(body), sorted(norm(s) for s in orelse))
    # nothing else writes NP / P inside the search
    allowed = set(id(x) for x in ast.walk(r))
    bad = [s for s in _stmts(loop) if isinstance(s, (ast.Assign, ast.AugAssign)) and id(s) not in allowed and
           any(norm(t).startswith(('NP[', 'P[')) for t in (_targets(s) if isinstance(s, ast.Assign) else [s.target])) and not norm(s).startswith(('NP[%s]' % norm(loop.target), ))]
    rep.ob('R.nothing-else-writes-counts', f, bad[0] if bad else 'writes to NP / P', not bad, 'path counts or predecessors are modified outside the relaxation', line=loop.lineno)


def _bin(prog, rep):
    f = prog.func(CEN, 'betweenness_bin')
    m = Matcher(prog, f)
    stmts = _stmts(f.node)
    cfg = CFG(f.node)
    inf = [s for s in stmts if m.match(s, 'L[L == 0] = np.inf')]
    dz = [s for s in stmts if m.match(s, 'L[np.where(I)] = 0') and s.lineno > (inf[0].lineno if inf else 0)]
    nsp = [s for s in stmts if m.match(s, 'NSP[NSP == 0] = 1')]
    rep.ob('B.sentinels', f, '; '.join(norm(s) for s in inf + dz + nsp), len(inf) == 1 and len(dz) == 1 and len(nsp) == 1 and inf[0].lineno < dz[0].lineno,
           'unreached pairs -> inf, then diagonal -> 0; zero path counts -> 1 before dividing', line=f.node.lineno)
    rec = [s for s in stmts if isinstance(s, ast.Assign) and m.match(s.value, 'np.dot((L == d) * (1 + DP) / NSP, G.T) * ((L == d - 1) * NSP)')]
    acc = [s for s in stmts if m.match(s, 'DP += $X')]
    rep.ob('B.dependency-recursion', f, rec[0] if rec else 'DPd1 = np.dot((L == d) * (1 + DP) / NSP, G.T) * ((L == d - 1) * NSP)', len(rec) == 1 and len(acc) == 1 and
           norm(acc[0].value) == norm(rec[0].targets[0]), 'dependency of pairs at distance d-1 must be accumulated from pairs at distance d', line=f.node.lineno)
    lp = [s for s in stmts if isinstance(s, ast.For) and m.match(s.iter, 'range(diam, 1, -1)')]
    dm = [s for s in stmts if m.match(s, 'diam = d - 1')]
    rep.ob('B.distances-descending-from-diameter', f, lp[0].iter if lp else 'for d in range(diam, 1, -1)', len(lp) == 1 and len(dm) == 1, 'recursion must run from the diameter down to 2', line=f.node.lineno)
    fw = [s for s in stmts if isinstance(s, ast.While) and m.match(s.test, 'np.any(NSPd)')]
    okw = False
    if fw:
        okw = same_up_to_reordering(fw[0].body, ['d += 1', 'NPd = np.dot(NPd, G)', 'NSPd = NPd * (L == 0)', 'NSP += NSPd', 'L = L + d * (NSPd != 0)'])
    rep.ob('B.forward-counting', f, fw[0].test if fw else 'while np.any(NSPd)', okw, 'walk counts of length d restricted to pairs not yet reached give the shortest-path counts and lengths', line=f.node.lineno)
    for r in cfg.returns:
        rep.ob('B.betweenness-is-column-sum', f, r, m.match(r.value, 'np.sum(DP, axis=0)') is not None, 'node betweenness is the dependency summed over sources')
    cp = [s for s in stmts if m.match(s, 'G = np.array(G, dtype=float)')]
    rep.ob('A.working-matrix-is-a-copy', f, cp[0] if cp else 'G = np.array(G, dtype=float)', len(cp) == 1, 'input must be copied to float', line=f.node.lineno)


def variants(root):
    from ..selftest import Variant as V
    C = 'bct/algorithms/centrality.py'
    out = []

    def B(name, fn, old, new, expect, **kw):
        out.append(V('%s: %s' % (fn, name), 'break', C, old, new, expect, None, scope='def %s(' % fn, **kw))

    def N(name, fn, old, new, **kw):
        out.append(V('%s: neutral %s' % (fn, name), 'neutral', C, old, new, scope='def %s(' % fn, **kw))
    for fn in ('betweenness_wei', 'edge_betweenness_wei', 'edge_betweenness_bin'):
        B('first-hop nodes skipped in the back-propagation', fn, '            for v in np.where(P[w, :])[0]:', '            if P[w, u]:\n                continue\n            for v in np.where(P[w, :])[0]:', 'D.every-predecessor')
        B('back-propagation stops at the first leaf', fn, '            for v in np.where(P[w, :])[0]:', '            if not DP[w]:\n                break\n            for v in np.where(P[w, :])[0]:', 'D.every-predecessor')
    N('tie tested before strict improvement', 'betweenness_wei', '                    if Duw < D[w]:  # if new u->w shorter than old\n                        D[w] = Duw\n                        NP[w] = NP[v]  # NP(u->w) = NP of new path\n                        P[w, :] = 0\n                        P[w, v] = 1  # v is the only predecessor\n                    elif Duw == D[w]:  # if new u->w equal to old\n                        NP[w] += NP[v]  # NP(u->w) sum of old and new\n                        P[w, v] = 1  # v is also predecessor\n', '                    if Duw == D[w]:\n                        NP[w] += NP[v]\n                        P[w, v] = 1\n                    elif Duw < D[w]:\n                        D[w] = Duw\n                        NP[w] = NP[v]\n                        P[w, :] = 0\n                        P[w, v] = 1\n')
    for fn in ('betweenness_wei', 'edge_betweenness_wei'):
        B('frontier loop left at a node without unvisited neighbours', fn, '                W, = np.where(G1[v, :])  # neighbors of v\n',
          '                W, = np.where(G1[v, :])  # neighbors of v\n                if W.size == 0:\n                    break\n', 'Q.frontier-loop')
        N('empty neighbourhood skips the relaxation only', fn, '                W, = np.where(G1[v, :])  # neighbors of v\n',
          '                W, = np.where(G1[v, :])  # neighbors of v\n                if W.size == 0:\n                    continue\n')
    for fn in ('betweenness_wei', 'edge_betweenness_wei'):
        B('unreachable fill one short', fn, 'Q[:q + 1], = np.where(np.isinf(D))', 'Q[:q], = np.where(np.isinf(D))', 'Q.unreachable')
        B('tie treated as improvement', fn, 'if Duw < D[w]:', 'if Duw <= D[w]:', 'R.')
        B('tie branch dropped', fn, '                    elif Duw == D[w]:  # if pathlength equal to earlier path\n                        NP[w] += NP[v]\n                        P[w, v] = 1\n', '', 'R.tie') if False else None
        B('predecessors not cleared on improvement', fn, '                        P[w, :] = 0\n', '', 'R.strict')
        B('path count added on improvement', fn, '                        NP[w] = NP[v]', '                        NP[w] += NP[v]', 'R.strict')
        B('dependency without the 1', fn, '(1 + DP[w]) * NP[v] / NP[w]', 'DP[w] * NP[v] / NP[w]', 'D.dependency-formula')
        B('dependency ratio inverted', fn, '(1 + DP[w]) * NP[v] / NP[w]', '(1 + DP[w]) * NP[w] / NP[v]', 'D.dependency-formula')
        B('dependency loop includes source', fn, 'for w in Q[:n - 1]:', 'for w in Q[:n]:', 'D.dependency-loop')
        B('path counts not reset per source', fn, '        NP = np.zeros((n,))\n        NP[u] = 1', '        NP[u] = 1', 'A.per-source',
          also=[(C, '    BC = np.zeros((n,))\n', '    BC = np.zeros((n,))\n    NP = np.zeros((n,))\n', 1)]) if False else None
        B('settled node recorded only when it has successors', fn, '                Q[q] = v\n                q -= 1\n                W, = np.where(G1[v, :])',
          '                W, = np.where(G1[v, :])\n                if W.size:\n                    Q[q] = v\n                    q -= 1', 'Q.')
    B('unreachable fill one short', 'edge_betweenness_bin', 'Q[:q + 1], = np.where(np.logical_not(D))', 'Q[:q], = np.where(np.logical_not(D))', 'Q.unreachable')
    B('unreachable fill skipped for a single unreachable node', 'edge_betweenness_bin', 'if np.any(np.logical_not(D)):', 'if q > 0:', 'Q.unreachable-fill-not-skipped')
    N('unreachable fill guarded by the slot counter', 'edge_betweenness_bin', 'if np.any(np.logical_not(D)):', 'if q >= 0:')
    N('unreachable fill guarded by D == 0', 'edge_betweenness_bin', 'if np.any(np.logical_not(D)):', 'if np.any(D == 0):')
    B('edge increment differs from node increment', 'edge_betweenness_wei', 'EBC[v, w] += DPvw', 'EBC[v, w] += DPvw / 2', 'D.edge-gets')
    B('edge accumulated at transposed cell', 'edge_betweenness_bin', 'EBC[v, w] += DPvw', 'EBC[w, v] += DPvw', 'D.')
    B('first discovery adds', 'edge_betweenness_bin', '                        D[w] = 1\n                        NP[w] = NP[v]', '                        D[w] = 1\n                        NP[w] += NP[v] + 1', 'R.strict')
    B('node routine drifts from edge routine', 'betweenness_wei', 'BC[w] += DP[w]', 'BC[w] += DP[w] / 2', 'D.node-score')
    B('bin: diagonal zeroed before inf', 'betweenness_bin', '    L[L == 0] = np.inf  # L for disconnected vertices is inf\n    L[np.where(I)] = 0\n', '    L[np.where(I)] = 0\n    L[L == 0] = np.inf\n', 'B.sentinels')
    B('bin: recursion stops at 2', 'betweenness_bin', 'for d in range(diam, 1, -1):', 'for d in range(diam, 2, -1):', 'B.distances')
    B('bin: row sum', 'betweenness_bin', 'return np.sum(DP, axis=0)', 'return np.sum(DP, axis=1)', 'B.betweenness-is')
    N('1 + q spelling', 'betweenness_wei', 'Q[:q + 1], = np.where(np.isinf(D))', 'Q[:1 + q], = np.where(np.isinf(D))')
    N('increment via temporary', 'betweenness_wei', '                DP[v] += (1 + DP[w]) * NP[v] / NP[w]', '                inc = (1 + DP[w]) * NP[v] / NP[w]\n                DP[v] += inc')
    return [v for v in out if v is not None]
