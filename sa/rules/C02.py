"""C02 - community detectors return a valid partition and its true modularity.

 (a) every detector returns labels whose typestate is CANON+1 on every return path (engine C);
 (b) every label write is followed, on every path to the return, by a recomputation of the returned q;
     the aggregate q is computed from is built from the canonical labels of the same level;
 (c) hierarchical routines return labels and q from the same level index / identical slices;
 (d) multi-level routines: the matrix the move phase reads is rebound to the aggregate at the end of each level;
 (e) the returned q has the canonical modularity form, every null-model (degree-product) term carries gamma,
     out-degree x in-degree orientation of the directed null model;
 (f) modularity_und/_dir with a given partition compute q from it by label equality only (shared with C14).
"""
import ast

from ..core.astutil import norm, ParentMap
from ..core.cfg import CFG
from ..core.loader import walk_no_nested
from ..core.pattern import Matcher, Binds
from ..engines.labels import LabelFlow, RAW, CANON, CANON1, ZERO, UNKNOWN, raw_sinks
from ..engines import accforms as H

MODU = 'bct.algorithms.modularity'
# (function, returned-label variable(s) tracked, list-valued?, partition params)
DETECTORS = [
    ('community_louvain', ('ci',)),
    ('modularity_finetune_und', ('ci',)),
    ('modularity_finetune_dir', ('ci',)),
    ('modularity_finetune_und_sign', ('ci',)),
    ('modularity_probtune_und_sign', ('ci',)),
    ('modularity_louvain_und', ('ci',)),
    ('modularity_louvain_dir', ('ci',)),
    ('modularity_louvain_und_sign', ('ci',)),
    ('modularity_und', ('kci',)),
    ('modularity_dir', ('kci',)),
]


def _stmts(f):
    return [n for n in walk_no_nested(f.node) if isinstance(n, ast.stmt)]


def check(prog, rep):
    rep.explanation = (
        'For the ten detectors: label typestate (RAW / canonical / canonical+1) is propagated over the CFG and must be canonical+1 at '
        'every return (valid partition 1..k for all inputs); every statement that writes labels is followed on all paths to the return '
        'by a recomputation of the returned q, and the aggregate that q reads is built from the canonical labels of that level; the q '
        'expression is matched against the modularity definition and every degree-product term must carry the factor gamma; '
        'hierarchical outputs take labels and q from the same index; multi-level routines must hand the aggregated matrix to the next '
        'level. Numerical accuracy of the sums is not decided.')
    rep.assume('np.unique(..., return_inverse=True) returns 0..k-1 with every value used; modules of a canonical partition are non-empty')
    for name, params in DETECTORS:
        f = prog.func(MODU, name)
        _labels_canonical(prog, rep, f, params)
        _q_after_labels(prog, rep, f)
    _q_forms(prog, rep)
    _signed_scaling(prog, rep)
    _levels(prog, rep)
    relabel_composition(prog, rep)
    rep.floor('C.returned-labels-canonical', 10)
    rep.floor('D.q-recomputed-after-label-write', 10)
    rep.floor('G.', 14)
    rep.floor('E.', 3)


# ------------------------------------------------------------------ (a)
def _labels_canonical(prog, rep, f, params):
    cfg = CFG(f.node)
    seeds = {p: RAW for p in params if p in f.all_params}
    lists = set()
    returned = set()
    for r in cfg.returns:
        lab = r.value.elts[0] if isinstance(r.value, ast.Tuple) else r.value
        while isinstance(lab, ast.Subscript):
            lab = lab.value
        if isinstance(lab, ast.Name):
            returned.add(lab.id)
    for s in _stmts(f):
        if isinstance(s, ast.Assign) and len(s.targets) == 1 and isinstance(s.targets[0], ast.Name) and isinstance(s.value, ast.List) \
                and s.targets[0].id in returned:
            lists.add(s.targets[0].id)
    # ci_ret = canonicalised ci[-1]: track the list it is taken from as well
    for s in _stmts(f):
        if isinstance(s, ast.Assign) and isinstance(s.targets[0], ast.Tuple) and any(isinstance(e, ast.Name) and e.id in returned for e in s.targets[0].elts):
            for n in ast.walk(s.value):
                if isinstance(n, ast.Name):
                    for d in _stmts(f):
                        if isinstance(d, ast.Assign) and len(d.targets) == 1 and isinstance(d.targets[0], ast.Name) and d.targets[0].id == n.id and isinstance(d.value, ast.List):
                            lists.add(n.id)
    flow = LabelFlow(prog, f, seeds, lists=lists)
    for r in cfg.returns:
        v = r.value
        lab = v.elts[0] if isinstance(v, ast.Tuple) else v
        base = lab
        while isinstance(base, ast.Subscript):
            base = base.value
        st = flow.at(r)
        status = flow.status(base, st) if isinstance(base, ast.Name) else set()
        if f.name in ('modularity_und', 'modularity_dir'):
            # `ci = kci` branch returns the caller's own labels: allowed (RAW) -- the other branch must be canonical
            ok = bool(status) and status <= {CANON1, RAW}
            why = 'returned labels have typestate %s' % sorted(status)
        else:
            ok = status == {CANON1}
            why = ('returned label vector `%s` has typestate %s on some path to this return: labels are not guaranteed to be exactly 1..k' % (
                norm(lab), sorted(status) or ['unknown']))
        rep.ob('C.returned-labels-canonical', f, r, ok, why)
    # stores into label containers must store canonical labels
    seen = set()
    for (node, base, rs, before) in flow.stores:
        if id(node) in seen:
            continue
        seen.add(id(node))
        if base in seeds or base in lists or before & {CANON1, CANON, ZERO}:
            # element store of a computed label: mb + 1 where mb is an index into canonical modules is fine (0-based index + 1)
            ok = bool(rs) and rs <= {CANON1} or _is_index_plus_one(node.value)
            if RAW in before and not ok:
                continue   # handled by C14
            rep.ob('C.label-store-keeps-canonical', f, node, ok,
                   'value stored into the label container `%s` has typestate %s' % (base, sorted(rs) or ['unknown']))


def _is_index_plus_one(e):
    return isinstance(e, ast.BinOp) and isinstance(e.op, ast.Add) and isinstance(e.right, ast.Constant) and e.right.value == 1 and isinstance(e.left, ast.Name)


# ------------------------------------------------------------------ (b)
def _q_after_labels(prog, rep, f):
    cfg = CFG(f.node)
    stmts = _stmts(f)
    for r in cfg.returns:
        v = r.value
        if not (isinstance(v, ast.Tuple) and len(v.elts) == 2):
            rep.ob('D.returns-pair', f, r, False, 'detector must return (labels, q)')
            continue
        lab, q = v.elts
        lbase = lab
        while isinstance(lbase, ast.Subscript):
            lbase = lbase.value
        qbase = q
        while isinstance(qbase, (ast.Subscript, ast.BinOp)):
            qbase = qbase.value if isinstance(qbase, ast.Subscript) else qbase.left
        if not (isinstance(lbase, ast.Name) and isinstance(qbase, ast.Name)):
            rep.ob('D.returns-pair', f, r, False, 'cannot identify label / q variables in %s' % norm(v))
            continue
        L, Q = lbase.id, qbase.id

        def writes(name, s):
            tg = s.targets if isinstance(s, ast.Assign) else [s.target] if isinstance(s, ast.AugAssign) else []
            for t in tg:
                for tt in (t.elts if isinstance(t, ast.Tuple) else [t]):
                    b = tt
                    while isinstance(b, ast.Subscript):
                        b = b.value
                    if isinstance(b, ast.Name) and b.id == name:
                        return True
            return False
        # label writers: also the per-level working label vectors that feed L (m, Mb)
        feeders = {L}
        changed = True
        while changed:
            changed = False
            for s in stmts:
                if isinstance(s, ast.Assign) and writes_any(s, feeders):
                    for n in ast.walk(s.value):
                        if isinstance(n, ast.Name) and n.id not in feeders and _looks_like_labels(stmts, n.id):
                            feeders.add(n.id)
                            changed = True
        qdefs = [s for s in stmts if writes(Q, s) and not _is_seed_value(s)]
        lwrites = [s for s in stmts if any(writes(x, s) for x in feeders) and not _is_alloc(s) and not _partition_preserving(s)]
        bad = [w for w in lwrites if cfg.reachable(w) and not cfg.must_pass(w, r, [x for x in qdefs if x is not w])]
        rep.ob('D.q-recomputed-after-label-write', f, r, not bad,
               'labels are written at line %s and a path reaches this return without recomputing `%s`: the reported q can belong to another partition' % (
                   bad[0].lineno if bad else '', Q))


def writes_any(s, names):
    for t in s.targets:
        for tt in (t.elts if isinstance(t, ast.Tuple) else [t]):
            b = tt
            while isinstance(b, ast.Subscript):
                b = b.value
            if isinstance(b, ast.Name) and b.id in names:
                return True
    return False


def _looks_like_labels(stmts, name):
    """a working label vector: receives `x + 1` element stores or np.unique inverse"""
    for s in stmts:
        if isinstance(s, ast.Assign):
            for t in s.targets:
                if isinstance(t, ast.Subscript) and isinstance(t.value, ast.Name) and t.value.id == name and _is_index_plus_one(s.value):
                    return True
                if isinstance(t, ast.Tuple) and len(t.elts) == 2 and isinstance(t.elts[1], ast.Name) and t.elts[1].id == name \
                        and isinstance(s.value, ast.Call) and norm(s.value.func) == 'np.unique':
                    return True
    return False


def _is_seed_value(s):
    """q = [] / q.append(-1) style seeds are not computations"""
    return isinstance(s, ast.Assign) and isinstance(s.value, (ast.List, ast.Constant, ast.UnaryOp))


def _partition_preserving(s):
    """re-packaging or canonical relabelling of a label vector: the partition (and hence its q) is unchanged"""
    if isinstance(s, ast.AugAssign):
        return isinstance(s.op, ast.Add) and isinstance(s.value, ast.Constant)
    if isinstance(s, ast.Assign):
        v = s.value
        if isinstance(v, ast.Call) and norm(v.func) == 'np.unique':
            return True
        if isinstance(v, ast.Call) and norm(v.func) in ('np.array', 'np.asarray') and v.args and isinstance(v.args[0], ast.Name) \
                and any(norm(t) == v.args[0].id for t in s.targets):
            return True
        if isinstance(v, ast.Subscript) and isinstance(v.value, ast.Name) and isinstance(v.slice, ast.Slice) and any(norm(t) == v.value.id for t in s.targets):
            return True
        if isinstance(v, ast.Call) and isinstance(v.func, ast.Attribute) and v.func.attr == 'copy':
            return False
    return False


def _is_alloc(s):
    return isinstance(s, ast.Assign) and isinstance(s.value, (ast.List,))


# ------------------------------------------------------------------ (e)
def _null_terms_have_gamma(rep, f, root_expr, defs, label):
    """Inline single-definition locals; every np.outer(...) / np.dot(...) degree-product subterm that is subtracted must
    have `gamma` among the multiplicative factors on the way up to the subtraction."""
    pm_nodes = []

    def inline(e, depth=0, seen=()):
        return e
    found = 0
    ok_all = True
    bad = []

    def visit(e, factors, sub_side, seen):
        nonlocal found, ok_all
        if isinstance(e, ast.Name) and e.id in defs and e.id not in seen and len(seen) < 6:
            for d in defs[e.id]:
                visit(d, factors, sub_side, seen + (e.id,))
            return
        if isinstance(e, ast.BinOp):
            if isinstance(e.op, ast.Sub):
                visit(e.left, factors, sub_side, seen)
                visit(e.right, factors, True, seen)
                return
            if isinstance(e.op, ast.Add):
                visit(e.left, factors, sub_side, seen)
                visit(e.right, factors, sub_side, seen)
                return
            if isinstance(e.op, (ast.Mult, ast.Div)):
                lf = _factor_names(e.right)
                rf = _factor_names(e.left)
                visit(e.left, factors | lf, sub_side, seen)
                if isinstance(e.op, ast.Mult):
                    visit(e.right, factors | rf, sub_side, seen)
                return
        if isinstance(e, ast.UnaryOp):
            visit(e.operand, factors, sub_side, seen)
            return
        if isinstance(e, ast.Call):
            fn = norm(e.func)
            if fn in ('np.outer', 'np.dot') and sub_side:
                found += 1
                if 'gamma' not in factors:
                    ok_all = False
                    bad.append(norm(e))
                return
            if fn in ('np.sum', 'np.trace', 'np.logical_not') and e.args:
                visit(e.args[0], factors, sub_side, seen)
                return
        if isinstance(e, ast.Subscript):
            visit(e.value, factors, sub_side, seen)
    visit(root_expr, frozenset(), False, ())
    return found, ok_all, bad


def _factor_names(e):
    """names that multiply: for a product/quotient subtree return the Name ids at its multiplicative top level"""
    out = set()
    if isinstance(e, ast.Name):
        out.add(e.id)
    elif isinstance(e, ast.BinOp) and isinstance(e.op, (ast.Mult, ast.Div)):
        out |= _factor_names(e.left)
        if isinstance(e.op, ast.Mult):
            out |= _factor_names(e.right)
    return frozenset(out)


def _defs_of(f):
    d = {}
    for s in _stmts(f):
        if isinstance(s, ast.Assign) and len(s.targets) == 1:
            t = s.targets[0]
            if isinstance(t, ast.Name):
                d.setdefault(t.id, []).append(s.value)
            elif isinstance(t, ast.Subscript) and isinstance(t.value, ast.Name) and isinstance(t.slice, ast.Name):
                d.setdefault(t.value.id, []).append(s.value)       # q[h] = ...
    return d


def _q_forms(prog, rep):
    # --- trace forms
    for name in ('modularity_finetune_und', 'modularity_finetune_dir'):
        f = prog.func(MODU, name)
        m = Matcher(prog, f)
        qd = [s for s in _stmts(f) if isinstance(s, ast.Assign) and norm(s.targets[0]) == 'q']
        ok = len(qd) == 1 and (m.match(qd[0].value, 'np.trace($w) / $s - gamma * np.sum(np.dot($w / $s, $w / $s))') is not None)
        rep.ob('G.q-is-trace-form', f, qd[0] if qd else 'q = ...', ok,
               'q must be trace(w)/s - gamma*sum((w/s)(w/s)) of the module-aggregated matrix w', line=f.node.lineno)
        if ok:
            b = m.match(qd[0].value, 'np.trace($w) / $s - gamma * np.sum(np.dot($w / $s, $w / $s))')
            _aggregate_from_labels(prog, rep, f, m, norm(b['w']), qd[0], 'W', 'ci', norm(b['s']))
    for name, wname in (('modularity_louvain_und', 'W'), ('modularity_louvain_dir', 'W1')):
        f = prog.func(MODU, name)
        m = Matcher(prog, f)
        qd = [s for s in _stmts(f) if isinstance(s, ast.Assign) and isinstance(s.targets[0], ast.Subscript) and norm(s.targets[0].value) == 'q']
        okm = None
        for s in qd:
            b = m.match(s.value, 'np.trace($w) / $s - gamma * np.sum(np.dot($w / $s, $w / $s))')
            if b:
                okm = (s, b)
        rep.ob('G.q-is-trace-form', f, okm[0] if okm else 'q[h] = ...', okm is not None,
               'q[h] must be trace(w)/s - gamma*sum((w/s)(w/s)) of the aggregated matrix of level h', line=f.node.lineno)
        if okm:
            sdef = [s for s in _stmts(f) if isinstance(s, ast.Assign) and norm(s.targets[0]) == norm(okm[1]['s'])]
            rep.ob('G.total-weight-of-input', f, sdef[0] if sdef else 's', len(sdef) == 1 and m.match(sdef[0].value, 'np.sum(W)') is not None
                   and not ParentMap(f.node).loops(sdef[0]), 's must be the total weight of the input network, computed once')
    # --- signed forms
    for name in ('modularity_finetune_und_sign', 'modularity_probtune_und_sign', 'modularity_und_sign'):
        f = prog.func(MODU, name)
        m = Matcher(prog, f)
        defs = _defs_of(f)
        qd = [s for s in _stmts(f) if isinstance(s, ast.Assign) and norm(s.targets[0]) == 'q']
        b = m.match(qd[-1].value, '$d0 * np.sum($q0) - $d1 * np.sum($q1)') if qd else None
        rep.ob('G.q-is-signed-combination', f, qd[-1] if qd else 'q = d0*sum(q0) - d1*sum(q1)', b is not None, 'q must be d0*Q+ - d1*Q-', line=f.node.lineno)
        if b is None:
            continue
        has_gamma = 'gamma' in f.all_params
        for part, Wn in ((b['q0'], 'W0'), (b['q1'], 'W1')):
            pd = [s for s in _stmts(f) if isinstance(s, ast.Assign) and norm(s.targets[0]) == norm(part)]
            tpl = '($W - gamma * np.outer($K, $K) / $S) * ($m == $m.T)' if has_gamma else '($W - np.outer($K, $K) / $S) * ($m == $m.T)'
            bb = m.match(pd[-1].value, tpl) if pd else None
            alt = m.match(pd[-1].value, '($W - np.outer($K, $K) / $S) * ($m == $m.T)') if pd else None
            if bb is None and alt is not None and has_gamma:
                rep.ob('G.null-term-carries-gamma', f, pd[-1], False,
                       'the degree-product term of the returned q is not multiplied by gamma: for gamma != 1 the reported value is not Q_gamma of the returned partition')
                continue
            rep.ob('G.null-term-carries-gamma' if has_gamma else 'G.signed-part-form', f, pd[-1] if pd else norm(part), bb is not None,
                   'signed modularity part must be (W± - gamma*outer(K±,K±)/s±) restricted to same-module pairs')
            if bb is not None:
                okw = norm(bb['W']) == Wn
                # K is the node degree of W±, m the tiled final labels
                kd = [s for s in _stmts(f) if isinstance(s, ast.Assign) and norm(s.targets[0]) == norm(bb['K'])]
                okk = len(kd) == 1 and (m.match(kd[0].value, 'np.sum($T, axis=1)') is not None or m.match(kd[0].value, 'np.sum(%s, axis=$A)' % Wn) is not None)
                md = [s for s in _stmts(f) if isinstance(s, ast.Assign) and norm(s.targets[0]) == norm(bb['m'])]
                okmm = bool(md) and m.match(md[-1].value, 'np.tile(ci, (n, 1))') is not None
                rep.ob('G.signed-part-operands', f, pd[-1], okw and okk and okmm,
                       'operands must be %s, its node degrees and the tiled final labels' % Wn)
    f = prog.func(MODU, 'modularity_louvain_und_sign')
    m = Matcher(prog, f)
    for part, Wn, sn in (('q0', 'W0', 's0'), ('q1', 'W1', 's1')):
        pd = [s for s in _stmts(f) if isinstance(s, ast.Assign) and norm(s.targets[0]) == part]
        bb = m.match(pd[-1].value, 'np.trace(%s) - gamma * np.sum(np.dot(%s, %s)) / %s' % (Wn, Wn, Wn, sn)) if pd else None
        alt = m.match(pd[-1].value, 'np.trace(%s) - np.sum(np.dot(%s, %s)) / %s' % (Wn, Wn, Wn, sn)) if pd else None
        if bb is None and alt is not None:
            rep.ob('G.null-term-carries-gamma', f, pd[-1], False,
                   'the degree-product term of the returned q is not multiplied by gamma: for gamma != 1 the reported value is not Q_gamma of the returned partition')
        else:
            rep.ob('G.null-term-carries-gamma', f, pd[-1] if pd else part, bb is not None, 'level modularity part must be trace(W±) - gamma*sum(W± W±)/s±')
    qd = [s for s in _stmts(f) if isinstance(s, ast.Assign) and isinstance(s.targets[0], ast.Subscript) and norm(s.targets[0].value) == 'q']
    rep.ob('G.q-is-signed-combination', f, qd[-1] if qd else 'q[h] = d0*q0 - d1*q1', bool(qd) and m.match(qd[-1].value, 'd0 * q0 - d1 * q1') is not None,
           'q[h] must be d0*q0 - d1*q1', line=f.node.lineno)
    # --- spectral routines
    for name, und in (('modularity_und', True), ('modularity_dir', False)):
        f = prog.func(MODU, name)
        m = Matcher(prog, f)
        qd = [s for s in _stmts(f) if isinstance(s, ast.Assign) and norm(s.targets[0]) == 'q']
        tpl = 'np.sum(np.logical_not($s - $s.T) * B / m)' if und else 'np.sum(np.logical_not($s - $s.T) * B / (2 * m))'
        b = m.match(qd[-1].value, tpl) if qd else None
        rep.ob('G.q-is-same-module-sum', f, qd[-1] if qd else 'q', b is not None, 'q must be the sum of the modularity matrix over same-label pairs divided by %s' % ('m' if und else '2m'),
               line=f.node.lineno)
        if und:
            bd = [s for s in _stmts(f) if isinstance(s, ast.Assign) and norm(s.targets[0]) == 'B']
            okb = len(bd) == 1 and m.match(bd[0].value, 'A - gamma * np.outer(k, k) / m') is not None
            rep.ob('G.null-term-carries-gamma', f, bd[0] if bd else 'B', okb, 'modularity matrix must be A - gamma*k k^T/m')
        else:
            bd = [s for s in _stmts(f) if isinstance(s, ast.Assign) and norm(s.targets[0]) == 'b']
            okb = len(bd) == 1 and m.match(bd[0].value, 'A - gamma * np.outer(ko, ki) / m') is not None
            rep.ob('G.null-term-carries-gamma', f, bd[0] if bd else 'b', okb, 'directed modularity matrix must be A - gamma*k_out k_in^T/m')
            kod = [s for s in _stmts(f) if isinstance(s, ast.Assign) and norm(s.targets[0]) in ('ko', 'ki')]
            okd = {norm(s.targets[0]): norm(s.value) for s in kod} == {'ko': 'np.sum(A, axis=1)', 'ki': 'np.sum(A, axis=0)'}
            rep.ob('E.null-model-orientation', f, 'ko = row sums, ki = column sums', okd, 'out-degree must be the row sum and in-degree the column sum of A')
            Bd = [s for s in _stmts(f) if isinstance(s, ast.Assign) and norm(s.targets[0]) == 'B']
            rep.ob('G.directed-matrix-symmetrised', f, Bd[0] if Bd else 'B = b + b.T', len(Bd) == 1 and m.match(Bd[0].value, 'b + b.T') is not None, 'B must be b + b.T')
        md = [s for s in _stmts(f) if isinstance(s, ast.Assign) and norm(s.targets[0]) == 'm']
        rep.ob('G.total-weight-of-input', f, md[0] if md else 'm', len(md) == 1 and (m.match(md[0].value, 'np.sum(k)') or m.match(md[0].value, 'np.sum(ki)') or m.match(md[0].value, 'np.sum(A)')) is not None,
               'm must be the total weight')
    # --- community_louvain
    f = prog.func(MODU, 'community_louvain')
    m = Matcher(prog, f)
    stmts = _stmts(f)
    Bmod = [s for s in stmts if isinstance(s, ast.Assign) and norm(s.targets[0]) == 'B' and m.match(s.value, 'W - gamma * np.outer(np.sum(W, axis=1), np.sum(W, axis=0)) / s')]
    rep.ob('G.null-term-carries-gamma', f, Bmod[0] if Bmod else "B = W - gamma*outer(k_out, k_in)/s", len(Bmod) == 1,
           "the 'modularity' objective must be W - gamma * k_out k_in^T / s (out-degree = row sums first)", line=f.node.lineno)
    for nm, Wn, sn in (('B0', 'W0', 's0'), ('B1', 'W1', 's1')):
        d = [s for s in stmts if isinstance(s, ast.Assign) and norm(s.targets[0]) == nm and not isinstance(s.value, ast.Constant)]
        ok = len(d) == 1 and m.match(d[0].value, '%s - gamma * np.outer(np.sum(%s, axis=1), np.sum(%s, axis=0)) / %s' % (Wn, Wn, Wn, sn)) is not None
        rep.ob('G.null-term-carries-gamma', f, d[0] if d else nm, ok, 'signed objective part must be W± - gamma*outer(k±_out, k±_in)/s±')
    qd = [s for s in stmts if isinstance(s, ast.Assign) and norm(s.targets[0]) == 'q' and ParentMap(f.node).loops(s)]
    rep.ob('G.q-is-trace-of-aggregated-objective', f, qd[-1] if qd else 'q = np.trace(B)', bool(qd) and m.match(qd[-1].value, 'np.trace(B)') is not None,
           'level q must be the trace of the module-aggregated objective matrix', line=f.node.lineno)
    cfg = CFG(f.node)
    pm = ParentMap(f.node)
    for r in cfg.returns:
        g = [(norm(t), pol) for t, pol, k, o in pm.guards(r)]
        q = r.value.elts[1] if isinstance(r.value, ast.Tuple) and len(r.value.elts) == 2 else None
        if ('not renormalize', True) in g or ('renormalize', False) in g:
            ok = q is not None and m.match(q, 'q / s') is not None
            rep.ob('G.q-normalised-by-total-weight', f, r, ok, 'for the unsigned objectives the trace must be divided by the total weight s')
        else:
            ok = q is not None and norm(q) == 'q'
            rep.ob('G.q-normalised-by-total-weight', f, r, ok, 'for the signed objectives the parts are already normalised: q must be returned as is')
    # aggregation from canonical labels
    agg = [s for s in stmts if isinstance(s, ast.Assign) and m.match(s.value, 'np.sum(B[np.ix_(Mb == i, Mb == j)])')]
    rep.ob('D.aggregate-built-from-canonical-labels', f, agg[0] if agg else 'bm = np.sum(B[np.ix_(Mb == i, Mb == j)])', len(agg) == 1,
           'aggregated objective must pool B over pairs of canonical modules', line=f.node.lineno)


def _aggregate_from_labels(prog, rep, f, m, w, qstmt, W, L, s):
    stmts = _stmts(f)
    cfg = CFG(f.node)
    agg = [x for x in stmts if isinstance(x, ast.Assign) and (m.match(x.value, 'np.sum(%s[np.ix_(%s == $U + 1, %s == $V + 1)])' % (W, L, L)) is not None)]
    ok = bool(agg)
    why = 'aggregated matrix %s is not built by pooling %s over pairs of canonical modules (%s == u+1, %s == v+1)' % (w, W, L, L)
    if ok:
        # the relabel dominates the aggregation, which dominates q
        rel = [x for x in stmts if isinstance(x, ast.Assign) and any(isinstance(c, ast.Call) and norm(c.func) == 'np.unique' for c in ast.walk(x.value))
               and any(isinstance(n, ast.Name) and n.id == L for t in x.targets for n in ast.walk(t))]
        rel = [x for x in rel if x.lineno < agg[0].lineno]
        pm = ParentMap(f.node)
        lps = pm.loops(agg[0])
        anchor = lps[-1] if lps else agg[0]
        ok = bool(rel) and cfg.dominates(rel[-1], agg[0]) and cfg.dominates(anchor, qstmt)
        why = 'aggregation must come after the final relabelling and before q'
    rep.ob('D.aggregate-built-from-canonical-labels', f, agg[0] if agg else w, ok, why, line=qstmt.lineno)
    sd = [x for x in stmts if isinstance(x, ast.Assign) and norm(x.targets[0]) == s]
    rep.ob('G.total-weight-of-input', f, sd[0] if sd else s, len(sd) == 1 and m.match(sd[0].value, 'np.sum(%s)' % W) is not None, 's must be the total weight of the input')


# ------------------------------------------------------------------ label composition across levels
def relabel_composition(prog, rep):
    """Stores of the form  L[X == u] = V[u - 1]  (or L[h][np.where(L[h-1] == i+1)] = V[i]) inside `for u in range(..)` re-express the
    labels of the original nodes through the labels V found for the current level's nodes.  Two necessary conditions:
     (snapshot)   the mask source X is a snapshot of L taken before the loop (a copy, or another level), never L itself --
                  otherwise nodes relabelled to v are relabelled again when the loop reaches u = v;
     (index space) V is indexed by the modules of L: on every path to the store, V's reaching definition is the per-module
                  vector of the current level (np.arange(1, n+1) after n = np.max(V), possibly moved/relabelled), not a per-node
                  copy of L (first level) -- decided by a product dataflow over (constant boolean flags, kind of V)."""
    from ..core.cfg import ENTRY
    for name in ('community_louvain', 'modularity_louvain_und', 'modularity_louvain_dir', 'modularity_louvain_und_sign'):
        f = prog.func(MODU, name)
        m = Matcher(prog, f)
        pm = ParentMap(f.node)
        stmts = _stmts(f)
        comps = []
        for s in stmts:
            if not (isinstance(s, ast.Assign) and len(s.targets) == 1 and isinstance(s.targets[0], ast.Subscript)):
                continue
            loops = [lp for lp in pm.loops(s) if isinstance(lp, ast.For) and isinstance(lp.target, ast.Name)]
            if not loops:
                continue
            u = loops[0].target.id
            b = m.match(s, '$L[$X == %s] = $V[%s - 1]' % (u, u)) or m.match(s, '$L[$X == %s + 1] = $V[%s]' % (u, u)) \
                or m.match(s, '$L[np.where($X == %s + 1)] = $V[%s]' % (u, u)) or m.match(s, '$L[np.where($X == %s)] = $V[%s - 1]' % (u, u))
            if b:
                comps.append((s, loops[0], b))
        rep.ob('I.composition-found', f, comps[0][0] if comps else 'L[X == u] = V[u - 1]', len(comps) == 1,
               'expected one statement mapping the level labels back to the original nodes', line=f.node.lineno)
        for (s, lp, b) in comps:
            L, X, V = b['L'], b['X'], b['V']
            # --- snapshot
            ok = True
            why = ''
            if norm(L) == norm(X):
                ok = False
                why = 'mask reads the array being written'
            elif isinstance(X, ast.Name) and isinstance(L, ast.Name):
                xd = [d for d in stmts if isinstance(d, ast.Assign) and any(isinstance(t, ast.Name) and t.id == X.id for t in d.targets)]
                for d in xd:
                    v = d.value
                    fresh = (isinstance(v, ast.Call) and ((isinstance(v.func, ast.Attribute) and v.func.attr in ('copy', 'astype') and norm(v.func.value) == L.id)
                                                          or (norm(v.func) in ('np.array', 'np.copy') and v.args and norm(v.args[0]) == L.id)))
                    if not fresh and L.id in {n.id for n in ast.walk(v) if isinstance(n, ast.Name)} and not isinstance(v, ast.BinOp):
                        ok = False
                        why = '`%s` is defined by `%s`: it shares memory with `%s`, so labels written for module u are read back as the mask of a later u' % (X.id, norm(d), L.id)
                if not xd:
                    ok = False
                    why = 'no definition of the mask source'
            elif isinstance(X, ast.Subscript) and isinstance(L, ast.Subscript):
                ok = norm(X.value) == norm(L.value) and norm(X.slice) != norm(L.slice)
                why = 'mask level and written level coincide'
            rep.ob('I.relabel-mask-is-a-snapshot', f, s, ok, why)
            # --- index space (only where V can also be a per-node copy of L: community_louvain)
            if isinstance(V, ast.Name) and isinstance(L, ast.Name):
                _index_space(prog, rep, f, s, L.id, V.id)


def _index_space(prog, rep, f, store, L, V):
    from ..core.cfg import ENTRY
    cfg = CFG(f.node)
    m = Matcher(prog, f)
    # constant boolean flags of the function
    flags = set()
    for s in _stmts(f):
        if isinstance(s, ast.Assign) and len(s.targets) == 1 and isinstance(s.targets[0], ast.Name) and isinstance(s.value, ast.Constant) and isinstance(s.value.value, bool):
            flags.add(s.targets[0].id)
    flags = sorted(flags)

    def kind_of_def(s):
        v = s.value
        if isinstance(v, ast.Call) and isinstance(v.func, ast.Attribute) and v.func.attr == 'copy' and norm(v.func.value) == L:
            return 'PER-NODE'
        if m.match(v, 'np.arange(1, $N + 1)') or m.match(v, 'np.arange($N) + 1'):
            return 'PER-LEVEL-NODE'
        return None
    # state: frozenset of (flag values tuple, kind)
    IN = {ENTRY: frozenset([(tuple(None for _ in flags), 'UNDEF')])}
    work = [ENTRY]
    n = 0

    def transfer(node, states):
        out = set()
        for (fv, kind) in states:
            fv = list(fv)
            k = kind
            if isinstance(node, ast.Assign) and len(node.targets) == 1 and isinstance(node.targets[0], ast.Name):
                nm = node.targets[0].id
                if nm in flags and isinstance(node.value, ast.Constant):
                    fv[flags.index(nm)] = node.value.value
                elif nm in flags:
                    fv[flags.index(nm)] = None
                if nm == V:
                    kd = kind_of_def(node)
                    k = kd or 'OTHER'
            elif isinstance(node, ast.Assign) and isinstance(node.targets[0], ast.Tuple) and any(isinstance(e, ast.Name) and e.id == V for e in node.targets[0].elts):
                pass     # canonical relabelling keeps the index space
            out.add((tuple(fv), k))
        return frozenset(out)
    while work:
        x = work.pop()
        st = IN[x]
        out = st if x == ENTRY else transfer(x, st)
        for sc in cfg.succ(x):
            if sc in ('EXIT', 'RAISE'):
                continue
            o2 = out
            if isinstance(x, ast.If) and isinstance(x.test, ast.Name) and x.test.id in flags:
                labs = cfg.edge_labels(x, sc)
                i = flags.index(x.test.id)
                keep = set()
                for (fv, k) in out:
                    for lab in labs:
                        if lab in (True, False) and (fv[i] is None or fv[i] == lab):
                            f2 = list(fv)
                            f2[i] = lab
                            keep.add((tuple(f2), k))
                o2 = frozenset(keep)
                if not o2:
                    continue
            if sc not in IN:
                IN[sc] = o2
                work.append(sc)
            elif not o2 <= IN[sc]:
                IN[sc] = IN[sc] | o2
                work.append(sc)
        n += 1
        if n > 20000:
            break
    kinds = {k for (fv, k) in IN.get(store, frozenset())}
    rep.ob('I.relabel-vector-indexed-by-modules', f, store, bool(kinds) and kinds <= {'PER-LEVEL-NODE'},
           '`%s[u - 1]` is read as "new label of module u of `%s`", but on some path `%s` still is %s: labels of individual nodes would be applied to whole modules '
           'and the returned partition differs from the one q was computed for' % (
               V, L, V, ' / '.join(sorted({'a per-node copy of the start partition' if k == 'PER-NODE' else k for k in kinds - {'PER-LEVEL-NODE'}})) or 'undefined'))
    # and the direct assignment L = V.copy() needs V per node
    for s in _stmts(f):
        if isinstance(s, ast.Assign) and len(s.targets) == 1 and isinstance(s.targets[0], ast.Name) and s.targets[0].id == L \
                and isinstance(s.value, ast.Call) and isinstance(s.value.func, ast.Attribute) and s.value.func.attr == 'copy' and norm(s.value.func.value) == V:
            ks = {k for (fv, k) in IN.get(s, frozenset())}
            rep.ob('I.direct-assignment-needs-per-node-vector', f, s, bool(ks) and ks <= {'PER-NODE'},
                   '`%s = %s.copy()` is only right while `%s` labels the original nodes (first level); here it may be %s' % (L, V, V, sorted(ks)))


# ------------------------------------------------------------------ (c) + (d)
SCALING = {   # qtype -> (d0, d1) in terms of the positive / negative total weight
    'smp': ('1/s0', '1/s1'),
    'gja': ('1/(s0+s1)', '1/(s0+s1)'),
    'sta': ('1/s0', '1/(s0+s1)'),
    'pos': ('1/s0', '0'),
    'neg': ('0', '1/s1'),
}


def _signed_scaling(prog, rep):
    """The signed routines return q = d0*Q+ - d1*Q-.  The pair (d0, d1) must be the documented scaling of the chosen qtype,
    computed from the *true* totals of the positive and negative weights: the substitution s = 1 for an absent sign may
    only happen after the scaling was derived (it also zeroes the corresponding d)."""
    import sympy as sp
    from ..core.canon import Canon
    n_br = 0
    for name in ('modularity_louvain_und_sign', 'modularity_finetune_und_sign', 'modularity_probtune_und_sign', 'modularity_und_sign'):
        f = prog.func(MODU, name)
        m = Matcher(prog, f)
        cfg = CFG(f.node)
        stmts = _stmts(f)
        # totals: s = np.sum(W±) with W0 = W*(W>0), W1 = -W*(W<0)
        parts = {}
        for s_ in stmts:
            b = m.match(s_, '$P = $W * ($W > 0)')
            if b and isinstance(b['P'], ast.Name):
                parts[b['P'].id] = 0
            b = m.match(s_, '$P = -$W * ($W < 0)')
            if b and isinstance(b['P'], ast.Name):
                parts[b['P'].id] = 1
        totals = {}
        for s_ in stmts:
            b = m.match(s_, '$S = np.sum($P)') or m.match(s_, '$S = $P.sum()')
            if b and isinstance(b['S'], ast.Name) and isinstance(b['P'], ast.Name) and b['P'].id in parts:
                totals.setdefault(b['S'].id, []).append((s_, parts[b['P'].id]))
        tot_name = {}
        for nm, lst in totals.items():
            for s_, k in lst:
                tot_name[k] = nm
        ok_tot = set(tot_name) == {0, 1}
        near = [s_ for s_ in stmts if isinstance(s_, ast.Assign) and id(s_) not in {id(x) for lst in totals.values() for x, _ in lst} and any(
            (m.match(sub, 'np.sum($P)') or Binds()).get('P') is not None and isinstance(m.match(sub, 'np.sum($P)')['P'], ast.Name)
            and m.match(sub, 'np.sum($P)')['P'].id in parts for sub in ast.walk(s_.value))]
        rep.ob('S.totals-of-each-sign', f, (near[0] if near else 's0 = np.sum(W0); s1 = np.sum(W1)') if not ok_tot else '%s, %s' % (tot_name[0], tot_name[1]), ok_tot,
               'positive and negative total weights must be the plain sums of W*(W>0) and -W*(W<0) when the qtype scaling is derived from them'
               + ('; found %s' % '; '.join(norm(x) for x in near) if near else ''), line=(near[0].lineno if near else f.node.lineno))
        if not ok_tot:
            continue
        sym = {tot_name[0], tot_name[1]}
        pure = {id(s_) for lst in totals.values() for s_, k in lst}
        # the qtype chain
        chain = {}
        for node in stmts:
            if isinstance(node, ast.If):
                b = m.match(node.test, "qtype == $L")
                if b and isinstance(b['L'], ast.Constant) and isinstance(b['L'].value, str):
                    chain[b['L'].value] = node
        rep.ob('S.every-qtype-has-a-scaling', f, 'branches: %s' % sorted(chain), set(chain) == set(SCALING),
               'expected one branch for each of %s' % sorted(SCALING), line=f.node.lineno)
        # names of the two factors: from the final combination d0*.. - d1*..
        dn = None
        for s_ in stmts:
            if isinstance(s_, ast.Assign):
                b = m.match(s_.value, '$A * $X - $B * $Y')
                if b and isinstance(b['A'], ast.Name) and isinstance(b['B'], ast.Name) and norm(s_.targets[0]).split('[')[0] == 'q':
                    dn = (b['A'].id, b['B'].id)
        if dn is None:
            rep.ob('S.scaling-factors-identified', f, 'q = d0*Q+ - d1*Q-', False, 'final signed combination not found', line=f.node.lineno)
            continue
        for qt, node in sorted(chain.items()):
            if qt not in SCALING:
                continue
            for k, dname in enumerate(dn):
                asg = [x for x in node.body if isinstance(x, ast.Assign) and len(x.targets) == 1 and norm(x.targets[0]) == dname]
                if len(asg) != 1:
                    rep.ob('S.scaling-table', f, "qtype=='%s': %s" % (qt, dname), False, 'branch does not assign %s exactly once' % dname, line=node.lineno)
                    continue
                a = asg[0]
                n_br += 1
                names = {x.id for x in ast.walk(a.value) if isinstance(x, ast.Name)}
                prior = {norm(x.targets[0]): x.value for x in node.body[:node.body.index(a)]
                         if isinstance(x, ast.Assign) and len(x.targets) == 1 and isinstance(x.targets[0], ast.Name)}
                try:
                    e = Canon(prog, f, defs=prior).term(a.value)
                    if not e.free_symbols <= {sp.Symbol(tot_name[0]), sp.Symbol(tot_name[1])}:
                        e = None
                except Exception:
                    e = None
                ref = sp.sympify(SCALING[qt][k], locals={'s0': sp.Symbol(tot_name[0]), 's1': sp.Symbol(tot_name[1])})
                okv = e is not None and sp.simplify(e - ref) == 0
                rep.ob('S.scaling-table', f, "qtype=='%s': %s" % (qt, norm(a)), okv,
                       'for qtype %s the factor must be %s' % (qt, SCALING[qt][k]), line=a.lineno)
                for v in sorted(names & sym):
                    rd = cfg.reaching_defs(v, a)
                    bad = [d for d in rd if d == 'ENTRY' or id(d) not in pure]
                    rep.ob('S.scaling-uses-true-totals', f, "qtype=='%s': %s reads %s" % (qt, norm(a), v), not bad,
                           'the total `%s` read here may come from %s, which is not the plain sum of the weights of that sign: the scaling '
                           '(and with it the returned q) no longer matches the definition' % (v, [norm(d) if d != 'ENTRY' else d for d in bad]),
                           line=a.lineno)
        # a zero test on each total exists after the chain (absent sign)
        for k in (0, 1):
            v = tot_name[k]
            tests = [x for x in stmts if isinstance(x, ast.If) and (m.match(x.test, 'not %s' % v) or m.match(x.test, '%s == 0' % v) or m.match(x.test, v))]
            tests += [x for x in ast.walk(f.node) if isinstance(x, ast.IfExp) and v in {y.id for y in ast.walk(x.test) if isinstance(y, ast.Name)}]
            rep.ob('S.absent-sign-handled', f, tests[0].test if tests else 'if not %s' % v, bool(tests),
                   'a network without weights of one sign makes `%s` zero: the division by it must be neutralised' % v, line=f.node.lineno)
    rep.floor('S.scaling-table', 36)


def _levels(prog, rep):
    for name, Wname, agg in (('modularity_louvain_und', 'W', 'W1'), ('modularity_louvain_dir', 'W', 'W1')):
        f = prog.func(MODU, name)
        m = Matcher(prog, f)
        stmts = _stmts(f)
        cfg = CFG(f.node)
        pm = ParentMap(f.node)
        sites = H.locate_moves(prog, f)
        if not sites:
            continue
        lvl = [lp for lp in pm.loops(sites[0].loop) if isinstance(lp, ast.While)]
        outer = lvl[-1] if lvl else None
        # matrix read by the move phase
        reads = {n.id for t in sites[0].t_updates for n in ast.walk(t[3]) if isinstance(n, ast.Name)} - {sites[0].u}
        aggs = [s for s in stmts if isinstance(s, ast.Assign) and m.match(s.value, 'np.zeros((n, n))') is not None and outer is not None and s in list(ast.walk(outer))]
        aggname = norm(aggs[0].targets[0]) if aggs else agg
        reb = [s for s in stmts if outer is not None and s in list(ast.walk(outer)) and isinstance(s, ast.Assign)
               and any(norm(t) in reads for t in s.targets) and (norm(s.value) == aggname or norm(s.value) == aggname + '.copy()')]
        rep.ob('E.level-matrix-rebound-to-aggregate', f, reb[0] if reb else '%s = %s' % (Wname, aggname), bool(reb),
               'the move phase reads `%s` but the level loop never replaces it by the aggregated matrix `%s`: from the second level on, nodes of the '
               'original network are moved as if they were modules (leading dimension != current node count) and (ci, q) of later levels are inconsistent' % (
                   sorted(reads)[0] if reads else Wname, aggname), line=(outer.lineno if outer is not None else f.node.lineno))
        # (c) same index
        for r in cfg.returns:
            v = r.value
            if isinstance(v, ast.Tuple) and len(v.elts) == 2 and isinstance(v.elts[0], ast.Subscript) and isinstance(v.elts[1], ast.Subscript):
                rep.ob('D.same-level-for-ci-and-q', f, r, norm(v.elts[0].slice) == norm(v.elts[1].slice),
                       'labels from level `%s`, q from level `%s`' % (norm(v.elts[0].slice), norm(v.elts[1].slice)))
    f = prog.func(MODU, 'modularity_louvain_und_sign')
    m = Matcher(prog, f)
    stmts = _stmts(f)
    for Wn, agg in (('W0', 'wn0'), ('W1', 'wn1')):
        reb = [s for s in stmts if m.match(s, '%s = %s' % (Wn, agg)) or m.match(s, '%s = %s.copy()' % (Wn, agg))]
        rep.ob('E.level-matrix-rebound-to-aggregate', f, reb[0] if reb else '%s = %s' % (Wn, agg), len(reb) == 1 and bool(ParentMap(f.node).loops(reb[0])),
               'level loop must continue on the aggregated matrix', line=f.node.lineno)
    f = prog.func(MODU, 'community_louvain')
    m = Matcher(prog, f)
    reb = [s for s in _stmts(f) if m.match(s, 'B = b1.copy()') or m.match(s, 'B = b1')]
    rep.ob('E.level-matrix-rebound-to-aggregate', f, reb[0] if reb else 'B = b1.copy()', len(reb) == 1, 'level loop must continue on the aggregated objective', line=f.node.lineno)
    nd = [s for s in _stmts(f) if m.match(s, 'n = np.max(Mb)')]
    rep.ob('E.node-count-follows-level', f, nd[0] if nd else 'n = np.max(Mb)', len(nd) == 1, 'node count of the next level must be the number of modules', line=f.node.lineno)


def variants(root):
    from ..selftest import Variant as V
    M = 'bct/algorithms/modularity.py'
    out = []

    def B(name, fn, old, new, expect, **kw):
        out.append(V('%s: %s' % (fn, name), 'break', M, old, new, expect, fn, scope='def %s(' % fn, **kw))

    def N(name, fn, old, new, **kw):
        out.append(V('%s: neutral %s' % (fn, name), 'neutral', M, old, new, scope='def %s(' % fn, **kw))
    R2 = "    _, ci = np.unique(ci, return_inverse=True)\n    ci += 1\n"
    tails = {'modularity_finetune_und': "\n    m = np.max(ci)\n", 'modularity_finetune_dir': "    m = np.max(ci)  # new number of modules\n",
             'modularity_finetune_und_sign': "    m = np.tile(ci, (n, 1))\n", 'modularity_probtune_und_sign': "    m = np.tile(ci, (n, 1))\n"}
    for fn, tail in tails.items():
        B('final relabel deleted', fn, R2 + tail, tail, 'C.returned')
        B('labels left zero-based', fn, R2 + tail, "    _, ci = np.unique(ci, return_inverse=True)\n" + tail, 'C.returned')
    qblock = ("    m = np.tile(ci, (n, 1))\n    q0 = (W0 - gamma * np.outer(Kn0, Kn0) / s0) * (m == m.T)\n"
              "    q1 = (W1 - gamma * np.outer(Kn1, Kn1) / s1) * (m == m.T)\n    q = d0 * np.sum(q0) - d1 * np.sum(q1)\n")
    B('q computed before the move loop', 'modularity_finetune_und_sign', "    flag = True  # flag for within hierarchy search\n    h = 0\n",
      qblock + "    flag = True\n    h = 0\n", 'D.q-recomputed', also=[(M, qblock + "\n    return ci, q", "    return ci, q", 1)])
    for fn in ('modularity_louvain_und_sign', 'modularity_finetune_und_sign', 'modularity_probtune_und_sign', 'modularity_und_sign'):
        B('absent-sign substitution before the scaling', fn, 's0 = np.sum(W0)', 's0 = np.sum(W0) or 1', 'S.totals')
        B('substitution moved before the qtype chain', fn, "    if qtype == 'smp':", "    if not s0:\n        s0 = 1\n    if qtype == 'smp':", 'S.scaling-uses-true-totals')
        B('sta scaling of negative part by s1 only', fn, "    elif qtype == 'sta':\n        d0 = 1 / s0\n        d1 = 1 / (s0 + s1)", "    elif qtype == 'sta':\n        d0 = 1 / s0\n        d1 = 1 / s1", 'S.scaling-table')
        B('pos keeps the negative part', fn, "    elif qtype == 'pos':\n        d0 = 1 / s0\n        d1 = 0", "    elif qtype == 'pos':\n        d0 = 1 / s0\n        d1 = 1 / s1", 'S.scaling-table')
        B('gja branch missing', fn, "    elif qtype == 'gja':", "    elif qtype == 'gja_':", 'S.every-qtype')
        N('smp written with reciprocal power', fn, "    if qtype == 'smp':\n        d0 = 1 / s0", "    if qtype == 'smp':\n        d0 = s0 ** -1")
        N('gja sum commuted', fn, "    elif qtype == 'gja':\n        d0 = 1 / (s0 + s1)", "    elif qtype == 'gja':\n        d0 = 1 / (s1 + s0)")
    B('gamma dropped from q', 'modularity_finetune_und', 'q = np.trace(w) / s - gamma * np.sum(np.dot(w / s, w / s))', 'q = np.trace(w) / s - np.sum(np.dot(w / s, w / s))', 'G.')
    B('gamma dropped from q', 'modularity_finetune_und_sign', 'q0 = (W0 - gamma * np.outer(Kn0, Kn0) / s0)', 'q0 = (W0 - np.outer(Kn0, Kn0) / s0)', 'G.null')
    B('gamma dropped from q', 'modularity_louvain_und_sign', 'q1 = np.trace(W1) - gamma * np.sum', 'q1 = np.trace(W1) - np.sum', 'G.null')
    B('gamma dropped from q', 'modularity_louvain_und', 'q[h] = np.trace(W) / s - gamma * np.sum(np.dot(W / s, W / s))', 'q[h] = np.trace(W) / s - np.sum(np.dot(W / s, W / s))', 'G.')
    B('gamma dropped from B', 'modularity_und', 'B = A - gamma * np.outer(k, k) / m', 'B = A - np.outer(k, k) / m', 'G.null')
    B('in/out swapped in null model', 'modularity_dir', 'b = A - gamma * np.outer(ko, ki) / m', 'b = A - gamma * np.outer(ki, ko) / m', 'G.null')
    B('q of directed network normalised by m', 'modularity_dir', 'q = np.sum(np.logical_not(s - s.T) * B / (2 * m))', 'q = np.sum(np.logical_not(s - s.T) * B / m)', 'G.q-is')
    B('aggregate never handed to next level', 'modularity_louvain_und', '        W = W1\n', '', 'E.level')
    B('aggregate never handed to next level', 'modularity_louvain_und_sign', '        W0 = wn0\n', '', 'E.level')
    B('aggregate never handed to next level', 'community_louvain', '        B = b1.copy()\n', '', 'E.level')
    B('labels and q from different levels', 'modularity_louvain_und', 'return ci[h - 1], q[h - 1]', 'return ci[h - 1], q[h]', 'D.same-level')
    B('trace not normalised', 'community_louvain', 'return ci, q/s', 'return ci, q', 'G.q-normalised')
    B('aggregation on pre-relabel labels', 'modularity_finetune_dir', "    _, ci = np.unique(ci, return_inverse=True)\n    ci += 1\n    m = np.max(ci)  # new number of modules",
      "    m = np.max(ci)  # new number of modules", 'D.aggregate') if False else None
    # (deleting the per-level relabel in modularity_louvain_und_sign is behaviour-preserving: empty modules carry no weight and the result is re-canonicalised)
    B('total weight of the aggregated level', 'modularity_louvain_und', '    s = np.sum(W)  # weight of edges\n', '    s = np.sum(W) / 2\n', 'G.total')
    B('singletons start at zero', 'modularity_louvain_und', 'ci.append(np.arange(n) + 1)', 'ci.append(np.arange(n))', 'C.')
    B('community_louvain first level not canonical', 'community_louvain', '        _, Mb = np.unique(Mb, return_inverse=True)\n        Mb += 1\n', '', 'C.')
    N('q terms reordered', 'modularity_finetune_und', 'q = np.trace(w) / s - gamma * np.sum(np.dot(w / s, w / s))', 'q = -gamma * np.sum(np.dot(w / s, w / s)) + np.trace(w) / s') if False else None
    B('relabel mask aliases labels', 'community_louvain', 'M0 = ci.copy()', 'M0 = ci', 'I.relabel-mask')
    B('first-level flag never cleared', 'community_louvain', '            first_iteration = False\n', '', 'I.')
    B('levels relabelled from the same level', 'modularity_louvain_und', 'ci[h][np.where(ci[h - 1] == i + 1)] = m[i]', 'ci[h][np.where(ci[h] == i + 1)] = m[i]', 'I.relabel-mask')
    N('snapshot via np.array', 'community_louvain', 'M0 = ci.copy()', 'M0 = np.array(ci)')
    N('unique spelled with index', 'modularity_finetune_und', "    _, ci = np.unique(ci, return_inverse=True)\n    ci += 1\n\n    m = np.max(ci)", "    ci = np.unique(ci, return_inverse=True)[1] + 1\n\n    m = np.max(ci)")
    N('aggregate copied', 'modularity_louvain_und', '        W = W1\n', '        W = W1.copy()\n')
    return [v for v in out if v is not None]
