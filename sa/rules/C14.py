"""C14 - partition-consuming functions depend on the partition, not on label values.

Engine C (sa/engines/labels.py): a raw partition argument may reach label arithmetic only
through np.unique(..., return_inverse=True); before that only label-safe operations are
allowed.  Plus: partition_distance canonicalises both arguments, pairs them injectively and its
final formulas are symmetric under exchanging the arguments; ci2ls / ls2ci structure;
index-kind rule inside consumers (a module index must not index a nodes-of-one-module axis,
positions inside a node subset must not index a whole-network array).
"""
import ast

import sympy as sp

from ..core.astutil import norm, ParentMap
from ..core.canon import Canon, parse_expr
from ..core.cfg import CFG
from ..core.loader import walk_no_nested
from ..core.pattern import Matcher
from ..engines.labels import LabelFlow, raw_sinks, RAW, CANON, CANON1, is_unique_inverse

CEN = 'bct.algorithms.centrality'
MODU = 'bct.algorithms.modularity'
CLU = 'bct.algorithms.clustering'
MISC = 'bct.utils.miscellaneous_utilities'

# (module, function, partition parameter, must_canonicalise)
CONSUMERS = [
    (CEN, 'participation_coef', 'ci', True),
    (CEN, 'participation_coef_sign', 'ci', True),
    (CEN, 'module_degree_zscore', 'ci', True),
    (CEN, 'diversity_coef_sign', 'ci', True),
    (CEN, 'gateway_coef_sign', 'ci', True),
    (MODU, 'modularity_und', 'kci', False),
    (MODU, 'modularity_dir', 'kci', False),
    (MODU, 'modularity_und_sign', 'ci', True),
    (MODU, 'partition_distance', 'cx', True),
    (MODU, 'partition_distance', 'cy', True),
    (MODU, 'ci2ls', 'ci', True),
    (CLU, 'agreement', 'ci', False),
    (MISC, 'dummyvar', 'cis', False),
    (MODU, 'community_louvain', 'ci', True),
    (MODU, 'modularity_finetune_und', 'ci', True),
    (MODU, 'modularity_finetune_dir', 'ci', True),
    (MODU, 'modularity_finetune_und_sign', 'ci', True),
    (MODU, 'modularity_probtune_und_sign', 'ci', True),
]
INFO_ONLY = [(CEN, 'participation_coef_sparse', 'ci'), (CLU, 'agreement_weighted', 'ci')]


def _stmts(f):
    return [n for n in walk_no_nested(f.node) if isinstance(n, ast.stmt)]


def check(prog, rep):
    rep.explanation = (
        'Label-taint dataflow: every partition parameter starts RAW; statuses (RAW / CANON after np.unique(...,return_inverse=True) / '
        'CANON+1) are propagated over the statement CFG; wherever a RAW value can still reach a use, the use must be label-safe '
        '(size/shape, np.unique, equality between labels, zero-test of a label difference, argsort grouping, hand-over to another '
        'checked consumer, returned unchanged). Any other use -- comparison with a module index or literal, max as a count, indexing, '
        'arithmetic, histogram bins -- is reported with its position. Since canonical labels are a function of the partition only, a '
        'consumer whose label-dependent computation starts after canonicalisation is invariant under every injective relabelling. '
        'partition_distance: both arguments canonicalised, injective pairing, formulas symmetric in x/y and of the documented form.')
    rep.assume('np.unique(x, return_inverse=True)[1] depends only on the equality pattern of x up to the order of first... sorted unique values: '
               'relabelling permutes canonical labels; consumers are checked to use canonical labels symmetrically (loops over all modules)')
    callees = {(fn, p) for (_, fn, p, _) in CONSUMERS} | {(fn, p) for (_, fn, p) in INFO_ONLY}
    callees |= {('dummyvar', 'cis'), ('ls2ci', 'ls')}
    n_canon_sites = 0
    for modname, fname, param, must in CONSUMERS:
        f = prog.func(modname, fname)
        if param not in f.all_params:
            rep.error('%s has no parameter %s' % (fname, param))
            continue
        flow = LabelFlow(prog, f, {param: RAW})
        sinks = raw_sinks(prog, f, flow, callees)
        if not sinks:
            rep.ob('C.raw-labels-only-in-safe-uses', f, '%s(%s)' % (fname, param), True, '', line=f.node.lineno)
        for node, why in sinks:
            rep.ob('C.raw-labels-only-in-safe-uses', f, '%s(%s): %s' % (fname, param, norm(pmstmt(f, node)).split('\n')[0][:90]), False,
                   '%s (line %d)' % (why, node.lineno), line=node.lineno)
        canon = [s for s in _stmts(f) if isinstance(s, ast.Assign) and any(
            is_unique_inverse(prog, f, c) and c.args and RAW in flow.status(c.args[0], flow.at(s)) for c in ast.walk(s.value))]
        n_canon_sites += len(canon)
        if must:
            rep.ob('C.canonicalises', f, canon[0] if canon else '_, %s = np.unique(%s, return_inverse=True)' % (param, param), bool(canon),
                   'partition argument `%s` is never canonicalised' % param, line=f.node.lineno)
    rep.stat('canonicalisation_sites', n_canon_sites)
    for modname, fname, param in INFO_ONLY:
        f = prog.func(modname, fname)
        flow = LabelFlow(prog, f, {param: RAW})
        for node, why in raw_sinks(prog, f, flow, callees):
            rep.info('%s(%s): %s at line %d (outside the statement\'s list, information only)' % (fname, param, why, node.lineno))
    _partition_distance(prog, rep)
    _ci2ls_ls2ci(prog, rep)
    _index_kinds(prog, rep)
    _module_loops(prog, rep)
    rep.floor('C.raw-labels-only-in-safe-uses', 18)
    rep.floor('C.canonicalises', 13)
    rep.floor('G.', 4)


def pmstmt(f, node):
    pm = ParentMap(f.node)
    return pm.stmt_of(node) or node


# ------------------------------------------------------------------ partition_distance
def _partition_distance(prog, rep):
    f = prog.func(MODU, 'partition_distance')
    m = Matcher(prog, f)
    stmts = _stmts(f)
    flow = LabelFlow(prog, f, {'cx': RAW, 'cy': RAW})
    # joint labels: np.unique(cx + cy*1j) with both canonical there
    joint = None
    for s in stmts:
        if isinstance(s, ast.Assign) and is_unique_inverse(prog, f, s.value) and s.value.args:
            a = s.value.args[0]
            b = m.match(a, '$X + $Y * 1j') or m.match(a, '$X * 1j + $Y')
            if b:
                joint = (s, b['X'], b['Y'])
    ok = False
    why = 'joint labels are not formed by an injective pairing of the two canonical label vectors'
    if joint:
        st = flow.at(joint[0])
        sx, sy = flow.status(joint[1], st), flow.status(joint[2], st)
        ok = bool(sx) and bool(sy) and RAW not in sx and RAW not in sy and {norm(joint[1]), norm(joint[2])} == {'cx', 'cy'}
        why = 'pairing key is built from labels of status %s / %s: raw labels could collide or be non-numeric' % (sorted(sx), sorted(sy))
    rep.ob('C.joint-labels-injective-pairing', f, joint[0] if joint else 'np.unique(cx + cy * 1j, return_inverse=True)', ok, why, line=f.node.lineno)
    # entropies of the three canonical vectors: H = -sum(P*log P), P = histogram(c, bins=max(c))[0] / n
    defs = {}
    for s in stmts:
        if isinstance(s, ast.Assign) and len(s.targets) == 1 and isinstance(s.targets[0], ast.Name):
            defs.setdefault(s.targets[0].id, []).append(s)
    ent = {}
    for nm, ds in defs.items():
        for d in ds:
            b = m.match(d.value, '-np.sum($P * np.log($P))')
            if b and isinstance(b['P'], ast.Name):
                pd = defs.get(b['P'].id, [])
                if len(pd) == 1:
                    bb = m.match(pd[0].value, 'np.histogram($C, bins=np.max($C))[0] / $N')
                    if bb and isinstance(bb['C'], ast.Name):
                        ent[nm] = (bb['C'].id, norm(bb['N']), d)
    want = {'cx', 'cy'}
    srcs = {v[0] for v in ent.values()}
    rep.ob('G.entropies-of-x-y-and-joint', f, 'H = -sum(P log P) for %s' % sorted(srcs), len(ent) == 3 and want <= srcs,
           'need Shannon entropies of cx, cy and the joint labels, each from a histogram with one bin per canonical label', line=f.node.lineno)
    for nm, (c, n, d) in sorted(ent.items()):
        st = flow.at(d)
        # the histogram must see canonical+1 labels with bins = max
        pstmt = defs[[k for k in defs if defs[k] and m.match(d.value, '-np.sum(%s * np.log(%s))' % (k, k))][0]][0]
        stc = flow.status(ast.Name(id=c, ctx=ast.Load()), flow.at(pstmt))
        rep.ob('C.histogram-on-canonical-labels', f, pstmt, bool(stc) and RAW not in stc,
               'histogram bins=max(label) is only a per-label count on canonical labels (status %s)' % sorted(stc))
    ndef = defs.get('n', [])
    rep.ob('G.n-is-number-of-nodes', f, ndef[0] if ndef else 'n = np.size(cx)', len(ndef) == 1 and (
        m.match(ndef[0].value, 'np.size(cx)') or m.match(ndef[0].value, 'len(cx)') or m.match(ndef[0].value, 'np.size(cy)') or m.match(ndef[0].value, 'len(cy)')) is not None,
        'n must be the number of nodes', line=f.node.lineno)
    # final formulas
    cfg = CFG(f.node)
    r = cfg.returns[0] if cfg.returns else None
    if r is None or not isinstance(r.value, ast.Tuple) or len(r.value.elts) != 2:
        rep.ob('G.returns-vin-min', f, r or 'return', False, 'must return (VIn, MIn)', line=f.node.lineno)
        return
    names = {v[0]: k for k, v in ent.items()}
    hx, hy = names.get('cx'), names.get('cy')
    hxy = [k for k, v in ent.items() if v[0] not in ('cx', 'cy')]
    hxy = hxy[0] if hxy else None
    inl = {k: ds[0].value for k, ds in defs.items() if len(ds) == 1 and k not in ent and k != 'n'}
    c = Canon(prog, f, defs=inl)
    vin, mi = c.term(r.value.elts[0]), c.term(r.value.elts[1])
    if hx and hy and hxy:
        HX, HY, HXY, N = sp.Symbol(hx), sp.Symbol(hy), sp.Symbol(hxy), sp.Symbol('n')
        logn = sp.Function('np.log')(N)
        ref_v = (2 * HXY - HX - HY) / logn
        ref_m = 2 * (HX + HY - HXY) / (HX + HY)
        rep.ob('G.vin-definition', f, 'VIn = %s' % vin, sp.simplify(vin - ref_v) == 0,
               'normalised variation of information must equal (2 H(X,Y) - H(X) - H(Y)) / log n')
        rep.ob('G.min-definition', f, 'MIn = %s' % mi, sp.simplify(mi - ref_m) == 0,
               'normalised mutual information must equal 2 (H(X) + H(Y) - H(X,Y)) / (H(X) + H(Y))')
        sw = {HX: HY, HY: HX}
        rep.ob('G.symmetric-in-arguments', f, 'swap H(X) <-> H(Y)',
               sp.simplify(vin.xreplace(sw) - vin) == 0 and sp.simplify(mi.xreplace(sw) - mi) == 0,
               'exchanging the two partitions changes the result')


# ------------------------------------------------------------------ ci2ls / ls2ci
def _ci2ls_ls2ci(prog, rep):
    f = prog.func(MODU, 'ls2ci')
    m = Matcher(prog, f)
    hit = None
    for s in _stmts(f):
        b = m.match(s, 'ci[ls[$I][$J]] = $I + $Z') or m.match(s, 'ci[$Y] = $I + $Z')
        if b:
            hit = (s, b)
    ok = False
    if hit:
        s, b = hit
        pm = ParentMap(f.node)
        loops = pm.loops(s)
        # $I must be the index of the outer enumeration over ls
        ok = any(isinstance(lp.iter, ast.Call) and norm(lp.iter) == 'enumerate(ls)' and isinstance(lp.target, ast.Tuple)
                 and norm(lp.target.elts[0]) == norm(b['I']) for lp in loops)
        zdef = [x for x in _stmts(f) if isinstance(x, ast.Assign) and norm(x.targets[0]) == norm(b['Z'])]
        ok = ok and len(zdef) == 1 and m.match(zdef[0].value, 'int(not zeroindexed)') is not None
    rep.ob('D.ls2ci-labels-by-list-position', f, hit[0] if hit else 'ci[node] = i + z', ok,
           'each node of the i-th list must get label i (+1 unless zero-indexed)', line=f.node.lineno)
    g = prog.func(MODU, 'ci2ls')
    m = Matcher(prog, g)
    flow = LabelFlow(prog, g, {'ci': RAW})
    app = [s for s in _stmts(g) if m.match(s, 'ls[ci[$I] - 1].append($I)') or m.match(s, 'ls[$X - 1].append($I)')]
    ok = False
    if app:
        st = flow.at(app[0])
        ok = st.get('ci') == {CANON1}
    rep.ob('D.ci2ls-groups-by-canonical-label', g, app[0] if app else 'ls[ci[i] - 1].append(i)', ok,
           'node i must be appended to the list of its canonical (1-based) label', line=g.node.lineno)


# ------------------------------------------------------------------ index kinds (gateway_coef_sign)
def _index_kinds(prog, rep):
    """K1: an array whose leading dimension is np.sum(<label mask>) (nodes of one module) must not be indexed by a module index.
       K2: positions obtained from np.where(X[S, ...]) are positions inside S; they must not index an array that is not restricted to S.
       K3: np.sum over a row-subset of a (node x module) table that is used as a per-module quantity needs an axis."""
    n_checked = 0
    for modname, fname, param, must in CONSUMERS:
        f = prog.func(modname, fname)
        for g in [f] + list(f.nested.values()):
            m = Matcher(prog, g)
            stmts = [n for n in walk_no_nested(g.node) if isinstance(n, ast.stmt)]
            pm = ParentMap(g.node)
            # K1
            for s in stmts:
                if not (isinstance(s, ast.Assign) and len(s.targets) == 1 and isinstance(s.targets[0], ast.Name)):
                    continue
                b = None
                for sub in ast.walk(s.value):
                    b = m.match(sub, 'np.ones((np.sum($MASK), $K))') or m.match(sub, 'np.zeros((np.sum($MASK), $K))')
                    if b:
                        break
                if not b:
                    continue
                arr = s.targets[0].id
                loopvars = {lp.target.id for lp in pm.loops(s) if isinstance(lp, ast.For) and isinstance(lp.target, ast.Name)
                            and isinstance(lp.iter, ast.Call) and norm(lp.iter.func) == 'range'}
                mask_vars = {x.id for x in ast.walk(b['MASK']) if isinstance(x, ast.Name)}
                mod_idx = loopvars & mask_vars
                for u in [x for x in stmts if not isinstance(x, (ast.If, ast.For, ast.While, ast.With, ast.Try))]:
                    for sub in ast.walk(u):
                        if isinstance(sub, ast.Subscript) and isinstance(sub.value, ast.Name) and sub.value.id == arr \
                                and isinstance(sub.slice, ast.Name) and sub.slice.id in mod_idx and any(lp in pm.loops(u) for lp in pm.loops(s)):
                            n_checked += 1
                            rep.ob('K.module-index-on-node-axis', f, u,
                                   False, '`%s` has one row per node of module %s, but is indexed by the module number `%s`: which node is '
                                   'affected (or IndexError) depends on how labels are numbered' % (arr, sub.slice.id, sub.slice.id), line=u.lineno)
            # K2
            where_pos = {}
            for s in stmts:
                b = m.match(s, '$P, = np.where($X[$S, $I] > 0)') or m.match(s, '$P, = np.where($X[$S, $I])') or m.match(s, '$P, = np.where($X[$S])')
                if b and isinstance(b['P'], ast.Name) and isinstance(b['S'], ast.Name):
                    sdef = [d for d in stmts if m.match(d, '%s, = np.where($M)' % b['S'].id)]
                    if sdef:
                        where_pos[b['P'].id] = b['S'].id
            for s in [x for x in stmts if not isinstance(x, (ast.If, ast.For, ast.While, ast.With, ast.Try))]:
                for sub in ast.walk(s):
                    if isinstance(sub, ast.Subscript) and isinstance(sub.slice, ast.Name) and sub.slice.id in where_pos \
                            and isinstance(sub.value, ast.Name):
                        S = where_pos[sub.slice.id]
                        n_checked += 1
                        rep.ob('K.subset-positions-on-full-axis', f, s, False,
                               '`%s` holds positions inside the node subset `%s`, but indexes the whole-network array `%s` '
                               '(should be %s[%s[%s]]): the result depends on which nodes happen to come first' % (
                                   sub.slice.id, S, sub.value.id, sub.value.id, S, sub.slice.id), line=s.lineno)
    rep.ob('K.index-kinds-consistent', ('bct/algorithms', 'all partition consumers'), 'sites flagged: %d' % n_checked, True, '', line=0)


def _module_loops(prog, rep):
    """L: a loop whose variable is compared with label values (`ci == i`) enumerates the modules.  The canonical numbering
    of modules follows the sort order of the caller's label values, so the *order* in which the loop meets the modules is the one
    thing about canonical labels that is not invariant under relabelling: the loop must visit every module (no break, no return
    from inside it) -- skipping one module with `continue` is fine."""
    from ..engines.labels import GAPPY
    seen = 0
    done = set()
    for modname, fname, param, must in CONSUMERS:
        if (modname, fname) in done:
            continue
        done.add((modname, fname))
        f = prog.func(modname, fname)
        params = [p for (m_, f_, p, _) in CONSUMERS if (m_, f_) == (modname, fname)]
        flow = LabelFlow(prog, f, {p: RAW for p in params})
        pm = flow.pm
        # names computed from the labels (transitively, through any assignment)
        derived = set(params)
        assigns = [n for n in ast.walk(f.node) if isinstance(n, (ast.Assign, ast.AugAssign))]
        changed = True
        while changed:
            changed = False
            for a in assigns:
                if {x.id for x in ast.walk(a.value) if isinstance(x, ast.Name)} & derived:
                    for t in (a.targets if isinstance(a, ast.Assign) else [a.target]):
                        for e in (t.elts if isinstance(t, (ast.Tuple, ast.List)) else [t]):
                            while isinstance(e, (ast.Subscript, ast.Attribute, ast.Starred)):
                                e = e.value
                            if isinstance(e, ast.Name) and e.id not in derived:
                                derived.add(e.id)
                                changed = True
        for L in [n for n in ast.walk(f.node) if isinstance(n, ast.For) and isinstance(n.target, ast.Name)]:
            v = L.target.id
            is_mod = False
            for c in [x for x in ast.walk(L) if isinstance(x, ast.Compare) and len(x.ops) == 1 and isinstance(x.ops[0], (ast.Eq, ast.NotEq))]:
                a, b = c.left, c.comparators[0]
                for x, y in ((a, b), (b, a)):
                    if {z.id for z in ast.walk(x) if isinstance(z, ast.Name)} == {v} and not isinstance(x, (ast.Subscript, ast.Call)) \
                            and not isinstance(y, ast.Constant) and v not in {z.id for z in ast.walk(y) if isinstance(z, ast.Name)} \
                            and {z.id for z in ast.walk(y) if isinstance(z, ast.Name)} & derived:
                        is_mod = True
            for st_ in [x for x in ast.walk(L) if isinstance(x, ast.stmt) and x is not L]:
                try:
                    env = flow.at(st_)
                except Exception:
                    continue
                for c in [x for x in ast.walk(st_) if isinstance(x, ast.Compare) and len(x.ops) == 1 and isinstance(x.ops[0], (ast.Eq, ast.NotEq))]:
                    a, b = c.left, c.comparators[0]
                    for x, y in ((a, b), (b, a)):
                        if isinstance(x, ast.Name) and x.id == v and flow.status(y, env) & {RAW, CANON, CANON1, GAPPY}:
                            is_mod = True
            if not is_mod:
                continue
            seen += 1
            bad = []
            for x in ast.walk(L):
                if isinstance(x, ast.Break):
                    loops = pm.loops(x)
                    if loops and loops[0] is L:
                        bad.append(x)
                elif isinstance(x, ast.Return):
                    bad.append(x)
            rep.ob('L.module-loop-visits-every-module', f, 'for %s in %s' % (v, norm(L.iter)), not bad,
                   'the loop over modules is left early at line %s: which modules are still processed depends on how the caller '
                   'numbered them (canonical numbers follow the sort order of the given labels)' % ', '.join(str(x.lineno) for x in bad),
                   line=L.lineno)
    rep.floor('L.module-loop-visits-every-module', 15)


def variants(root):
    from ..selftest import Variant as V
    C = 'bct/algorithms/centrality.py'
    M = 'bct/algorithms/modularity.py'
    canon = '    _, ci = np.unique(ci, return_inverse=True)\n    ci += 1\n'
    out = []
    for fn in ('diversity_coef_sign', 'gateway_coef_sign', 'module_degree_zscore', 'participation_coef', 'participation_coef_sign'):
        out.append(V('%s: canonicalisation removed' % fn, 'break', C, canon, '', 'C.', fn, scope='def %s(' % fn))
    out.append(V('module_degree_zscore: canonicalisation only when flag', 'break', C, canon, '    if flag:\n        _, ci = np.unique(ci, return_inverse=True)\n        ci += 1\n',
                 'C.raw', 'module_degree_zscore', scope='def module_degree_zscore('))
    out.append(V('participation_coef: raw max before canonicalisation', 'break', C, canon, '    nmod = int(np.max(ci))\n' + canon, 'C.raw', 'participation_coef', scope='def participation_coef('))
    out.append(V('modularity_und_sign: canonicalisation removed', 'break', M, canon, '', 'C.', 'modularity_und_sign', scope='def modularity_und_sign('))
    out.append(V('modularity_und: kci compared with index', 'break', M, '    s = np.tile(ci, (n, 1))\n    q = np.sum(np.logical_not(s - s.T) * B / m)',
                 '    s = np.tile(ci, (n, 1))\n    q = np.sum((s == np.arange(1, n + 1)) * B / m)', 'C.raw', 'modularity_und'))
    out.append(V('modularity_dir: label difference used as weight', 'break', M, 'q = np.sum(np.logical_not(s - s.T) * B / (2 * m))',
                 'q = np.sum((1 - np.abs(s - s.T)) * B / (2 * m))', 'C.raw', 'modularity_dir'))
    out.append(V('module_degree_zscore: module count from the raw label values', 'break', C, canon, canon.replace('_, ci', 'mods, ci'), 'C.raw', 'module_degree_zscore',
                 also=[(C, 'for i in range(1, int(np.max(ci) + 1)):', 'for i in range(1, int(np.max(mods)) + 1):', 1)], scope='def module_degree_zscore('))
    out.append(V('partition_distance: cy not canonicalised', 'break', M, '    _, cy = np.unique(cy, return_inverse=True)\n', '', 'C.', 'partition_distance'))
    out.append(V('partition_distance: pairing before canonicalisation', 'break', M,
                 '    _, cx = np.unique(cx, return_inverse=True)\n    _, cy = np.unique(cy, return_inverse=True)\n    _, cxy = np.unique(cx + cy * 1j, return_inverse=True)\n',
                 '    _, cxy = np.unique(cx + cy * 1j, return_inverse=True)\n    _, cx = np.unique(cx, return_inverse=True)\n    _, cy = np.unique(cy, return_inverse=True)\n',
                 'C.', 'partition_distance'))
    out.append(V('partition_distance: asymmetric VIn', 'break', M, 'Vin = (2 * Hxy - Hx - Hy) / np.log(n)', 'Vin = (2 * Hxy - 2 * Hx) / np.log(n)', 'G.', 'partition_distance'))
    out.append(V('partition_distance: MIn normalised by H(X) only', 'break', M, 'Min = 2 * (Hx + Hy - Hxy) / (Hx + Hy)', 'Min = (Hx + Hy - Hxy) / Hx', 'G.', 'partition_distance'))
    out.append(V('partition_distance: additive pairing', 'break', M, 'np.unique(cx + cy * 1j, return_inverse=True)', 'np.unique(cx + cy, return_inverse=True)', 'C.joint', 'partition_distance'))
    out.append(V('finetune_und: start partition not canonicalised', 'break', M, '        _, ci = np.unique(ci, return_inverse=True)\n        ci += 1\n', '        ci = ci.copy()\n',
                 'C.', 'modularity_finetune_und', scope='def modularity_finetune_und('))
    out.append(V('ls2ci: labels from inner index', 'break', M, 'ci[ls[i][j]] = i + z', 'ci[ls[i][j]] = j + z', 'D.ls2ci', 'ls2ci'))
    out.append(V('ci2ls: raw labels as list index', 'break', M, "    _, ci = np.unique(ci, return_inverse=True)\n    ci += 1\n    nr_indices = int(max(ci))", "    nr_indices = int(max(ci))", 'C.', 'ci2ls'))
    zl = '        Koi = np.sum(W[np.ix_(ci == i, ci == i)], axis=1)\n'
    out.append(V('module_degree_zscore: loop stops at the first single-node module', 'break', C, zl,
                 '        if np.sum(ci == i) < 2:\n            break\n' + zl, 'L.module-loop', 'module_degree_zscore'))
    out.append(V('neutral: single-node modules skipped', 'neutral', C, zl, '        if np.sum(ci == i) < 2:\n            continue\n' + zl))
    out.append(V('participation_coef: loop returns at an empty module', 'break', C, '        Kc2 = Kc2 + np.square(np.sum(W * (Gc == i), axis=1))\n',
                 '        if not np.any(Gc == i):\n            break\n        Kc2 = Kc2 + np.square(np.sum(W * (Gc == i), axis=1))\n', 'L.module-loop', 'participation_coef',
                 scope='def participation_coef('))
    # neutral
    out.append(V('neutral: unique()[1] + 1 spelling', 'neutral', C, canon, '    ci = np.unique(ci, return_inverse=True)[1] + 1\n', scope='def module_degree_zscore('))
    out.append(V('neutral: VIn re-associated', 'neutral', M, 'Vin = (2 * Hxy - Hx - Hy) / np.log(n)', 'Vin = ((Hxy - Hx) + (Hxy - Hy)) / np.log(n)'))
    out.append(V('neutral: size check on raw labels', 'neutral', C, canon, '    if np.size(ci) != len(W):\n        raise ValueError("bad ci")\n' + canon, scope='def participation_coef('))
    out.append(V('neutral: zero test spelled == 0', 'neutral', M, 'q = np.sum(np.logical_not(s - s.T) * B / m)', 'q = np.sum(((s - s.T) == 0) * B / m)'))
    return out
