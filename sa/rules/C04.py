"""C04 - graph measures are equivariant under renumbering of nodes.

Equivariance as such quantifies over runtime values and is not decided.  Three necessary conditions that are visible in
the code are decided for every deterministic routine of the eight anchored modules:
 L  no loop-carried flow dependence across nodes: in a `for x in range(n)` loop over the nodes, an array created outside the
    loop that is written by plain subscript assignment at positions not pinned to x must not be read in the same loop at
    positions not pinned to x (a Gauss-Seidel style update makes the result depend on the visiting order, i.e. on the numbering);
 S  basis independence: eigenvectors that are squared / multiplied pairwise and summed must come from eigh; a single
    eigenvector may only be used for an extremal (or the stationary) eigenvalue, selected by that decomposition's own
    eigenvalues, through abs or a sum-normalisation;
 I  no literal node position: an integer literal never indexes a node axis of a connection-matrix parameter.
"""
import ast

from ..core.astutil import norm, ParentMap
from ..core.loader import walk_no_nested
from ..core.pattern import Matcher
from .C18 import eig_sites

MODS = ['centrality', 'clustering', 'core', 'degree', 'distance', 'efficiency', 'similarity', 'physical_connectivity']
# order-dependent-by-design loops (reason recorded; one named loop each)
EXEMPT = {
    ('distance_wei_floyd', 'k'): 'Floyd-Warshall loop over intermediate nodes: a sequential min-plus closure whose final lengths do not depend on the order of k '
                                 '(hops / next hops may differ between equal-length alternatives, which the path properties C03/C12 allow)',
}


def _idx(sub):
    s = sub.slice
    return list(s.elts) if isinstance(s, ast.Tuple) else [s]


def loop_carried(prog, f):
    """[(loop, array, write expr, read expr|None)] candidates in function f (own body, nested defs excluded)."""
    out = []
    pm = ParentMap(f.node)
    n_loops = 0
    for lp in [n for n in walk_no_nested(f.node) if isinstance(n, ast.For) and isinstance(n.target, ast.Name) and isinstance(n.iter, ast.Call)
               and norm(n.iter.func) == 'range' and len(n.iter.args) == 1]:
        x = lp.target.id
        if not any(isinstance(n, ast.Name) and n.id == x and isinstance(n.ctx, ast.Load) for b_ in lp.body for n in ast.walk(b_)):
            continue      # the variable is a repetition counter, not a node: every round is the same whole-array step
        n_loops += 1
        inner_alloc = {t.id for s in ast.walk(lp) if isinstance(s, ast.Assign) for t in s.targets if isinstance(t, ast.Name)}
        writes = []
        for s in ast.walk(lp):
            if isinstance(s, ast.Assign):
                for t in s.targets:
                    for tt in (t.elts if isinstance(t, ast.Tuple) else [t]):
                        if isinstance(tt, ast.Subscript) and isinstance(tt.value, ast.Name) and tt.value.id not in inner_alloc:
                            writes.append((tt.value.id, tt, s))
        wnames = {w[0] for w in writes}
        reads = []
        for n in ast.walk(lp):
            if isinstance(n, ast.Subscript) and isinstance(n.ctx, ast.Load) and isinstance(n.value, ast.Name) and n.value.id in wnames:
                reads.append((n.value.id, n))
            elif isinstance(n, ast.Name) and isinstance(n.ctx, ast.Load) and n.id in wnames:
                par = pm.parent.get(n)
                if not (isinstance(par, ast.Subscript) and par.value is n):
                    reads.append((n.id, None))

        def pinned(sub):
            return {k for k, e in enumerate(_idx(sub)) if isinstance(e, ast.Name) and e.id == x}
        seen = set()
        for (a, wt, ws) in writes:
            for (b, rd) in reads:
                if a != b:
                    continue
                pw = pinned(wt)
                pr = pinned(rd) if rd is not None else set()
                if not (pw & pr):
                    key = (id(lp), a)
                    if key not in seen:
                        seen.add(key)
                        out.append((lp, a, wt, rd))
                    break
    return out, n_loops


def pair_roles(rep, f):
    """P: a loop nest over unordered pairs (`for i ...: for j in range(i + 1, n)`) computes one value per pair and mirrors it;
    renumbering can exchange the roles of the two nodes, so whatever is extracted for the first node must be extracted in the same
    way for the second.  Instances: assignments `x = E` in the inner body whose right-hand side mentions exactly one of the two
    loop variables and otherwise only names that are not assigned inside the loop nest; the multiset of E[i := .] must equal
    that of E[j := .].  Returns the number of such assignments."""
    cnt = 0
    for outer in [n for n in walk_no_nested(f.node) if isinstance(n, ast.For) and isinstance(n.target, ast.Name)]:
        i = outer.target.id
        for inner in [n for n in outer.body if isinstance(n, ast.For) and isinstance(n.target, ast.Name)]:
            j = inner.target.id
            it = inner.iter
            if not (isinstance(it, ast.Call) and norm(it.func) == 'range' and len(it.args) == 2 and norm(it.args[0]).replace(' ', '') in (i + '+1', '1+' + i)):
                continue
            assigned = {t.id for s in ast.walk(outer) for t in ast.walk(s) if isinstance(t, ast.Name) and isinstance(t.ctx, ast.Store)}
            roles = {i: [], j: []}
            for s in ast.walk(inner):
                if not (isinstance(s, ast.Assign) and len(s.targets) == 1 and isinstance(s.targets[0], ast.Name)):
                    continue
                names = {x.id for x in ast.walk(s.value) if isinstance(x, ast.Name)}
                mine = names & {i, j}
                if len(mine) != 1 or (names - {i, j}) & assigned:
                    continue
                v = mine.pop()

                class _R(ast.NodeTransformer):
                    def visit_Name(self, n):
                        return ast.copy_location(ast.Name(id='_node_', ctx=n.ctx), n) if n.id == v else n
                import copy
                roles[v].append((norm(_R().visit(copy.deepcopy(s.value))), s))
            if not roles[i] and not roles[j]:
                continue
            cnt += len(roles[i]) + len(roles[j])
            a = sorted(t for t, _ in roles[i])
            b = sorted(t for t, _ in roles[j])
            bad = None
            if a != b:
                from collections import Counter
                ca, cb = Counter(a), Counter(b)
                bad = [s for t, s in roles[j] if t in (cb - ca)] + [s for t, s in roles[i] if t in (ca - cb)]
            rep.ob('P.unordered-pair-roles-symmetric', f, 'for %s ...: for %s in %s: %s | %s' % (i, j, norm(it), a, b), a == b,
                   'the loop visits each unordered pair once and the result is mirrored, but the two nodes are not treated alike: '
                   'extracted for `%s`: %s; for `%s`: %s (see line %s) -- the value then depends on which node has the smaller number' % (
                       i, a, j, b, ', '.join(str(s.lineno) for s in (bad or []))), line=(bad[0].lineno if bad else inner.lineno))
    return cnt


def check(prog, rep):
    rep.explanation = (
        'Three shape-level necessary conditions of permutation equivariance, evaluated on every deterministic routine of the eight anchored '
        'modules: (L) per-node loops carry no flow dependence between different nodes through an array updated in place (otherwise the result '
        'depends on the visiting order and therefore on the numbering); (S) spectral quantities do not depend on an arbitrary basis of a '
        'degenerate eigenspace; (I) no integer literal singles out a node position of a connection matrix. Equivariance itself (tie-breaking '
        'in argmax/argmin, accumulated rounding, every algebraic identity) is not decided.')
    rep.assume('seed-accepting (randomised) routines are outside this property')
    n_loops = n_funcs = n_sub = n_roles = n_exit = n_pairidx = 0
    for mn in MODS:
        m = prog.module('bct.algorithms.' + mn)
        for f in sorted(m.functions.values(), key=lambda z: z.node.lineno):
            top = f
            while top.parent is not None:
                top = top.parent
            if 'seed' in top.all_params:
                continue
            n_funcs += 1
            n_roles += pair_roles(rep, f)
            # U: the coordinate arrays of np.where over a matrix are unique only as *pairs*; a store indexed by one of them alone can
            # hit the same cell several times, and NumPy keeps the last write (row-major order = node numbering)
            pairs = {}
            for st in walk_no_nested(f.node):
                if isinstance(st, ast.Assign) and len(st.targets) == 1 and isinstance(st.targets[0], ast.Tuple) and len(st.targets[0].elts) == 2 \
                        and all(isinstance(e, ast.Name) for e in st.targets[0].elts) and isinstance(st.value, ast.Call) \
                        and norm(st.value.func) in ('np.where', 'np.nonzero') and len(st.value.args) == 1:
                    a_, b_ = (e.id for e in st.targets[0].elts)
                    pairs[a_] = b_
                    pairs[b_] = a_
            for st in walk_no_nested(f.node):
                if isinstance(st, (ast.Assign, ast.AugAssign)) and pairs:
                    for t in (st.targets if isinstance(st, ast.Assign) else [st.target]):
                        if isinstance(t, ast.Subscript):
                            els = _idx(t)
                            direct = {e.id for e in els if isinstance(e, ast.Name)}
                            for nm in sorted(direct & set(pairs)):
                                n_pairidx += 1
                                if pairs[nm] not in direct:
                                    rep.ob('U.store-indexed-by-half-of-a-coordinate-pair', f, st, False,
                                           '`%s` comes from a two-output np.where together with `%s`; used alone as a store index it may contain the same '
                                           'position several times, and only the last write survives (the one from the highest-numbered row): the result '
                                           'depends on the node numbering (np.minimum.at / np.add.at would be order-free)' % (nm, pairs[nm]), line=st.lineno)
            pmf = ParentMap(f.node)
            for lp in [n for n in walk_no_nested(f.node) if isinstance(n, ast.For) and isinstance(n.target, ast.Name) and isinstance(n.iter, ast.Call)
                       and norm(n.iter.func) == 'range' and len(n.iter.args) == 1]:
                x = lp.target.id
                if not any(isinstance(n, ast.Name) and n.id == x and isinstance(n.ctx, ast.Load) for b_ in lp.body for n in ast.walk(b_)):
                    continue
                outs = [e for e in ast.walk(lp) if isinstance(e, ast.Return) or (isinstance(e, ast.Break) and pmf.loops(e) and pmf.loops(e)[0] is lp)]
                n_exit += 1
                if outs:
                    rep.ob('L.node-loop-visits-every-node', f, 'for %s in %s' % (x, norm(lp.iter)), False,
                           'the loop over nodes is left early (%s at line %d): nodes with a higher number are not processed, so the result depends on '
                           'where the triggering node sits in the numbering' % (type(outs[0]).__name__.lower(), outs[0].lineno), line=lp.lineno)
            cands, nl = loop_carried(prog, f)
            n_loops += nl
            for (lp, arr, wt, rd) in cands:
                key = (f.name, lp.target.id)
                if key in EXEMPT:
                    rep.info('%s loop over %s exempt: %s' % key + '' if False else '%s, loop variable %s: exempt -- %s' % (f.name, lp.target.id, EXEMPT[key]))
                    rep.ob('L.exempt-loop-still-has-the-exempted-shape', f, 'for %s in %s' % (lp.target.id, norm(lp.iter)), True, '', line=lp.lineno)
                    continue
                rep.ob('L.no-cross-node-flow-dependence', f, 'for %s in %s: %s = ... / reads %s' % (lp.target.id, norm(lp.iter), norm(wt), norm(rd) if rd is not None else arr),
                       False, 'array `%s` exists before the node loop, is overwritten at `%s` (not tied to node %s) and read at `%s` in the same loop: what iteration %s sees depends on '
                       'which nodes were processed before it, so renumbering the nodes changes the result' % (arr, norm(wt), lp.target.id, norm(rd) if rd is not None else arr, lp.target.id),
                       line=lp.lineno)
            # S
            mm = Matcher(prog, f)
            for (s, vals, vecs, q, arg) in eig_sites(prog, f):
                stmts = [x for x in walk_no_nested(f.node) if isinstance(x, ast.stmt)]
                pairwise = any(mm.match(n, '%s * %s' % (vecs, vecs)) or mm.match(n, '%s ** 2' % vecs) or mm.match(n, 'np.square(%s)' % vecs) or mm.match(n, 'np.dot(%s, %s.T)' % (vecs, vecs))
                               for x in stmts for n in ast.walk(x))
                if pairwise:
                    rep.ob('S.spectral-sum-uses-orthonormal-basis', f, s, q.endswith(('eigh', 'eigsh')),
                           'eigenvectors are combined pairwise but come from %s: inside a repeated eigenvalue the basis is arbitrary and not orthonormal' % q)
                else:
                    # single eigenvector: column index must come from this decomposition's eigenvalues
                    cols = [n for x in stmts for n in ast.walk(x) if isinstance(n, ast.Subscript) and norm(n.value) == vecs]
                    ok = True
                    why = ''
                    for c in cols:
                        idx = _idx(c)
                        sel = idx[1] if len(idx) == 2 else None
                        if sel is None or not isinstance(sel, ast.Name):
                            ok = False
                            why = 'eigenvector matrix indexed by `%s`, not by a column chosen from the eigenvalues' % norm(c.slice)
                            continue
                        d = [x for x in stmts if isinstance(x, ast.Assign) and norm(x.targets[0]) == sel.id]
                        if not (len(d) == 1 and vals in {n.id for n in ast.walk(d[0].value) if isinstance(n, ast.Name)} or
                                (len(d) == 1 and any(isinstance(n, ast.Name) and n.id != vals for n in ast.walk(d[0].value)) and _derived_from(stmts, d[0], vals))):
                            ok = False
                            why = 'column index `%s` is not derived from the eigenvalues `%s` of the same decomposition' % (sel.id, vals)
                    rep.ob('S.single-eigenvector-selected-by-own-eigenvalues', f, s, ok and bool(cols), why or 'eigenvectors are never used', line=s.lineno)
            # I
            pnames = {p for p in f.all_params}
            doc = ast.get_docstring(f.node) or ''
            mats = {p for p in pnames if ('%s : NxN' % p) in doc or ('%s : MxM' % p) in doc or p in ('CIJ', 'W', 'A', 'G', 'adjacency', 'adj', 'L', 'D', 'Gw', 'R', 'g', 'S')}
            # working copies derived from a connection-matrix parameter keep its node axes
            changed = True
            while changed:
                changed = False
                for st in walk_no_nested(f.node):
                    if isinstance(st, ast.Assign) and len(st.targets) == 1 and isinstance(st.targets[0], ast.Name) and st.targets[0].id not in mats:
                        v = st.value
                        src = None
                        if isinstance(v, ast.Call) and isinstance(v.func, ast.Attribute) and v.func.attr in ('copy', 'astype') and isinstance(v.func.value, ast.Name):
                            src = v.func.value.id
                        elif isinstance(v, ast.Call) and norm(v.func) in ('binarize', 'invert', 'np.array', 'normalize') and v.args and isinstance(v.args[0], ast.Name):
                            src = v.args[0].id
                        elif isinstance(v, ast.BinOp) and isinstance(v.left, ast.Name) and v.left.id in mats:
                            src = v.left.id
                        if src in mats:
                            mats.add(st.targets[0].id)
                            changed = True
            for n in walk_no_nested(f.node):
                if isinstance(n, ast.Subscript) and isinstance(n.value, ast.Name) and n.value.id in mats:
                    n_sub += 1
                    lits = [e for e in _idx(n) if isinstance(e, ast.Constant) and isinstance(e.value, int) and not isinstance(e.value, bool)]
                    if lits:
                        rep.ob('I.no-literal-node-index', f, n, False, 'connection matrix `%s` is indexed with the literal node position %s' % (n.value.id, lits[0].value), line=n.lineno)
    # index arrays that are allocated as zeros and used as node indices must be completely overwritten before use: an unfilled
    # slot is the literal node 0 (visiting-order array of the Brandes routines; obligations shared with C08)
    from . import C08
    from ..core.report import Report
    scratch = Report('C04', quiet=True)
    C08.check(prog, scratch)
    for o in scratch.obs:
        if o.rule.startswith('Q.'):
            rep.ob('I.order-array-has-no-default-node.' + o.rule[2:], (o.module, o.function), o.construct, o.ok,
                   (o.why + ' -- unfilled slots of the zero-initialised order array denote node 0, which makes the result depend on the numbering') if not o.ok else '', line=o.line)
    rep.ob('I.no-literal-node-index', ('bct/algorithms', '8 anchored modules'), '%d subscripts of connection-matrix parameters inspected' % n_sub, True, '', line=0)
    rep.ob('L.no-cross-node-flow-dependence', ('bct/algorithms', '8 anchored modules'), '%d node loops in %d deterministic routines inspected' % (n_loops, n_funcs), True, '', line=0)
    rep.stat('node_loops_inspected', n_loops)
    rep.ob('U.store-indexed-by-half-of-a-coordinate-pair', ('bct/algorithms', '8 anchored modules'), '%d stores indexed by np.where coordinates inspected' % n_pairidx, True, '', line=0)
    rep.ob('L.node-loop-visits-every-node', ('bct/algorithms', '8 anchored modules'), '%d node loops inspected for early exits' % n_exit, True, '', line=0)
    rep.stat('pair_role_assignments', n_roles)
    if n_roles < 4:
        rep.error('only %d single-role assignments in unordered-pair loops found (floor 4)' % n_roles)
    rep.stat('deterministic_routines', n_funcs)
    rep.stat('matrix_subscripts_inspected', n_sub)
    if n_loops < 40:
        rep.error('only %d node loops inspected (floor 40)' % n_loops)
    if n_sub < 100:
        rep.error('only %d matrix subscripts inspected (floor 100)' % n_sub)
    rep.floor('S.', 3)
    rep.floor('L.', 3)
    _fixtures(rep)


def _derived_from(stmts, d, vals, depth=0):
    """the definition d uses a name that is itself computed from vals (e.g. aux = |D - 1|; index = where(aux == aux.min()))"""
    if depth > 3:
        return False
    for n in ast.walk(d.value):
        if isinstance(n, ast.Name) and n.id != vals:
            dd = [x for x in stmts if isinstance(x, ast.Assign) and norm(x.targets[0]) == n.id]
            for y in dd:
                names = {z.id for z in ast.walk(y.value) if isinstance(z, ast.Name)}
                if vals in names or _derived_from(stmts, y, vals, depth + 1):
                    return True
    return False


FIXTURE = '''
import numpy as np

def pos_gauss_seidel(W):
    n = len(W)
    x = np.ones((n,))
    for i in range(n):
        x[i] = np.dot(W[i, :], x)
    return x

def pos_neighbour_expansion(A):
    n = len(A)
    B = A.copy()
    for i in range(n):
        nb, = np.where(B[i, :])
        B[i, nb] = 1
        B[nb, i] = 1
    return B

def neg_row_local(W):
    n = len(W)
    D = np.zeros((n, n))
    for u in range(n):
        D[u, :] = W[u, :] * 2
        D[u, u] = D[u, u] + 1
    return D

def neg_output_only(W):
    n = len(W)
    out = np.zeros((n,))
    acc = np.zeros((n,))
    for u in range(n):
        v, = np.where(W[u, :])
        out[v] = u
        acc[v] += 1
    return out, acc

def pos_literal(W):
    return W[0, :] + W[:, 2]
'''


def _fixtures(rep):
    import os
    import shutil
    import tempfile
    from ..core.loader import Program
    tmp = tempfile.mkdtemp(prefix='c04fx-')
    try:
        os.makedirs(os.path.join(tmp, 'bct'))
        with open(os.path.join(tmp, 'bct', '__init__.py'), 'w') as fh:
            fh.write(FIXTURE)
        p2 = Program(tmp)
        for f in p2.all_functions():
            c, _ = loop_carried(p2, f)
            fired = bool(c)
            if f.name in ('pos_gauss_seidel', 'pos_neighbour_expansion') and not fired:
                rep.error('fixture %s: loop-carried rule silent' % f.name)
            if f.name in ('neg_row_local', 'neg_output_only') and fired:
                rep.error('fixture %s: loop-carried rule fired' % f.name)
        rep.stat('fixtures_evaluated', 5)
    finally:
        shutil.rmtree(tmp, ignore_errors=True)


def variants(root):
    from ..selftest import Variant as V
    out = [
        V('clustering_coef_bu: running coefficient reused', 'break', 'bct/algorithms/clustering.py', '            C[u] = np.sum(S) / (k * k - k)', '            C[u] = np.sum(S) / (k * k - k)\n            C[V] = C[V] + C[u] / 2 * (np.sum(C) > 0)',
          'L.', None, scope='def clustering_coef_bu('),
        V('breadthdist: rows patched from earlier rows', 'break', 'bct/algorithms/distance.py', '        D[i, :], _ = breadth(CIJ, i)\n', '        D[i, :], _ = breadth(CIJ, i)\n        D[:, i] = np.minimum(D[:, i], D[i, :] + D[:, i])\n', 'L.', None, scope='def breadthdist('),
        V('subgraph_centrality: eig', 'break', 'bct/algorithms/centrality.py', 'vals, vecs = linalg.eigh(CIJ)', 'vals, vecs = linalg.eig(CIJ)', 'S.', None, scope='def subgraph_centrality('),
        V('eigenvector centrality: fixed column', 'break', 'bct/algorithms/centrality.py', 'return np.abs(vecs[:, i])', 'return np.abs(vecs[:, 0])', 'S.', None, scope='def eigenvector_centrality_und('),
        V('degrees_und: first node special', 'break', 'bct/algorithms/degree.py', '    return np.sum(CIJ, axis=0)\n', '    deg = np.sum(CIJ, axis=0)\n    deg[0] = np.sum(CIJ[0, :])\n    return deg + 0 * CIJ[0, 0]\n', 'I.', None, scope='def degrees_und('),
        V('flow_coef: literal node', 'break', 'bct/algorithms/centrality.py', 'def flow_coef_bd(CIJ):', 'def flow_coef_bd(CIJ):\n    _first = CIJ[0, 1]', 'I.', None),
        V('neutral: per-node row write', 'neutral', 'bct/algorithms/distance.py', '        D[i, :], _ = breadth(CIJ, i)\n', '        row, _ = breadth(CIJ, i)\n        D[i, :] = row\n', scope='def breadthdist('),
        V('neutral: accumulate with +=', 'neutral', 'bct/algorithms/centrality.py', '            BC[w] += DP[w]', '            BC[w] += DP[w] + 0', scope='def betweenness_wei('),
        V('clustering_coef_bu: loop stops at the first low-degree node', 'break', 'bct/algorithms/clustering.py', '        if k >= 2:  # degree must be at least 2\n            S = G[np.ix_(V, V)]\n            C[u] = np.sum(S) / (k * k - k)',
          '        if k < 2:\n            break\n        S = G[np.ix_(V, V)]\n        C[u] = np.sum(S) / (k * k - k)', 'L.node-loop-visits', 'clustering_coef_bu', scope='def clustering_coef_bu('),
        V('neutral: clustering_coef_bu guard clause with continue', 'neutral', 'bct/algorithms/clustering.py', '        if k >= 2:  # degree must be at least 2\n            S = G[np.ix_(V, V)]\n            C[u] = np.sum(S) / (k * k - k)',
          '        if k < 2:\n            continue\n        S = G[np.ix_(V, V)]\n        C[u] = np.sum(S) / (k * k - k)', scope='def clustering_coef_bu('),
        V('efficiency_wei: relaxation vectorised over tied frontier nodes', 'break', 'bct/algorithms/efficiency.py',
          '                for v in V:\n                    W, = np.where(G1[v, :])  # neighbors of smallest nodes\n                    td = np.array(\n                        [D[u, W].flatten(), (D[u, v] + G1[v, W]).flatten()])\n                    D[u, W] = np.min(td, axis=0)\n',
          '                vi, W = np.where(G1[np.array(V), :])\n                v = np.array(V)[vi]\n                D[u, W] = np.minimum(D[u, W], D[u, v] + G1[v, W])\n', 'U.store-indexed', None, scope='def efficiency_wei('),
        V('matching_ind: second node read along the other axis', 'break', 'bct/algorithms/similarity.py', 'c2o = CIJ[j, :]', 'c2o = CIJ[:, j]', 'P.unordered', 'matching_ind', scope='def matching_ind('),
        V('matching_ind: first node read along the other axis', 'break', 'bct/algorithms/similarity.py', 'c1i = CIJ[:, i]', 'c1i = CIJ[i, :]', 'P.unordered', 'matching_ind', scope='def matching_ind('),
        V('neutral: matching_ind rows via take', 'neutral', 'bct/algorithms/similarity.py', '            c1o = CIJ[i, :]\n            c2o = CIJ[j, :]', '            c1o = CIJ[i]\n            c2o = CIJ[j]', scope='def matching_ind('),
    ]
    return out
