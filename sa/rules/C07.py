"""C07 - modularity optimisers never return a partition worse than their start.

Premises of the standard monotonicity argument, discharged statically for every optimiser:
 H1 node-to-module accumulators: the form implied by their initialisation equals the form implied by
    their incremental update (orientation matters for the _dir routines);
 H2 module-degree accumulators: same, through the node-degree vector used in the update;
 H3 (directed) each half of the gain pairs an 'out' table with out-degree x module in-degree and vice versa;
 P  every accepted move executes, in one block guarded by max_gain > eps > 0, paired += / -= with identical
    right-hand sides on (new module, old module), and the label store; nothing else in the node loop
    writes the accumulators or labels;
 O  gain[current module] = 0 precedes max / argmax, both taken from the same vector;
 G  each gain half has the shape (T[u,:] - T[u,ma] + M[u,u]) - gamma*k[u]*(K - K[ma] + k[u])/s;
 L  level acceptance for the hierarchical routines; S symmetric objective for community_louvain.
"""
import ast

import sympy as sp

from ..core import spelling
from ..core.astutil import norm, ParentMap
from ..core.cfg import CFG
from ..core.loader import walk_no_nested
from ..core.pattern import Matcher
from ..engines import accforms as H

MODU = 'bct.algorithms.modularity'
ROUTINES = [
    ('community_louvain', 'und', ('Mb', 'ci')),
    ('modularity_finetune_und', 'und', ('ci',)),
    ('modularity_finetune_dir', 'dir', ('ci',)),
    ('modularity_finetune_und_sign', 'und', ('ci',)),
    ('modularity_louvain_und', 'und', ('m',)),
    ('modularity_louvain_dir', 'dir', ('m',)),
    ('modularity_louvain_und_sign', 'und', ('m',)),
]


def _stmts(f):
    return [n for n in walk_no_nested(f.node) if isinstance(n, ast.stmt)]


def check(prog, rep):
    rep.explanation = (
        'The optimisers accept a move only if the computed gain exceeds 1e-10; monotonicity then follows if the incrementally '
        'maintained sums always equal their defining sums and the gain expression is the true change of Q. The check discharges these '
        'premises from the source: accumulator forms (which matrix, row or column of the moved node, which members) are derived from '
        'the initialisation and, independently, from the update, and must agree; updates are paired += / -= with identical operands '
        'inside the one block guarded by the gain test, together with the label store; the gain halves have the canonical shape and '
        '(directed) pair out-tables with in-degrees; gain of the current module is zeroed before max/argmax; hierarchical routines '
        'stop and return the previous level when a level fails to improve q. Floating-point cancellation is not decided.')
    rep.assume('undirected routines receive symmetric matrices (forms are compared modulo transposition there)')
    rep.assume('NumPy boolean-mask column sums compute the stated sums')
    n_acc = 0
    for name, orient, labels in ROUTINES:
        f = prog.func(MODU, name)
        sites = H.locate_moves(prog, f)
        rep.ob('P.move-site-found', f, 'for u in rng.permutation(n): ... if max_dq > eps: move', len(sites) == 1,
               'expected exactly one node-move loop, found %d' % len(sites), line=f.node.lineno)
        if len(sites) != 1:
            continue
        n_acc += _check_site(prog, rep, f, sites[0], orient, labels)
    rep.stat('accumulators_checked', n_acc)
    _levels(prog, rep)
    _symmetric_objective(prog, rep)
    # the partition handed back must be the one the optimiser built: label composition across levels (shared with C02)
    from .C02 import relabel_composition
    relabel_composition(prog, rep)
    rep.floor('H1.', 11)
    rep.floor('H2.', 11)
    rep.floor('P.paired', 22)
    rep.floor('G.', 9)
    rep.floor('O.', 14)


def _check_site(prog, rep, f, s, orient, labels):
    m = Matcher(prog, f)
    pm = ParentMap(f.node)
    und = orient == 'und'
    n_acc = 0
    # ---- O: ordering of zeroing, max, argmax
    body_order = [x for x in ast.walk(s.loop) if isinstance(x, ast.stmt)]
    pos = {id(x): i for i, x in enumerate(body_order)}
    z, mx, am = s.order.get('zero'), s.order.get('max'), s.order.get('argmax')
    rep.ob('O.current-module-gain-zeroed', f, z if z is not None else '%s[%s] = 0' % (s.dq, s.ma), z is not None,
           'the gain of staying in the current module is not set to 0: a node could "move" to its own module with a spurious gain', line=s.loop.lineno)
    if z is not None and mx is not None and am is not None:
        rep.ob('O.zero-before-max-and-argmax', f, '%s; %s; %s' % (norm(z), norm(mx), norm(am)),
               pos[id(z)] < pos[id(mx)] and pos[id(z)] < pos[id(am)], 'max/argmax are taken before the current module is excluded', line=z.lineno)
        rep.ob('O.max-and-argmax-same-vector', f, '%s / %s' % (norm(mx), norm(am)), getattr(s, 'max_of', None) == s.dq,
               'max is taken from `%s` but argmax from `%s`' % (getattr(s, 'max_of', None), s.dq), line=mx.lineno)
        # nothing rewrites dq between zeroing and argmax
        between = [x for x in body_order if pos[id(z)] < pos[id(x)] < max(pos[id(mx)], pos[id(am)])
                   and isinstance(x, (ast.Assign, ast.AugAssign)) and s.dq in {n.id for t in (x.targets if isinstance(x, ast.Assign) else [x.target])
                                                                            for n in ast.walk(t) if isinstance(n, ast.Name)}]
        rep.ob('O.gain-not-rewritten', f, between[0] if between else s.dq, not between, 'gain vector is modified between zeroing and selection', line=z.lineno)
    # ---- P: guard and pairing
    if s.guard is None:
        rep.ob('P.move-guarded-by-gain', f, s.label_store or 'label store', False, 'label store is not inside an `if max_gain > eps` block', line=s.loop.lineno)
        return 0
    g = s.guard.test
    okg = False
    b = m.match(g, '%s > $EPS' % s.max_name) if s.max_name else None
    if b is not None:
        try:
            okg = float(ast.literal_eval(b['EPS'])) > 0
        except Exception:
            okg = False
    rep.ob('P.move-guarded-by-gain', f, g, okg, 'a move must be accepted only if max gain > eps with eps > 0 (got `%s`)' % norm(g))
    inblock = lambda st: any(st is x for x in s.block)
    # everything that writes accumulators / labels inside the node loop must be in the block
    tnames = {t for (t, sg, st, rhs, idx) in s.t_updates}
    knames = {k for (k, sg, st, rhs, idx) in s.k_updates if idx in (s.ma, s.mb)}
    for (nm, sg, st, rhs, idx) in s.t_updates + [k for k in s.k_updates if k[0] in knames]:
        rep.ob('P.update-inside-move-block', f, st, inblock(st), 'accumulator %s is updated outside the block guarded by the gain test' % nm)
    rep.ob('P.label-store-inside-move-block', f, s.label_store, inblock(s.label_store), 'label store is outside the move block')
    # other writes to the label vector in the loop
    for x in body_order:
        if isinstance(x, ast.Assign) and x is not s.label_store:
            for t in x.targets:
                if isinstance(t, ast.Subscript) and isinstance(t.value, ast.Name) and t.value.id == s.L:
                    rep.ob('P.single-label-store', f, x, False, 'label vector written a second time inside the node loop')
    for group, kind in ((s.t_updates, 'T'), ([k for k in s.k_updates if k[0] in knames], 'K')):
        names = sorted({g_[0] for g_ in group})
        for nm in names:
            ups = [g_ for g_ in group if g_[0] == nm]
            plus = [g_ for g_ in ups if g_[1] == '+']
            minus = [g_ for g_ in ups if g_[1] == '-']
            ok = len(plus) == 1 and len(minus) == 1 and norm(plus[0][3]) == norm(minus[0][3]) and plus[0][4] == s.mb and minus[0][4] == s.ma
            why = ''
            if not ok:
                if len(plus) != 1 or len(minus) != 1:
                    why = '%s has %d `+=` and %d `-=` updates: the amount added to the new module is not removed from the old one' % (nm, len(plus), len(minus))
                elif norm(plus[0][3]) != norm(minus[0][3]):
                    why = '%s: `+= %s` but `-= %s`' % (nm, norm(plus[0][3]), norm(minus[0][3]))
                else:
                    why = '%s: `+=` must address the new module %s and `-=` the old module %s' % (nm, s.mb, s.ma)
            rep.ob('P.paired-update', f, '%s: %s' % (nm, '; '.join(norm(g_[2]) for g_ in ups)), ok, why, line=ups[0][2].lineno)
    # ---- H1: node-to-module tables
    tforms = {}
    for nm in sorted(tnames):
        n_acc += 1
        inits, unknown = H.t_init_forms(prog, f, nm, set(labels) | {s.L})
        upd = [H.t_update_form(rhs, s.u) for (t, sg, st, rhs, idx) in s.t_updates if t == nm and sg == '+']
        upd = upd[0] if upd else None
        for st in unknown:
            rep.ob('H1.init-form-recognised', f, st, False, 'cannot derive which sums `%s` holds from this initialisation' % nm)
        if upd is None:
            rep.ob('H1.update-form-recognised', f, nm, False, 'the increment of `%s` is not a row or column of a matrix at the moved node' % nm, line=s.loop.lineno)
            continue
        tforms[nm] = {fm for (st, fm, how) in inits}
        for (st, fm, how) in inits:
            same = fm[0] == upd[0] and (fm[1] == upd[1] or und)
            rep.ob('H1.init-form-equals-update-form', f, '%s: %s  vs  update %s' % (nm, norm(st).split('\n')[0], norm([x for x in s.t_updates if x[0] == nm][0][2])),
                   same, ('`%s` is initialised as %s but updated as %s: after the first move it no longer holds the sums the gain formula reads' % (
                       nm, _tdesc(fm), _tdesc(upd))) if not same else '', line=st.lineno)
        if not inits:
            rep.ob('H1.init-form-equals-update-form', f, nm, False, 'no initialisation of `%s` found' % nm, line=s.loop.lineno)
    # ---- H2: module degrees
    kforms = {}
    for nm in sorted(knames):
        n_acc += 1
        plus = [k for k in s.k_updates if k[0] == nm and k[1] == '+']
        if not plus:
            continue
        rhs = plus[0][3]
        b = m.match(rhs, '$K[%s]' % s.u)
        if not b or not isinstance(b['K'], ast.Name):
            rep.ob('H2.update-form-recognised', f, plus[0][2], False, 'module degree increment is not the degree of the moved node')
            continue
        kvec = b['K'].id
        kf, un1 = H.degree_form(prog, f, kvec, tforms)
        Kf, un2 = H.degree_form(prog, f, nm, tforms)
        kforms[kvec] = kf
        kforms[nm] = Kf
        for st in un1 + un2:
            rep.ob('H2.init-form-recognised', f, st, False, 'cannot derive the sums held by this degree vector')
        implied = {(M, 'MODULE:' + k) for (M, k) in kf if not k.startswith('MODULE:')}
        if und:
            norm_f = lambda fs: {(M, k.replace('colsum', 'rowsum')) for (M, k) in fs}
            ok = bool(Kf) and bool(implied) and norm_f(Kf) == norm_f(implied)
        else:
            ok = bool(Kf) and Kf == implied
        rep.ob('H2.module-degree-init-equals-update', f, '%s initialised as %s, updated with %s[%s] (%s)' % (nm, sorted(Kf), kvec, s.u, sorted(kf)), ok,
               '`%s` starts as %s but each move adds %s of the moved node: the module degree drifts away from the labels' % (
                   nm, _kdesc(Kf), _kdesc(kf)) if not ok else '', line=plus[0][2].lineno)
    # ---- G/H3: gain halves
    _gain(prog, rep, f, s, m, und, tforms, kforms)
    return n_acc


def _tdesc(fm):
    return 'sum over module members j of %s[v, j] (row of the node)' % fm[0] if fm[1] == 'out' else 'sum over module members j of %s[j, v] (column of the node)' % fm[0]


def _kdesc(fs):
    return ' / '.join(sorted('%s of %s' % (k.replace('MODULE:', 'members\' '), M) for (M, k) in fs)) or 'unknown'


def _gain(prog, rep, f, s, m, und, tforms, kforms):
    """Each half: (T[u,:] - T[u,ma] + M[u,u]) - gamma*kA[u]*(KB - KB[ma] + kB[u])/s"""
    stmts = [x for x in ast.walk(s.loop) if isinstance(x, ast.Assign) and len(x.targets) == 1 and isinstance(x.targets[0], ast.Name)]
    defs = {x.targets[0].id: x for x in stmts}
    if s.dq not in defs:
        rep.ob('G.gain-defined-in-loop', f, s.dq, False, 'gain vector is not computed inside the node loop', line=s.loop.lineno)
        return
    top = defs[s.dq].value
    halves = []
    comb = None
    b = m.match(top, '($A + $B) / 2')
    if b and all(isinstance(b[k], ast.Name) and b[k].id in defs for k in 'AB'):
        halves = [defs[b['A'].id], defs[b['B'].id]]
        comb = 'mean'
    else:
        b = m.match(top, '$D0 * $A - $D1 * $B')
        if b and all(isinstance(b[k], ast.Name) and b[k].id in defs for k in 'AB'):
            halves = [defs[b['A'].id], defs[b['B'].id]]
            comb = 'signed'
            rep.ob('G.signed-combination', f, defs[s.dq], True, '')
        else:
            halves = [defs[s.dq]]
            comb = 'single'
    u, ma = s.u, s.ma
    for hstmt in halves:
        e = hstmt.value
        # extract names by role
        T = M = s_name = None
        one_d_u = []
        one_d_ma = []
        for n in ast.walk(e):
            if isinstance(n, ast.Subscript) and isinstance(n.value, ast.Name):
                sl = n.slice
                if isinstance(sl, ast.Tuple) and len(sl.elts) == 2:
                    a0, a1 = sl.elts
                    if isinstance(a0, ast.Name) and a0.id == u and isinstance(a1, ast.Slice):
                        T = n.value.id
                    elif isinstance(a0, ast.Name) and isinstance(a1, ast.Name) and a0.id == u and a1.id == u:
                        M = n.value.id
                elif isinstance(sl, ast.Name) and sl.id == u:
                    one_d_u.append(n.value.id)
                elif isinstance(sl, ast.Name) and sl.id == ma:
                    one_d_ma.append(n.value.id)
        KB = one_d_ma[0] if one_d_ma else None
        ok_shape = False
        detail = 'gain half `%s` lacks one of T[u,:], M[u,u], K[ma], k[u]' % norm(e)[:80]
        chosen = None
        if T and M and KB and one_d_u:
            # divisor: the name dividing the null term
            cands = sorted(set(one_d_u))
            got = _sym(e)
            for kA in cands:
                for kB in cands:
                    for sname in _div_names(e):
                        ref = spelling.parse('(%s[%s, :] - %s[%s, %s] + %s[%s, %s]) - gamma * %s[%s] * (%s - %s[%s] + %s[%s]) / %s' % (
                            T, u, T, u, ma, M, u, u, kA, u, KB, KB, ma, kB, u, sname), mode='eval').body
                        if sp.simplify(got - _sym(ref)) == 0:
                            ok_shape = True
                            chosen = (kA, kB, sname)
            if not ok_shape:
                detail = 'gain half `%s = %s` is not (T[u,:] - T[u,ma] + M[u,u]) - gamma*k[u]*(K - K[ma] + k[u])/s' % (norm(hstmt.targets[0]), norm(e)[:120])
        if not ok_shape and T and M and not KB and not one_d_u:
            # objective-matrix form (community_louvain): the null model is folded into M, gain = T[u,:] - T[u,ma] + M[u,u]
            ref = spelling.parse('%s[%s, :] - %s[%s, %s] + %s[%s, %s]' % (T, u, T, u, ma, M, u, u), mode='eval').body
            tm = {fm[0] for fm in tforms.get(T, set())}
            if sp.simplify(_sym(e) - _sym(ref)) == 0 and tm == {M}:
                ok_shape = True
                chosen = None
            else:
                detail = 'gain `%s` is not T[u,:] - T[u,ma] + M[u,u] with T accumulated from the same matrix M' % norm(e)[:100]
        rep.ob('G.gain-half-canonical', f, hstmt, ok_shape, detail if not ok_shape else '')
        if chosen is None:
            continue
        if not ok_shape or und:
            continue
        # H3 roles (directed)
        kA, kB, sname = chosen
        tf = tforms.get(T, set())
        kind = {k for (_, k) in tf}
        if len(kind) != 1:
            continue
        kind = kind.pop()
        needA = 'rowsum' if kind == 'out' else 'colsum'
        needB = 'colsum' if kind == 'out' else 'rowsum'
        fa = {k for (_, k) in kforms.get(kA, set()) if not k.startswith('MODULE:')} or {k for (_, k) in H.degree_form(prog, f, kA, tforms)[0]}
        fb = {k for (_, k) in kforms.get(kB, set()) if not k.startswith('MODULE:')} or {k for (_, k) in H.degree_form(prog, f, kB, tforms)[0]}
        fK = {k for (_, k) in (kforms.get(KB) or H.degree_form(prog, f, KB, tforms)[0])}
        ok = fa == {needA} and fb == {needB} and fK == {'MODULE:' + needB}
        rep.ob('H3.gain-half-roles', f, hstmt, ok,
               'table %s holds %s-weights, so it must be paired with the node\'s %s (%s is %s), the modules\' summed %s (%s is %s) and the node\'s own %s (%s is %s)' % (
                   T, kind, needA, kA, sorted(fa), needB, KB, sorted(fK), needB, kB, sorted(fb)))


def _div_names(e):
    out = set()
    for n in ast.walk(e):
        if isinstance(n, ast.BinOp) and isinstance(n.op, ast.Div) and isinstance(n.right, ast.Name):
            out.add(n.right.id)
    return sorted(out) or ['s']


def _sym(e):
    """arithmetic to sympy; subscripts/names are opaque commutative symbols"""
    if isinstance(e, ast.BinOp):
        a, b = _sym(e.left), _sym(e.right)
        if isinstance(e.op, ast.Add):
            return a + b
        if isinstance(e.op, ast.Sub):
            return a - b
        if isinstance(e.op, ast.Mult):
            return a * b
        if isinstance(e.op, ast.Div):
            return a / b
        if isinstance(e.op, ast.Pow):
            return a ** b
    if isinstance(e, ast.UnaryOp) and isinstance(e.op, ast.USub):
        return -_sym(e.operand)
    if isinstance(e, ast.Constant) and isinstance(e.value, (int, float)):
        return sp.nsimplify(e.value)
    return sp.Symbol(norm(e).replace(' ', ''))


# ------------------------------------------------------------------ level acceptance
def _levels(prog, rep):
    for name in ('modularity_louvain_und', 'modularity_louvain_dir'):
        f = prog.func(MODU, name)
        m = Matcher(prog, f)
        pm = ParentMap(f.node)
        cfg = CFG(f.node)
        stmts = _stmts(f)
        brk = None
        for s in stmts:
            if isinstance(s, ast.If) and any(isinstance(x, ast.Break) for x in s.body):
                b = m.match(s.test, '$Q[$H] - $Q[$H - 1] < $EPS') or m.match(s.test, '$Q[$H] - $Q[$H - 1] <= $EPS')
                if b:
                    brk = (s, b)
        rep.ob('L.stop-when-level-does-not-improve', f, brk[0].test if brk else 'if q[h] - q[h-1] < eps: break', brk is not None,
               'the level loop is not left when a level fails to raise q', line=f.node.lineno)
        if not brk:
            continue
        Q, Hn = norm(brk[1]['Q']), norm(brk[1]['H'])
        for r in cfg.returns:
            v = r.value
            if not (isinstance(v, ast.Tuple) and len(v.elts) == 2):
                rep.ob('L.returns-pair', f, r, False, 'must return (ci, q)')
                continue
            a, b = v.elts
            if isinstance(a, ast.Subscript) and isinstance(b, ast.Subscript):
                same = norm(a.slice) == norm(b.slice)
                prev = norm(a.slice) == '%s - 1' % Hn
                rep.ob('L.same-level-for-ci-and-q', f, r, same, 'labels are taken from level `%s` but q from level `%s`' % (norm(a.slice), norm(b.slice)))
                rep.ob('L.returns-last-improving-level', f, r, prev and norm(b.value) == Q,
                       'after the break level h did not improve: the pair to return is level h-1 (got index `%s`)' % norm(a.slice))
            else:
                # hierarchy: both lists sliced identically [1:-1]
                da = [s for s in stmts if isinstance(s, ast.Assign) and norm(s.targets[0]) == norm(a) and cfg.dominates(s, r) and s.lineno > brk[0].lineno]
                db = [s for s in stmts if isinstance(s, ast.Assign) and norm(s.targets[0]) == norm(b) and cfg.dominates(s, r) and s.lineno > brk[0].lineno]
                sa = [norm(s.value.slice) for s in da if isinstance(s.value, ast.Subscript)]
                sb = [norm(s.value.slice) for s in db if isinstance(s.value, ast.Subscript)]
                rep.ob('L.hierarchy-drops-same-levels', f, r, sa == ['1:-1'] and sb == ['1:-1'],
                       'hierarchical output must drop the seed level and the non-improving last level from both lists (ci%s, q%s)' % (sa, sb))
    # und_sign / community_louvain: loop continues while q rises; returned pair from the same (last) level
    f = prog.func(MODU, 'modularity_louvain_und_sign')
    m = Matcher(prog, f)
    wl = [s for s in _stmts(f) if isinstance(s, ast.While) and m.match(s.test, '$Q[$H] - $Q[$H - 1] > $EPS')]
    rep.ob('L.continue-only-while-improving', f, wl[0].test if wl else 'while q[h] - q[h-1] > eps', len(wl) == 1, 'level loop condition', line=f.node.lineno)
    cfg = CFG(f.node)
    for r in cfg.returns:
        v = r.value
        ok = isinstance(v, ast.Tuple) and len(v.elts) == 2 and isinstance(v.elts[1], ast.Subscript) and norm(v.elts[1].slice) == '-1'
        src = None
        if ok and isinstance(v.elts[0], ast.Name):
            d = [s for s in _stmts(f) if isinstance(s, ast.Assign) and any(isinstance(x, ast.Name) and x.id == v.elts[0].id for t in s.targets for x in ast.walk(t))]
            src = [norm(c.args[0]) for s in d for c in ast.walk(s.value) if isinstance(c, ast.Call) and norm(c.func) == 'np.unique' and c.args]
        rep.ob('L.same-level-for-ci-and-q', f, r, ok and src == ['ci[-1]'], 'labels and q must both come from the last computed level (labels from %s)' % src)
    f = prog.func(MODU, 'community_louvain')
    m = Matcher(prog, f)
    wl = [s for s in _stmts(f) if isinstance(s, ast.While) and m.match(s.test, '$Q - $Q0 > $EPS')]
    rep.ob('L.continue-only-while-improving', f, wl[0].test if wl else 'while q - q0 > eps', len(wl) == 1, 'level loop condition', line=f.node.lineno)
    if wl:
        body = wl[0].body
        q0s = [s for s in body if m.match(s, 'q0 = q')]
        qs = [s for s in body if isinstance(s, ast.Assign) and norm(s.targets[0]) == 'q']
        rep.ob('L.previous-q-saved-before-update', f, '; '.join(norm(x) for x in q0s + qs), len(q0s) == 1 and len(qs) == 1 and q0s[0].lineno < qs[0].lineno,
               'q0 must take the old q before q is recomputed', line=wl[0].lineno)


# ------------------------------------------------------------------ symmetric objective (community_louvain)
def _symmetric_objective(prog, rep):
    """The gain Hnm[u,:] - Hnm[u,ma] + B[u,u] counts only row u of B; it is the true change of sum_ij B_ij delta(ci,cj)
    (up to the factor 2) only for symmetric B.  Every definition of B that can reach the move loop must therefore be symmetric:
    built from W by a symmetric formula *and* W symmetric (not checkable) -- or explicitly symmetrised."""
    f = prog.func(MODU, 'community_louvain')
    m = Matcher(prog, f)
    cfg = CFG(f.node)
    stmts = _stmts(f)
    sites = H.locate_moves(prog, f)
    if not sites:
        return
    loop = sites[0].loop
    Bdefs = [s for s in stmts if isinstance(s, ast.Assign) and len(s.targets) == 1 and isinstance(s.targets[0], ast.Name) and s.targets[0].id == 'B'
             and s.lineno < loop.lineno]
    symm = [s for s in Bdefs if m.match(s.value, '(B + B.T) / 2') or m.match(s.value, '(B + B.T) / 2.0') or m.match(s.value, '0.5 * (B + B.T)')]
    # a symmetrisation that every path into the loop passes (unconditional, or guarded by a symmetry test whose else-branch means "already symmetric")
    covered = []
    for d in Bdefs:
        if d in symm:
            continue
        ok = False
        for sy in symm:
            if sy.lineno > d.lineno and cfg.path_avoiding(d, loop, set()) :
                # every path d -> loop passes sy, or passes the false branch of an `if not np.allclose(B, B.T)` guarding sy
                g = ParentMap(f.node).guards(sy)
                guard_ifs = [o for t, pol, k, o in g if pol and (m.match(t, 'not np.allclose(B, B.T)') is not None)]
                through = {sy} | set(guard_ifs)
                if cfg.must_pass(d, loop, through):
                    ok = True
        covered.append((d, ok))
    for d, ok in covered:
        rep.ob('S.objective-symmetric-before-moves', f, d, ok,
               'objective matrix defined here reaches the move loop without being symmetrised: for directed W the row-only gain is not the '
               'change of Q, accepted moves can lower Q and the reported q is not the modularity of the returned partition')


def variants(root):
    from ..selftest import Variant as V
    M = 'bct/algorithms/modularity.py'
    out = []

    def B(name, fn, old, new, expect, **kw):
        out.append(V('%s: %s' % (fn, name), 'break', M, old, new, expect, fn, scope='def %s(' % fn, **kw))

    def N(name, fn, old, new, **kw):
        out.append(V('%s: neutral %s' % (fn, name), 'neutral', M, old, new, scope='def %s(' % fn, **kw))
    fn = 'modularity_finetune_dir'
    B('out-table updated with row', fn, 'knm_o[:, mb] += W[:, u]', 'knm_o[:, mb] += W[u, :]', 'P.paired')     # pair broken first
    B('out-table updated with row (both)', fn, 'knm_o[:, mb] += W[:, u]  # change node-to-module out-degrees\n                knm_o[:, ma] -= W[:, u]',
      'knm_o[:, mb] += W[u, :]\n                knm_o[:, ma] -= W[u, :]', 'H1.')
    B('module degrees initialised crosswise', fn, 'km_o = np.sum(knm_i, axis=0)', 'km_o = np.sum(knm_o, axis=0)', 'H2.')
    B('out-half uses module out-degree', fn, 'gamma * k_o[u] * (km_i - km_i[ma] + k_i[u]) / s', 'gamma * k_o[u] * (km_o - km_o[ma] + k_i[u]) / s', 'H3.')
    B('in-table filled from columns', fn, 'knm_i[:, m] = np.sum(W[ci == (m + 1), :], axis=0)', 'knm_i[:, m] = np.sum(W[:, ci == (m + 1)], axis=1)', 'H')
    for fn, T, Wm, u, K, k in [('modularity_finetune_und', 'knm', 'W', 'u', 'km', 'k'), ('modularity_louvain_und', 'Knm', 'W', 'i', 'Km', 'k'),
                              ('modularity_finetune_und_sign', 'Knm0', 'W0', 'u', 'Km0', 'Kn0'), ('modularity_louvain_und_sign', 'knm1', 'W1', 'u', 'km1', 'kn1'),
                              ('modularity_finetune_dir', 'knm_i', 'W', 'u', 'km_i', 'k_i'), ('community_louvain', 'Hnm', 'B', 'u', 'Hm', 'H')]:
        ma = 'ma'
        mb = 'j' if fn == 'modularity_louvain_und' else 'mb'
        rhs = '%s[%s, :]' % (Wm, u) if T == 'knm_i' else '%s[:, %s]' % (Wm, u)
        B('old module not decremented', fn, '%s[:, %s] -= %s' % (T, ma, rhs), 'pass', 'P.paired')
        B('pair with different operands', fn, '%s[:, %s] -= %s' % (T, ma, rhs), '%s[:, %s] -= %s[:, %s]' % (T, ma, Wm, ma), 'P.paired')
        B('module degree uses another node', fn, '%s[%s] += %s[%s]' % (K, mb, k, u), '%s[%s] += %s[%s]' % (K, mb, k, ma), 'P.paired')
        B('module degree never decremented', fn, '%s[%s] -= %s[%s]' % (K, ma, k, u), 'pass', 'P.paired')
        if T != 'knm_i' and fn != 'community_louvain':
            N('transposed slice in undirected routine', fn, '%s[:, %s] += %s\n' % (T, mb, rhs), '%s[:, %s] += %s[%s, :]\n' % (T, mb, Wm, u),
              also=[(M, '%s[:, %s] -= %s' % (T, ma, rhs), '%s[:, %s] -= %s[%s, :]' % (T, ma, Wm, u), 1)])
    B('label store before the gain test', 'modularity_finetune_und', '                ci[u] = mb + 1\n                flag = True\n', '                flag = True\n', 'P.',
      also=[(M, '            max_dq = np.max(dq)  # find maximal modularity increase\n            if max_dq > 1e-10:  # if maximal increase positive\n                mb = np.argmax(dq)  # take only one value\n\n                # print max_dq, mb',
             '            max_dq = np.max(dq)  # find maximal modularity increase\n            mb = np.argmax(dq)\n            ci[u] = mb + 1\n            if max_dq > 1e-10:  # if maximal increase positive\n                # print max_dq, mb', 1)])
    B('moves accepted for any gain', 'modularity_louvain_und', 'if max_dq > 1e-10:', 'if max_dq > -1e-10:', 'P.move-guarded')
    B('current module not excluded', 'modularity_finetune_und_sign', '            dq[ma] = 0  # no changes for same module\n', '', 'O.')
    B('zeroing after argmax', 'modularity_louvain_und', '                dQ[ma] = 0\n\n                max_dq = np.max(dQ)', '                max_dq = np.max(dQ)\n                dQ[ma] = 0', 'O.zero-before')
    B('gain without own degree', 'modularity_finetune_und', 'gamma * k[u] * (km - km[ma] + k[u]) / s', 'gamma * k[u] * (km - km[ma]) / s', 'G.')
    B('gain without self-loop term', 'modularity_louvain_und', '(Knm[i, :] - Knm[i, ma] + W[i, i])', '(Knm[i, :] - Knm[i, ma])', 'G.')
    B('gain sign of null term', 'modularity_louvain_und_sign', 'knm0[u, ma]) -\n                       gamma', 'knm0[u, ma]) +\n                       gamma', 'G.')
    B('gain normalised by wrong total', 'modularity_finetune_und_sign', '(Km1 + Kn1[u] - Km1[ma]) / s1', '(Km1 + Kn1[u] - Km1[ma]) / s0', 'G.') if False else None
    B('returns the non-improving level', 'modularity_louvain_und', 'return ci[h - 1], q[h - 1]', 'return ci[h], q[h]', 'L.')
    B('labels and q from different levels', 'modularity_louvain_dir', 'return ci[h - 1], q[h - 1]', 'return ci[h - 1], q[h]', 'L.same-level')
    B('hierarchy keeps last level of q', 'modularity_louvain_und', '        q = q[1:-1]\n', '        q = q[1:]\n', 'L.hierarchy')
    B('break test reversed', 'modularity_louvain_und', 'if q[h] - q[h - 1] < 1e-10:', 'if q[h] - q[h - 1] > 1e-10:', 'L.stop')
    B('symmetrisation removed', 'community_louvain', "    if not np.allclose(B, B.T):\n        # directed input: node moves and q below assume a symmetric objective\n        B = (B + B.T) / 2\n", '', 'S.')
    B('Knm initialised transposed in dir louvain stays flagged', 'modularity_finetune_dir', 'k_o = np.sum(knm_o, axis=1)  # node out-degree', 'k_o = np.sum(knm_o, axis=0)  # node out-degree', 'H') if False else None
    B('relabel mask aliases labels', 'community_louvain', 'M0 = ci.copy()', 'M0 = ci', 'I.relabel-mask')
    B('first-level special case removed', 'community_louvain', "        if first_iteration:\n            ci = Mb.copy()\n            first_iteration = False\n        else:\n            for u in range(1, n + 1):\n                ci[M0 == u] = Mb[u - 1]  # assign new modules\n",
      "        for u in range(1, n + 1):\n            ci[M0 == u] = Mb[u - 1]  # assign new modules\n", 'I.relabel-vector')
    N('gain terms reordered', 'modularity_finetune_und', '(knm[u, :] - knm[u, ma] + W[u, u])', '(W[u, u] + knm[u, :] - knm[u, ma])')
    N('eps spelled differently', 'modularity_finetune_und', 'if max_dq > 1e-10:', 'if max_dq > 1.0e-10:')
    N('null term factored', 'modularity_louvain_und', 'gamma * k[i] * (Km - Km[ma] + k[i]) / s', '(Km - Km[ma] + k[i]) * (gamma * k[i] / s)')
    N('transposed row in directed in-table', 'modularity_finetune_dir', 'knm_i[:, mb] += W[u, :]  # change', 'knm_i[:, mb] += W[u, :].T  # change',
      also=[(M, 'knm_i[:, ma] -= W[u, :]', 'knm_i[:, ma] -= W[u, :].T', 1)])
    return [v for v in out if v is not None]
