"""C09 - clustering coefficients and transitivity equal their triangle definitions.

Decided statically (DESIGN 5/C09):
 T  inf-taint: an array that receives np.inf through a mask store may flow only into an element-wise
    divisor whose quotient is returned per node; it must never reach a reduction (sum/mean/trace);
 M  the per-node functions mask their denominator exactly where the triangle count is zero, before
    dividing (0/0 -> exactly 0); the transitivity functions carry no such mask;
 F  the masked array is float-kinded on every path (storing inf into an integer array raises);
 K  clustering_coef_bu divides only under k >= 2;
 G  value-numbered formulas equal the published definitions (Onnela / Fagiolo / Watts-Strogatz forms),
    compared after inlining temporaries, flattening matrix products and sympy normalisation;
 R  cuberoot is sign(x)*|x|^(1/3).
"""
import ast

import sympy as sp

from ..core import spelling
from ..core.astutil import where_unpack, norm, ParentMap
from ..core.cfg import CFG
from ..core.loader import walk_no_nested
from ..core.pattern import Matcher
from ..engines.valnum import ValNum, fn_rule

CLU = 'bct.algorithms.clustering'
PER_NODE = ['clustering_coef_bd', 'clustering_coef_wd', 'clustering_coef_wu', 'clustering_coef_wu_sign']
GLOBAL = ['transitivity_bu', 'transitivity_bd', 'transitivity_wu', 'transitivity_wd']
REDUCERS = {'np.sum', 'np.mean', 'np.trace', 'np.prod', 'np.max', 'np.min', 'np.nansum', 'np.average', 'np.median', 'np.dot', 'np.cumsum'}


def _stmts(f):
    return [n for n in walk_no_nested(f.node) if isinstance(n, ast.stmt)]


# ------------------------------------------------------------------ dtype-kind domain
def _kind(prog, f, e, env):
    """'FLOAT' | 'BOOL' | 'INT' | 'PARAM' (inherits the caller's dtype) | 'TOP'"""
    if isinstance(e, ast.Name):
        if e.id in env:
            return env[e.id]
        if e.id in f.all_params:
            return 'PARAM'
        return 'TOP'
    if isinstance(e, ast.Constant):
        if isinstance(e.value, bool):
            return 'BOOL'
        if isinstance(e.value, int):
            return 'INT'
        if isinstance(e.value, float):
            return 'FLOAT'
        return 'TOP'
    if isinstance(e, ast.Attribute):
        if e.attr == 'T':
            return _kind(prog, f, e.value, env)
        if norm(e) in ('np.inf', 'np.nan', 'np.pi'):
            return 'FLOAT'
        return 'TOP'
    if isinstance(e, ast.UnaryOp):
        return _kind(prog, f, e.operand, env)
    if isinstance(e, ast.Compare):
        return 'BOOL'
    if isinstance(e, ast.BinOp):
        a, b = _kind(prog, f, e.left, env), _kind(prog, f, e.right, env)
        if isinstance(e.op, ast.Div):
            return 'FLOAT'
        if isinstance(e.op, ast.Pow) and (b == 'FLOAT' or isinstance(e.right, ast.BinOp) and isinstance(e.right.op, ast.Div)):
            return 'FLOAT'
        if 'FLOAT' in (a, b):
            return 'FLOAT'
        if 'TOP' in (a, b):
            return 'TOP'
        if 'PARAM' in (a, b):
            return 'PARAM'
        return 'INT'
    if isinstance(e, ast.Subscript):
        return _kind(prog, f, e.value, env)
    if isinstance(e, ast.Call):
        r = prog.resolve_expr(f, e.func)
        kw = {k.arg: k.value for k in e.keywords}
        if 'dtype' in kw:
            d = norm(kw['dtype'])
            return 'FLOAT' if d in ('float', 'np.float64', 'np.float32', "'float'", 'np.float_') else 'INT' if d in ('int', 'np.int64', 'np.int32') else 'BOOL' if d == 'bool' else 'TOP'
        if r[0] == 'method' and e.func.attr == 'astype' and e.args:
            d = norm(e.args[0])
            return 'FLOAT' if d in ('float', 'np.float64', 'np.float32', "'float'") else 'INT' if d in ('int', 'np.int64') else 'BOOL' if d == 'bool' else 'TOP'
        if r[0] == 'method' and e.func.attr in ('copy', 'flatten', 'ravel', 'reshape', 'squeeze', 'transpose'):
            return _kind(prog, f, e.func.value, env)
        if r[0] == 'ext':
            q = r[1]
            if q in ('numpy.zeros', 'numpy.ones', 'numpy.eye', 'numpy.empty'):
                return 'FLOAT'
            if q in ('numpy.sum', 'numpy.dot', 'numpy.diag', 'numpy.array', 'numpy.asarray', 'numpy.abs', 'numpy.triu', 'numpy.tril', 'numpy.trace',
                     'numpy.transpose', 'numpy.squeeze', 'numpy.square', 'numpy.diagonal', 'numpy.copy', 'numpy.outer', 'numpy.multiply', 'numpy.add'):
                ks = [_kind(prog, f, a, env) for a in e.args[:2]] or ['TOP']
                if q == 'numpy.sum' and ks[0] == 'BOOL':
                    return 'INT'
                ks = ks[:1] if q not in ('numpy.dot', 'numpy.outer', 'numpy.multiply', 'numpy.add') else ks
                if 'FLOAT' in ks:
                    return 'FLOAT'
                if 'TOP' in ks:
                    return 'TOP'
                if 'PARAM' in ks:
                    return 'PARAM'
                return ks[0]
            if q in ('numpy.logical_not', 'numpy.logical_and', 'numpy.logical_or', 'numpy.isinf', 'numpy.isnan'):
                return 'BOOL'
            if q in ('numpy.sqrt', 'numpy.mean', 'numpy.log', 'numpy.exp', 'numpy.power', 'numpy.true_divide', 'numpy.cbrt', 'numpy.std', 'numpy.var'):
                return 'FLOAT'
            if q == 'numpy.sign':
                return _kind(prog, f, e.args[0], env) if e.args else 'TOP'
        if r[0] == 'func' and r[1].name == 'cuberoot':
            return 'FLOAT'
        return 'TOP'
    return 'TOP'


def check(prog, rep):
    rep.explanation = (
        'For the nine clustering / transitivity routines: (T) taint analysis of arrays that receive np.inf through a mask store -- they may only '
        'be used as element-wise divisors of the returned per-node quotient, never in a reduction; (M) the mask sits exactly on "triangle count == 0" '
        'and precedes the division in every per-node routine and is absent from every transitivity routine; (F) dtype-kind abstract interpretation '
        'shows the masked array is float on every path; (K) the degree guard of clustering_coef_bu dominates its division; (G) the value-numbered '
        'result expressions are compared with the published definitions after inlining, matrix-product flattening and algebraic normalisation. '
        'Equality with an enumeration of triples on actual numbers and the [0,1] range are not decided.')
    rep.assume('np.dot / np.diag / np.sum compute matrix products, diagonals and sums; input has an empty diagonal')
    for name in PER_NODE + GLOBAL:
        f = prog.func(CLU, name)
        _taint_and_mask(prog, rep, f, per_node=name in PER_NODE)
    _bu(prog, rep)
    _formulas(prog, rep)
    _cuberoot(prog, rep)
    rep.floor('T.', 8)
    rep.floor('M.', 8)
    rep.floor('F.', 5)
    rep.floor('G.', 8)


def _branches(f):
    """straight-line statement lists: the function body, or each branch of a top-level if/elif chain with the common prefix"""
    body = [s for s in f.node.body if not (isinstance(s, ast.Expr) and isinstance(s.value, ast.Constant))]
    ifs = [s for s in body if isinstance(s, ast.If)]
    if not ifs:
        return [('', body)]
    prefix = body[:body.index(ifs[0])]
    out = []
    node = ifs[0]
    while True:
        out.append((norm(node.test), prefix + node.body))
        if len(node.orelse) == 1 and isinstance(node.orelse[0], ast.If):
            node = node.orelse[0]
        else:
            if node.orelse:
                out.append(('else', prefix + node.orelse))
            break
    return out


def _taint_and_mask(prog, rep, f, per_node):
    m = Matcher(prog, f)
    for label, stmts in _branches(f):
        tag = (' [%s]' % label) if label else ''
        flat = []
        for s in stmts:
            flat.append(s)
        # inf mask stores
        masks = []
        for s in flat:
            b = m.match(s, '$X[np.where($N == 0)] = np.inf') or m.match(s, '$X[$N == 0] = np.inf') or m.match(s, '$X[np.logical_not($N)] = np.inf') \
                or m.match(s, '$X[np.where($N == 0)[0]] = np.inf')       # (1-D vectors: positions of the zero entries)
            if b and isinstance(b['X'], ast.Name):
                masks.append((s, b['X'].id, b['N']))
        # other inf stores
        for s in flat:
            if isinstance(s, ast.Assign) and isinstance(s.targets[0], ast.Subscript) and norm(s.value) in ('np.inf', 'float("inf")', "float('inf')") \
                    and not any(s is mm[0] for mm in masks):
                rep.ob('M.mask-keyed-on-zero-triangles', f, s, False, 'np.inf is stored under a condition other than "triangle count == 0"')
        rets = [s for s in flat if isinstance(s, ast.Return)]
        if per_node:
            # every returned quotient N / D must have D tainted by a mask keyed on N == 0, placed before the division
            quot = _returned_quotients(flat, rets)
            if not quot:
                rep.ob('M.per-node-quotient-found', f, f.name + tag, False, 'no returned element-wise quotient found', line=f.node.lineno)
            for (qstmt, num, den) in quot:
                dnames = {n.id for n in ast.walk(den) if isinstance(n, ast.Name)}
                ok = False
                why = 'nodes without triangles give 0/0 (nan) instead of exactly 0: the divisor of `%s` is not masked with inf where `%s == 0`' % (norm(qstmt).split('\n')[0], norm(num))
                for (ms, X, N) in masks:
                    tainted = _tainted_names(flat, ms, X)
                    if dnames & tainted and norm(N) == norm(num) and ms.lineno < qstmt.lineno:
                        ok = True
                rep.ob('M.zero-triangle-nodes-masked', f, '%s%s' % (norm(qstmt).split('\n')[0], tag), ok, why, line=qstmt.lineno)
        else:
            rep.ob('M.no-per-node-mask-in-global-ratio', f, masks[0][0] if masks else 'no inf mask in %s' % f.name, not masks,
                   'a per-node inf mask inside a whole-network ratio: one triangle-free node makes the denominator infinite and the transitivity 0',
                   line=(masks[0][0].lineno if masks else f.node.lineno))
        # taint: inf-carrying names must not reach a reduction
        for (ms, X, N) in masks:
            tainted = _tainted_names(flat, ms, X)
            bad = []
            for s in flat:
                if s.lineno <= ms.lineno:
                    continue
                for c in ast.walk(s):
                    if isinstance(c, ast.Call) and norm(c.func) in REDUCERS:
                        used = {n.id for a in c.args for n in ast.walk(a) if isinstance(n, ast.Name)}
                        if used & tainted:
                            bad.append((s, norm(c)))
            rep.ob('T.inf-never-reaches-a-reduction', f, '%s%s' % (norm(ms), tag), not bad,
                   'array `%s` may hold inf and flows into %s: a single masked node makes the reduction infinite (ratio 0) or nan' % (
                       X, bad[0][1] if bad else ''), line=ms.lineno)
            # dtype kind of the masked array
            env = {}
            for s in flat:
                if s is ms:
                    break
                if isinstance(s, ast.Assign) and len(s.targets) == 1 and isinstance(s.targets[0], ast.Name):
                    env[s.targets[0].id] = _kind(prog, f, s.value, env)
            k = env.get(X, 'PARAM' if X in f.all_params else 'TOP')
            rep.ob('F.masked-array-is-float', f, '%s%s  (%s is %s)' % (norm(ms), tag, X, k), k == 'FLOAT',
                   'array `%s` has dtype kind %s here: with an integer (or bool) input matrix storing np.inf raises OverflowError / is lost' % (X, k), line=ms.lineno)


def _returned_quotients(flat, rets):
    """(stmt, numerator, denominator) for each returned name/expression that is a top-level division"""
    out = []
    defs = {}
    for s in flat:
        if isinstance(s, ast.Assign) and len(s.targets) == 1 and isinstance(s.targets[0], ast.Name):
            defs[s.targets[0].id] = s
    for r in rets:
        vals = r.value.elts if isinstance(r.value, ast.Tuple) else [r.value]
        for v in vals:
            if isinstance(v, ast.Name) and v.id in defs:
                d = defs[v.id]
                if isinstance(d.value, ast.BinOp) and isinstance(d.value.op, ast.Div):
                    out.append((d, d.value.left, d.value.right))
            elif isinstance(v, ast.BinOp) and isinstance(v.op, ast.Div):
                out.append((r, v.left, v.right))
    return out


def _tainted_names(flat, ms, X):
    t = {X}
    for s in flat:
        if s.lineno <= ms.lineno:
            continue
        if isinstance(s, ast.Assign) and len(s.targets) == 1 and isinstance(s.targets[0], ast.Name):
            used = {n.id for n in ast.walk(s.value) if isinstance(n, ast.Name)}
            if used & t:
                t.add(s.targets[0].id)
    return t


def _bu(prog, rep):
    f = prog.func(CLU, 'clustering_coef_bu')
    m = Matcher(prog, f)
    pm = ParentMap(f.node)
    div = None
    for s in _stmts(f):
        b = m.match(s, 'C[$U] = np.sum($S) / ($K * $K - $K)') or m.match(s, 'C[$U] = np.sum($S) / ($K * ($K - 1))')
        if b:
            div = (s, b)
    rep.ob('G.bu-definition', f, div[0] if div else 'C[u] = np.sum(S) / (k * k - k)', div is not None,
           'C[u] must be (number of links among the neighbours, both directions counted) / (k^2 - k)', line=f.node.lineno)
    if div:
        s, b = div
        g = pm.guards(s)
        k = norm(b['K'])
        ok = any(pol and norm(t) in ('%s >= 2' % k, '%s > 1' % k, '2 <= %s' % k, '1 < %s' % k) for t, pol, kind, o in g)
        rep.ob('K.degree-guard-dominates-division', f, s, ok, 'division by k^2 - k is not guarded by k >= 2 (0/0 for isolated and degree-1 nodes)')
        sd = [x for x in _stmts(f) if isinstance(x, ast.Assign) and norm(x.targets[0]) == norm(b['S'])]
        vd = [x for x in _stmts(f) if where_unpack(x) is not None]
        kd = [x for x in _stmts(f) if isinstance(x, ast.Assign) and norm(x.targets[0]) == k]
        G = f.params[0]
        ok2 = len(sd) == 1 and len(vd) == 1 and len(kd) == 1
        if ok2:
            V = norm(where_unpack(vd[0])[0])
            ok2 = m.match(sd[0].value, '%s[np.ix_(%s, %s)]' % (G, V, V)) is not None and m.match(where_unpack(vd[0])[1], '%s[%s, :]' % (G, norm(b['U']))) is not None \
                and m.match(kd[0].value, 'len(%s)' % V) is not None
        rep.ob('G.bu-neighbourhood', f, sd[0] if sd else 'S = G[np.ix_(V, V)]', ok2, 'S must be the subgraph induced by the neighbours V of u, k = |V|')
        zi = [x for x in _stmts(f) if isinstance(x, ast.Assign) and norm(x.targets[0]) == 'C']
        rep.ob('M.unguarded-nodes-are-zero', f, zi[0] if zi else 'C = np.zeros((n,))', len(zi) == 1 and m.match(zi[0].value, 'np.zeros(($N,))') is not None,
               'nodes failing the guard must keep the initial value 0')


# ------------------------------------------------------------------ formulas
def _flatten_dot(t):
    """np.dot(a, np.dot(b, c)) and matmul -> matprod(a, b, c)"""
    def is_dot(x):
        return isinstance(x, sp.Function) and x.func.__name__ in ('np.dot', 'matmul', 'matprod', 'm_dot') and len(x.args) >= 2

    def flat(x):
        args = []
        for a in x.args:
            if is_dot(a):
                args.extend(flat(a))
            else:
                args.append(a)
        return args
    return t.replace(is_dot, lambda x: sp.Function('matprod')(*flat(x)))


def _rowsum_of_hadamard(t):
    """np.sum(X * Y.T, axis=1)[i] = sum_j X[i,j] Y[j,i] = (X Y)[i,i]: the row sums of an elementwise product with a transpose
    are the diagonal of the matrix product (a common way to avoid forming the full product)"""
    def hit(x):
        if not (isinstance(x, sp.Function) and x.func.__name__ == 'np.sum' and len(x.args) == 2 and str(x.args[1]) == 'kw_axis(1)'):
            return False
        p = x.args[0]
        if isinstance(p, sp.Mul) and len(p.args) == 2:
            return any(isinstance(a, sp.Function) and a.func.__name__ == 'attr_T' for a in p.args)
        if isinstance(p, sp.Pow) and p.args[1] == 2:
            return False
        return False

    def rew(x):
        a, b = x.args[0].args
        if isinstance(b, sp.Function) and b.func.__name__ == 'attr_T':
            X, Y = a, b.args[0]
        else:
            X, Y = b, a.args[0]
        return sp.Function('np.diag')(sp.Function('matprod')(X, Y))
    return t.replace(hit, rew)


REFS = {
    'clustering_coef_bd': '''
S = A + A.T
K = np.sum(S, axis=1)
cyc3 = np.diag(np.dot(S, np.dot(S, S))) / 2
K[np.where(cyc3 == 0)] = np.inf
C = cyc3 / (K * (K - 1) - 2 * np.diag(np.dot(A, A)))
''',
    'clustering_coef_wd': '''
A = np.logical_not(W == 0)
S = cuberoot(W) + cuberoot(W.T)
K = np.sum(A + A.T, axis=1)
cyc3 = np.diag(np.dot(S, np.dot(S, S))) / 2
K[np.where(cyc3 == 0)] = np.inf
C = cyc3 / (K * (K - 1) - 2 * np.diag(np.dot(A, A)))
''',
    'clustering_coef_wu': '''
K = np.sum(np.logical_not(W == 0), axis=1)
ws = cuberoot(W)
cyc3 = np.diag(np.dot(ws, np.dot(ws, ws)))
K[np.where(cyc3 == 0)] = np.inf
C = cyc3 / (K * (K - 1))
''',
    'transitivity_bu': '''
C = np.trace(np.dot(A, np.dot(A, A))) / (np.sum(np.dot(A, A)) - np.trace(np.dot(A, A)))
''',
    'transitivity_bd': '''
S = A + A.T
K = np.sum(S, axis=1)
C = np.sum(np.diag(np.dot(S, np.dot(S, S))) / 2) / np.sum(K * (K - 1) - 2 * np.diag(np.dot(A, A)))
''',
    'transitivity_wu': '''
K = np.sum(np.logical_not(W == 0), axis=1)
ws = cuberoot(W)
C = np.sum(np.diag(np.dot(ws, np.dot(ws, ws)))) / np.sum(K * (K - 1))
''',
    'transitivity_wd': '''
A = np.logical_not(W == 0)
S = cuberoot(W) + cuberoot(W.T)
K = np.sum(A + A.T, axis=1)
C = np.sum(np.diag(np.dot(S, np.dot(S, S))) / 2) / np.sum(K * (K - 1) - 2 * np.diag(np.dot(A, A)))
''',
}


def _drop_dtype(t):
    # dtype conversions and axis=0 on 1-D sums do not change values
    t = t.replace(lambda x: isinstance(x, sp.Function) and x.func.__name__ == 'm_astype', lambda x: x.args[0])
    t = t.replace(lambda x: isinstance(x, sp.Function) and x.func.__name__ == 'np.array' and len(x.args) == 2 and 'kw_dtype' in str(x.args[1]), lambda x: x.args[0])
    return t


def _is_vector(t):
    if isinstance(t, sp.Function) and t.func.__name__ == 'np.diag':
        return True
    if isinstance(t, sp.Function) and t.func.__name__ == 'np.sum' and any('kw_axis' in str(a.func) for a in t.args[1:] if isinstance(a, sp.Function)):
        return True
    if isinstance(t, sp.Function) and t.func.__name__ == 'maskset':
        return _is_vector(t.args[0])
    if isinstance(t, (sp.Add, sp.Mul, sp.Pow)):
        return any(_is_vector(a) for a in t.args)
    return False


def _drop_axis0(t):
    """np.sum(v, axis=0) of a 1-D vector is np.sum(v)"""
    def pred(x):
        return isinstance(x, sp.Function) and x.func.__name__ == 'np.sum' and len(x.args) == 2 and str(x.args[1]) == 'kw_axis(0)' and _is_vector(x.args[0])
    return t.replace(pred, lambda x: sp.Function('np.sum')(x.args[0]))


def _norm_term(t):
    t = _drop_dtype(t)
    t = _drop_axis0(t)
    t = _flatten_dot(_rowsum_of_hadamard(t))
    return t


def result_term(prog, f, stmts, param_map=None, rewrites=None):
    vn = ValNum(prog, f, rewrites=[_norm_term] + list(rewrites or []), param_map=param_map or {})
    env = vn.run(stmts)
    return env, vn


def _formulas(prog, rep):
    import ast as _ast
    for name, ref in REFS.items():
        f = prog.func(CLU, name)
        body = [s for s in f.node.body if not (isinstance(s, ast.Expr) and isinstance(s.value, ast.Constant))]
        env, vn = result_term(prog, f, body)
        got = env.get('<return>')
        rbody = spelling.parse(ref).body
        p = f.params[0]
        refp = 'W' if 'W' in ref.split('=')[1] or '(W' in ref else 'A'
        renv, rvn = result_term(prog, f, rbody, param_map={refp: p})
        want = renv.get('C')
        ok = got is not None and want is not None and (got == want or _eq(got, want))
        rep.ob('G.matches-published-definition', f, 'return %s' % (str(got)[:150]), ok,
               'value-numbered result differs from the definition %s' % (str(want)[:200]), line=f.node.lineno)
    # signed default branch: each sign is clustering_coef_wu of the positive / negated-negative part
    f = prog.func(CLU, 'clustering_coef_wu_sign')
    for label, stmts in _branches(f):
        if 'default' not in label:
            continue
        env, vn = result_term(prog, f, stmts)
        got = env.get('<return>')
        ref = prog.func(CLU, 'clustering_coef_wu')
        rbody = [s for s in ref.node.body if not (isinstance(s, ast.Expr) and isinstance(s.value, ast.Constant))]
        ok = False
        if got is not None and isinstance(got, sp.Function) and got.func.__name__ == 'tuple_' and len(got.args) == 2:
            W = sp.Symbol('W')
            wpos = sp.Function('lt')(sp.Integer(0), W) * W
            wneg = -sp.Function('lt')(W, sp.Integer(0)) * W
            renv, _ = result_term(prog, ref, rbody)
            base = renv.get('<return>')
            Wd = env.get('W')
            if base is not None:
                # the working copy W of the signed routine is maskset(copy(W), diag, 0): compare modulo the substituted matrix symbol
                pos = base.xreplace({sp.Symbol(ref.params[0]): env.get('W_pos')})
                neg = base.xreplace({sp.Symbol(ref.params[0]): env.get('W_neg')})
                ok = _eq(got.args[0], pos) and _eq(got.args[1], neg)
                okparts = env.get('W_pos') is not None and env.get('W_neg') is not None
                ok = ok and okparts
        rep.ob('G.signed-default-is-wu-of-each-sign', f, 'coef_type == default', ok,
               'the default signed coefficient must be the weighted-undirected coefficient of the positive part and of the negated negative part', line=f.node.lineno)
        m = Matcher(prog, f)
        pd = [s for s in stmts if isinstance(s, ast.Assign) and norm(s.targets[0]) == 'W_pos']
        nd = [s for s in stmts if isinstance(s, ast.Assign) and norm(s.targets[0]) == 'W_neg']
        rep.ob('G.sign-parts', f, '%s; %s' % (norm(pd[0]) if pd else '?', norm(nd[0]) if nd else '?'),
               bool(pd) and bool(nd) and m.match(pd[0].value, 'W * (W > 0)') is not None and m.match(nd[0].value, '-W * (W < 0)') is not None,
               'positive part must be W*(W>0), negative part -W*(W<0)', line=f.node.lineno)


def _eq(a, b):
    if a == b:
        return True
    try:
        d = sp.expand(a - b)
        if d == 0:
            return True
        if sp.count_ops(d) > 120:
            return False          # large residue: not an algebraic re-arrangement (avoid sympy's expensive simplify)
        return sp.simplify(d) == 0
    except Exception:
        return False


def _cuberoot(prog, rep):
    f = prog.func('bct.utils.miscellaneous_utilities', 'cuberoot')
    m = Matcher(prog, f)
    cfg = CFG(f.node)
    x = f.params[0]
    ok = len(cfg.returns) == 1 and any(m.match(cfg.returns[0].value, t % {'x': x}) is not None for t in (
        'np.sign(%(x)s) * np.abs(%(x)s) ** (1 / 3)', 'np.sign(%(x)s) * np.abs(%(x)s) ** (1.0 / 3)', 'np.sign(%(x)s) * np.power(np.abs(%(x)s), 1 / 3)',
        'np.cbrt(%(x)s)', 'np.abs(%(x)s) ** (1 / 3) * np.sign(%(x)s)'))
    rep.ob('R.cuberoot-sign-preserving', f, cfg.returns[0] if cfg.returns else f.name, ok, 'cuberoot must be sign(x)*|x|^(1/3) (real root for negative weights)', line=f.node.lineno)


def variants(root):
    from ..selftest import Variant as V
    C = 'bct/algorithms/clustering.py'
    out = []

    def B(name, fn, old, new, expect, **kw):
        out.append(V('%s: %s' % (fn, name), 'break', C, old, new, expect, fn, scope='def %s(' % fn, **kw))

    def N(name, fn, old, new, **kw):
        out.append(V('%s: neutral %s' % (fn, name), 'neutral', C, old, new, scope='def %s(' % fn, **kw))
    for fn in ('clustering_coef_bd', 'clustering_coef_wd', 'clustering_coef_wu'):
        B('mask removed', fn, '    K[np.where(cyc3 == 0)] = np.inf', '    pass', 'M.zero-triangle')
        B('mask after division', fn, '    K[np.where(cyc3 == 0)] = np.inf\n', '', 'M.zero-triangle',
          also=[(C, '    return C\n', '    K[np.where(cyc3 == 0)] = np.inf\n    return C\n', 1)]) if False else None
        B('mask keyed on degree', fn, 'K[np.where(cyc3 == 0)] = np.inf', 'K[np.where(K == 0)] = np.inf', 'M.')
    for fn in ('transitivity_bd', 'transitivity_wd'):
        B('per-node mask copied in', fn, '    CYC3 = K * (K - 1)', '    K[np.where(cyc3 == 0)] = np.inf\n    CYC3 = K * (K - 1)', 'M.no-per-node')
    B('per-node mask copied in', 'transitivity_wu', '    ws = cuberoot(W)\n    cyc3 = np.diag(np.dot(ws, np.dot(ws, ws)))\n    return',
      '    ws = cuberoot(W)\n    cyc3 = np.diag(np.dot(ws, np.dot(ws, ws)))\n    K = K.astype(float)\n    K[np.where(cyc3 == 0)] = np.inf\n    return', 'M.no-per-node')
    B('integer degree vector masked', 'clustering_coef_wu', 'K = np.array(np.sum(np.logical_not(W == 0), axis=1), dtype=float)', 'K = np.sum(np.logical_not(W == 0), axis=1)', 'F.')
    B('integer degree vector masked', 'clustering_coef_bd', 'K = np.array(np.sum(S, axis=1), dtype=float)', 'K = np.sum(S, axis=1)', 'F.')
    B('triangles not halved', 'clustering_coef_bd', 'cyc3 = np.diag(np.dot(S, np.dot(S, S))) / 2', 'cyc3 = np.diag(np.dot(S, np.dot(S, S)))', 'G.')
    B('false pairs not removed', 'clustering_coef_wd', 'CYC3 = K * (K - 1) - 2 * np.diag(np.dot(A, A))', 'CYC3 = K * (K - 1)', 'G.')
    B('degree from weights', 'clustering_coef_wu', 'np.sum(np.logical_not(W == 0), axis=1)', 'np.sum(W, axis=1)', 'G.')
    B('cube root dropped', 'clustering_coef_wu', 'ws = cuberoot(W)', 'ws = W', 'G.')
    B('in-degree only', 'transitivity_wd', 'K = np.sum(A + A.T, axis=1)', 'K = np.sum(A, axis=1)', 'G.')
    B('closed walks include diagonal', 'transitivity_bu', 'tri2 = np.sum(np.dot(A, A)) - np.trace(np.dot(A, A))', 'tri2 = np.sum(np.dot(A, A))', 'G.')
    B('guard k >= 1', 'clustering_coef_bu', 'if k >= 2:', 'if k >= 1:', 'K.')
    B('denominator k*k', 'clustering_coef_bu', 'C[u] = np.sum(S) / (k * k - k)', 'C[u] = np.sum(S) / (k * k)', 'G.bu')
    B('negative part not negated', 'clustering_coef_wu_sign', "W_neg = -W * (W < 0)\n        K_neg", "W_neg = W * (W < 0)\n        K_neg", 'G.sign')
    B('negative mask keyed on positive triangles', 'clustering_coef_wu_sign', 'K_neg[np.where(cyc3_neg == 0)] = np.inf', 'K_neg[np.where(cyc3_pos == 0)] = np.inf', 'M.')
    out.append(V('cuberoot: abs dropped', 'break', 'bct/utils/miscellaneous_utilities.py', 'np.sign(x) * np.abs(x)**(1 / 3)', 'np.sign(x) * x**(1 / 3)', 'R.', 'cuberoot'))
    N('dot re-associated', 'clustering_coef_wu', 'np.dot(ws, np.dot(ws, ws))', 'np.dot(np.dot(ws, ws), ws)')
    N('matmul operator', 'transitivity_bu', 'np.dot(A, np.dot(A, A))', 'A @ A @ A')
    N('denominator factored', 'clustering_coef_bd', 'CYC3 = K * (K - 1) - 2 * np.diag(np.dot(A, A))', 'CYC3 = K * K - K - 2 * np.diag(np.dot(A, A))')
    N('mask without np.where', 'clustering_coef_wd', 'K[np.where(cyc3 == 0)] = np.inf', 'K[cyc3 == 0] = np.inf')
    N('temporaries inlined', 'transitivity_bd', '    CYC3 = K * (K - 1) - 2 * np.diag(np.dot(A, A))  # number of all possible 3-cycles\n    return np.sum(cyc3) / np.sum(CYC3)', '    return np.sum(cyc3) / np.sum(K * (K - 1) - 2 * np.diag(np.dot(A, A)))')
    return [v for v in out if v is not None]
