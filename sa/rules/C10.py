"""C10 - weighted measures reduce to binary on 0/1 input, directed to undirected.

Decided only where the two siblings share an algorithm (DESIGN 5/C10):
 Z  specialisation equivalence by term rewriting: the value-numbered result of the weighted routine, rewritten under the 0/1
    assumption (cuberoot(x) -> x, (x != 0) -> x, binarize(x) -> x, dtype casts dropped), equals the value-numbered result of the
    binary routine: clustering_coef_wd -> clustering_coef_bd, transitivity_wd -> transitivity_bd, transitivity_wu -> weights-only
    form of itself, strengths_und -> degrees_und, strengths_dir -> degrees_dir (total);
 C  clone pairs (shared with C03): the private distance routines of efficiency_bin / efficiency_wei against distance_bin /
    distance_wei;
 S  feature agreement (shared with C08 / C15): fill, relaxation and dependency features of the Brandes variants; peel
    predicate / zeroing / size of the k-core variants;
 B  routines documented to ignore weights touch their matrix argument only through binarize(...) or a nonzero test.
Pairs whose siblings use different algorithms (*_wu vs *_bu, distance_wei vs distance_bin, betweenness_wei vs betweenness_bin,
directed vs undirected clustering on symmetric input) are NOT decided.
"""
import ast

import sympy as sp

from ..core.astutil import norm
from ..core.cfg import CFG
from ..core.loader import walk_no_nested
from ..core.report import Report
from .C09 import result_term, _eq

CLU = 'bct.algorithms.clustering'
DEG = 'bct.algorithms.degree'


def _body(f):
    return [s for s in f.node.body if not (isinstance(s, ast.Expr) and isinstance(s.value, ast.Constant))]


def _binary_rewrites():
    def r(t):
        # cuberoot(x) -> x   (x in {0,1})
        t = t.replace(lambda x: isinstance(x, sp.Function) and x.func.__name__ == 'cuberoot', lambda x: x.args[0])
        # np.logical_not(eq(0, x)) -> x ; ne(0, x) -> x
        def is_nz(x):
            return isinstance(x, sp.Function) and x.func.__name__ == 'np.logical_not' and len(x.args) == 1 and isinstance(x.args[0], sp.Function) and x.args[0].func.__name__ == 'eq' \
                and sp.Integer(0) in x.args[0].args
        t = t.replace(is_nz, lambda x: [a for a in x.args[0].args if a != sp.Integer(0)][0])
        t = t.replace(lambda x: isinstance(x, sp.Function) and x.func.__name__ == 'ne' and sp.Integer(0) in x.args, lambda x: [a for a in x.args if a != sp.Integer(0)][0])
        # binarize(x, ...) -> x
        t = t.replace(lambda x: isinstance(x, sp.Function) and x.func.__name__ == 'binarize', lambda x: x.args[0])
        # np.array(x, dtype=float) -> x ; astype handled by the common normaliser
        t = t.replace(lambda x: isinstance(x, sp.Function) and x.func.__name__ == 'np.array' and len(x.args) >= 1 and all(str(a).startswith('kw_') for a in x.args[1:]), lambda x: x.args[0])
        return t
    return [r]


def check(prog, rep):
    rep.explanation = (
        'Where a weighted routine and its binary counterpart share one algorithm, the weighted routine is specialised symbolically under the '
        'assumption "all entries are 0 or 1" (cube root, nonzero test and binarisation become the identity) and its value-numbered result is '
        'compared with that of the binary routine: equality of the normal forms shows that the two return the same value for every 0/1 matrix. '
        'Clone pairs and feature agreement of sibling implementations are re-used from C03 / C08 / C15; routines documented to ignore weights '
        'are checked to look at their matrix only through binarize or a nonzero test. Pairs implemented by different algorithms are not decided.')
    rep.assume('rewrite table: on 0/1 input cuberoot(x) = x, (x != 0) = x, binarize(x) = x; dtype casts do not change values')
    pairs = [(CLU, 'clustering_coef_wd', CLU, 'clustering_coef_bd'), (CLU, 'transitivity_wd', CLU, 'transitivity_bd')]
    for m1, wname, m2, bname in pairs:
        fw, fb = prog.func(m1, wname), prog.func(m2, bname)
        ew, _ = result_term(prog, fw, _body(fw), rewrites=_binary_rewrites(), param_map={fw.params[0]: 'X'})
        eb, _ = result_term(prog, fb, _body(fb), rewrites=_binary_rewrites(), param_map={fb.params[0]: 'X'})
        a, b = ew.get('<return>'), eb.get('<return>')
        ok = a is not None and b is not None and _eq(a, b)
        rep.ob('Z.weighted-specialises-to-binary', fw, '%s |0/1 == %s' % (wname, bname), ok,
               'after the 0/1 rewriting the weighted routine returns %s but the binary routine returns %s: they differ on 0/1 matrices' % (str(a)[:140], str(b)[:140]), line=fw.node.lineno)
    # strengths -> degrees
    su, du = prog.func(DEG, 'strengths_und'), prog.func(DEG, 'degrees_und')
    es, _ = result_term(prog, su, _body(su), rewrites=_binary_rewrites(), param_map={su.params[0]: 'X'})
    ed, _ = result_term(prog, du, _body(du), rewrites=_binary_rewrites(), param_map={du.params[0]: 'X'})
    rep.ob('Z.weighted-specialises-to-binary', su, 'strengths_und |0/1 == degrees_und', _eq(es.get('<return>'), ed.get('<return>')),
           'strength %s vs degree %s' % (es.get('<return>'), ed.get('<return>')), line=su.node.lineno)
    sd, dd = prog.func(DEG, 'strengths_dir'), prog.func(DEG, 'degrees_dir')
    es, _ = result_term(prog, sd, _body(sd), rewrites=_binary_rewrites(), param_map={sd.params[0]: 'X'})
    ed, _ = result_term(prog, dd, _body(dd), rewrites=_binary_rewrites(), param_map={dd.params[0]: 'X'})
    tot = ed.get('<return>')
    tot = tot.args[2] if isinstance(tot, sp.Function) and tot.func.__name__ == 'tuple_' and len(tot.args) == 3 else None
    rep.ob('Z.weighted-specialises-to-binary', sd, 'strengths_dir |0/1 == degrees_dir[2]', tot is not None and _eq(es.get('<return>'), tot),
           'total strength %s vs total degree %s' % (es.get('<return>'), tot), line=sd.node.lineno)
    # degrees_dir: in = column sums, out = row sums (directed -> undirected: on symmetric input both equal the undirected degree)
    if tot is not None:
        full = ed.get('<return>')
        X = sp.Symbol('X')
        sym = {sp.Function('attr_T')(X): X}
        i_, o_ = full.args[0], full.args[1]
        und = prog.func(DEG, 'degrees_und')
        eu, _ = result_term(prog, und, _body(und), rewrites=_binary_rewrites(), param_map={und.params[0]: 'X'})
        u = eu.get('<return>')
        ok_in = _eq(i_, u)
        ok_out = str(o_) == str(u).replace('kw_axis(0)', 'kw_axis(1)')
        rep.ob('Z.directed-degrees-reduce-to-undirected', dd, 'in = %s ; out = %s ; und = %s' % (i_, o_, u), ok_in and ok_out,
               'on a symmetric matrix column sums (in-degree) and row sums (out-degree) must both be the undirected degree', line=dd.node.lineno)
    # ---- clone pairs and sibling features: re-evaluate the shared rules into a scratch report and import their verdicts
    from . import C03, C08, C15
    scratch = Report('C10', quiet=True)
    C03._clones(prog, scratch)
    for o in scratch.obs:
        if o.rule.startswith('C.'):
            rep.ob('C.' + o.rule[2:], (o.module, o.function), o.construct, o.ok, o.why, line=o.line)
    # tie handling of the weighted search: on 0/1 input every level of the binary search is one set of equal-length nodes
    scratch = Report('C10', quiet=True)
    C03._distance_wei(prog, scratch)
    for o in scratch.obs:
        if o.rule in ('K.dijkstra-relaxes-from-every-settled-node', 'K.dijkstra-next-frontier-is-all-minimal-temporary-nodes', 'K.dijkstra-settles-frontier'):
            rep.ob('T.' + o.rule[2:], (o.module, o.function), o.construct, o.ok, o.why + ' -- on a 0/1 matrix distance_wei then differs from distance_bin', line=o.line)
    scratch = Report('C10', quiet=True)
    C08.check(prog, scratch)
    for o in scratch.obs:
        if o.rule.startswith('S.'):
            rep.ob(o.rule, (o.module, o.function), o.construct, o.ok, o.why, line=o.line)
    scratch = Report('C10', quiet=True)
    C15.check(prog, scratch)
    for o in scratch.obs:
        if o.rule.startswith('S.'):
            rep.ob('S.kcore-' + o.rule[2:], (o.module, o.function), o.construct, o.ok, o.why, line=o.line)
    # ---- weight-ignoring routines
    IGN = [('bct.algorithms.degree', 'degrees_und'), ('bct.algorithms.degree', 'degrees_dir'), ('bct.algorithms.distance', 'distance_bin'), ('bct.algorithms.distance', 'findwalks'),
           ('bct.algorithms.efficiency', 'efficiency_bin'), ('bct.algorithms.clustering', 'get_components')]
    for mod, name in IGN:
        f = prog.func(mod, name)
        P = f.params[0]
        uses = []
        rebound = None
        for s in _body(f):
            if rebound is not None and s.lineno > rebound:
                break
            for n in ast.walk(s):
                if isinstance(n, ast.Name) and n.id == P and isinstance(n.ctx, ast.Load):
                    uses.append((s, n))
            if isinstance(s, ast.Assign) and any(isinstance(t, ast.Name) and t.id == P for t in s.targets):
                rebound = s.lineno
                break
        ok = True
        why = ''
        from ..core.astutil import ParentMap
        pm = ParentMap(f.node)
        for s, n in uses:
            par = pm.parent.get(n)
            if isinstance(par, ast.Call) and norm(par.func) in ('binarize', 'len', 'np.all', 'np.allclose'):
                continue
            if isinstance(par, ast.Attribute) and par.attr in ('T', 'shape', 'copy'):
                gp = pm.parent.get(par)
                if isinstance(gp, ast.Compare) or (isinstance(gp, ast.Call) and norm(gp.func) in ('np.allclose',)) or par.attr == 'shape':
                    continue
            if isinstance(par, ast.Compare):
                continue      # A == A.T symmetry test
            ok = False
            why = 'the weighted argument is used in `%s` before it is binarised' % norm(s).split('\n')[0][:80]
        seen_bin = any(isinstance(n, ast.Call) and norm(n.func) == 'binarize' for s in _body(f) for n in ast.walk(s))
        rep.ob('B.weights-discarded-before-use', f, '%s(%s)' % (name, P), ok and seen_bin, why or 'no binarize call', line=f.node.lineno)
    rep.floor('Z.', 5)
    rep.floor('C.', 2)
    rep.floor('S.', 12)
    rep.floor('B.', 6)


def variants(root):
    from ..selftest import Variant as V
    C = 'bct/algorithms/clustering.py'
    D = 'bct/algorithms/degree.py'
    out = [
        V('transitivity_wd: masking line copied in', 'break', C, '    # number of all possible 3-cycles\n    CYC3 = K * (K - 1) - 2 * np.diag(np.dot(A, A))\n    return np.sum(cyc3) / np.sum(CYC3)  # transitivity',
          '    K[np.where(cyc3 == 0)] = np.inf\n    CYC3 = K * (K - 1) - 2 * np.diag(np.dot(A, A))\n    return np.sum(cyc3) / np.sum(CYC3)  # transitivity', 'Z.', None, scope='def transitivity_wd('),
        V('clustering_coef_wd: in-degree only', 'break', C, 'K = np.sum(A + A.T, axis=1)', 'K = np.sum(A, axis=1)', 'Z.', None, scope='def clustering_coef_wd('),
        V('clustering_coef_bd: triangles not halved', 'break', C, 'cyc3 = np.diag(np.dot(S, np.dot(S, S))) / 2', 'cyc3 = np.diag(np.dot(S, np.dot(S, S)))', 'Z.', None, scope='def clustering_coef_bd('),
        V('strengths_und: row sums of squares', 'break', D, '    return np.sum(CIJ, axis=0)\n', '    return np.sum(CIJ * CIJ + 0 * CIJ, axis=1)\n', 'Z.', None, scope='def strengths_und('),
        V('degrees_dir: in and out swapped', 'break', D, '    id = np.sum(CIJ, axis=0)  # indegree = column sum of CIJ\n    od = np.sum(CIJ, axis=1)', '    id = np.sum(CIJ, axis=1)  # indegree = column sum of CIJ\n    od = np.sum(CIJ, axis=0)', 'Z.directed', None, scope='def degrees_dir('),
        V('distance_bin: weights used before binarize', 'break', 'bct/algorithms/distance.py', '    G = binarize(G, copy=True)\n    D = np.eye(len(G))', '    scale = np.max(G)\n    G = binarize(G, copy=True)\n    D = np.eye(len(G)) * scale / scale', 'B.', None, scope='def distance_bin('),
        V('edge_betweenness_wei drifts from betweenness_wei', 'break', 'bct/algorithms/centrality.py', '                    elif Duw == D[w]:  # if new u->w equal to old', '                    elif np.isclose(Duw, D[w]):  #', '', None, scope='def edge_betweenness_wei('),
        V('neutral: wd temporaries', 'neutral', C, '    CYC3 = K * (K - 1) - 2 * np.diag(np.dot(A, A))\n    C = cyc3 / CYC3', '    false_pairs = 2 * np.diag(np.dot(A, A))\n    CYC3 = K * (K - 1) - false_pairs\n    C = cyc3 / CYC3', scope='def clustering_coef_wd('),
    ]
    return out
