"""Two-way self-test of the rules (thorough tier).

For each variant declared by a rule module (VARIANTS), a private copy of the
*.py files of <root>/bct is made in a temp dir outside /repo and /verif, one
textual edit is applied, the property's check is re-run on the copy, and the
outcome is compared with the expectation:
  kind 'break'   -> at least one *new* violation whose rule starts with `expect`
                    (and, if given, whose function equals `function`);
  kind 'neutral' -> no new violation at all and no analysis error.
'new' = not present on the unedited tree.  A blind or noisy rule is a checker
defect: it is reported as ANALYSIS-ERROR (exit 2), never as a violation.
Variants whose anchor text is absent from the current tree are skipped and counted.
"""
import importlib
import os
import shutil
import tempfile
from multiprocessing import Pool


class Variant:
    def __init__(self, name, kind, file, old=None, new=None, expect=None, function=None, count=1, also=(), lines=(), scope=None, transform=None):
        self.name = name
        self.kind = kind            # 'break' | 'neutral'
        self.file = file            # path relative to repo root
        self.old = old
        self.new = new
        self.expect = expect        # rule prefix expected to fire (break)
        self.function = function
        self.count = count          # which occurrence (1-based); 0 = all
        self.also = also            # extra (file, old, new, count) edits applied together
        self.scope = scope          # text marker (e.g. 'def randmio_dir('): edits apply from its first occurrence on
        self.transform = transform  # picklable callable: source text of `file` -> new text (applied first)
        self.lines = lines          # [(lineno, expected_stripped_text, replacement_line_without_indent)] line edits in `file`


def _apply_one(text, old, new, count, scope=None):
    if scope is not None:
        k = text.find(scope)
        if k < 0:
            return None
        end = len(text)
        if scope.startswith('def '):
            # a top-level function ends where the next top-level definition starts
            ends = [x for x in (text.find('\ndef ', k + 1), text.find('\nclass ', k + 1), text.find('\n@', k + 1)) if x >= 0]
            if ends:
                end = min(ends) + 1
        rest = _apply_one(text[k:end], old, new, count)
        return None if rest is None else text[:k] + rest + text[end:]
    if old not in text:
        return None
    if count == 0:
        return text.replace(old, new)
    idx = -1
    for _ in range(count):
        idx = text.find(old, idx + 1)
        if idx < 0:
            return None
    return text[:idx] + new + text[idx + len(old):]


def copy_tree(root, dst):
    for dp, dn, fn in os.walk(os.path.join(root, 'bct')):
        dn[:] = [d for d in dn if d != '__pycache__']
        rel = os.path.relpath(dp, root)
        os.makedirs(os.path.join(dst, rel), exist_ok=True)
        for f in fn:
            if f.endswith('.py'):
                shutil.copy(os.path.join(dp, f), os.path.join(dst, rel, f))


def _run_variant(args):
    pid, root, v, base_keys = args
    from .main import run_property
    tmp = tempfile.mkdtemp(prefix='sa-selftest-')
    try:
        copy_tree(root, tmp)
        if v.transform is not None:
            p = os.path.join(tmp, v.file)
            with open(p) as f:
                text = f.read()
            t2 = v.transform(text)
            if t2 is None or t2 == text:
                return (v.name, 'skipped', 'transform not applicable')
            with open(p, 'w') as f:
                f.write(t2)
        if v.lines:
            p = os.path.join(tmp, v.file)
            with open(p) as f:
                src = f.read().split('\n')
            for (ln, expected, repl) in v.lines:
                cur = src[ln - 1]
                if cur.strip() != expected.strip():
                    return (v.name, 'skipped', 'line %d changed' % ln)
                indent = cur[:len(cur) - len(cur.lstrip())]
                src[ln - 1] = '\n'.join(indent + x for x in repl.split('\n'))
            with open(p, 'w') as f:
                f.write('\n'.join(src))
        for (file, old, new, count) in ([(v.file, v.old, v.new, v.count)] if v.old is not None else []) + list(v.also):
            p = os.path.join(tmp, file)
            if not os.path.exists(p):
                return (v.name, 'skipped', 'file missing')
            with open(p) as f:
                text = f.read()
            t2 = _apply_one(text, old, new, count, v.scope if file == v.file else None)
            if t2 is None:
                return (v.name, 'skipped', 'anchor text absent')
            with open(p, 'w') as f:
                f.write(t2)
        try:
            import warnings
            warnings.simplefilter('ignore')
            compile(open(os.path.join(tmp, v.file)).read(), v.file, 'exec')
        except SyntaxError as e:
            return (v.name, 'bad-variant', 'edited file does not compile: %s' % e)
        rep = run_property(pid, tmp, 'quick', 0, quiet=True, write_evidence=False)
        # known findings still apply on the copy
        rep.quiet = True
        rep.finish(write_evidence=False)
        new_viol = [o for o in rep.obs if o.status == 'violation' and o.key() not in base_keys]
        if v.kind == 'break':
            hit = [o for o in new_viol if o.rule.startswith(v.expect or '')
                   and (v.function is None or o.function == v.function or o.function.startswith(v.function + '.'))]
            if hit:
                return (v.name, 'ok', '%s fired: %s' % (hit[0].rule, hit[0].why[:100]))
            if rep.errors:
                return (v.name, 'ok-error', 'analysis error (fail-closed): %s' % rep.errors[0][:120])
            return (v.name, 'blind', 'expected %s to fire%s; new violations: %s' % (
                v.expect, ' in ' + v.function if v.function else '', [(o.rule, o.function) for o in new_viol][:4]))
        else:
            if new_viol:
                o = new_viol[0]
                return (v.name, 'noisy', '%s fired on a behaviour-preserving edit: %s [%s] %s' % (o.rule, o.function, o.construct, o.why[:100]))
            if rep.errors:
                return (v.name, 'noisy', 'analysis error on a behaviour-preserving edit: %s' % rep.errors[0][:160])
            return (v.name, 'ok', 'silent')
    finally:
        shutil.rmtree(tmp, ignore_errors=True)


def run_for(pid, root, rep, seed=0, jobs=16):
    mod = importlib.import_module('sa.rules.' + pid)
    variants = list(getattr(mod, 'VARIANTS', []))
    if hasattr(mod, 'variants'):
        variants += list(mod.variants(root))
    base_keys = {o.key() for o in rep.obs if not o.ok}
    # generic behaviour-preserving variants: rename all locals of some of the functions this check reports on (choice driven by the seed)
    import random as _random
    fns = sorted({(o.module, part.strip()) for o in rep.obs for part in o.function.replace(' / ', '.').split('.')
                  if o.module.endswith('.py') and part.strip().isidentifier() and os.path.exists(os.path.join(root, o.module))})
    _random.Random(seed).shuffle(fns)
    for (module, fn) in fns[:6]:
        variants.append(rename_locals(module, fn))
    for (module, fn) in fns[:4]:
        variants.append(insert_noise(module, fn))
    for (module, fn) in fns[:5]:
        variants.append(swap_independent(module, fn, seed % 3))
    for (module, fn) in fns[:5]:
        variants.append(extract_temp(module, fn, seed % 4))
    for (module, fn) in fns[:5]:
        variants.append(api_synonym(module, fn, seed % 5))
    for (module, fn) in fns[:5]:
        variants.append(flip_compare(module, fn, seed % 6))
    for (module, fn) in fns[:6]:
        variants.append(guard_clause(module, fn, seed % 2))
    if not variants:
        rep.selftest = {'variants': 0}
        return
    args = [(pid, root, v, base_keys) for v in variants]
    with Pool(min(jobs, len(args))) as pool:
        res = pool.map(_run_variant, args, chunksize=1)
    summ = {'variants': len(res), 'ok': 0, 'skipped': 0, 'blind': 0, 'noisy': 0, 'ok-error': 0, 'bad-variant': 0, 'results': []}
    kinds = {v.name: v.kind for v in variants}
    for name, st, msg in res:
        summ[st] = summ.get(st, 0) + 1
        summ['results'].append({'variant': name, 'kind': kinds[name], 'status': st, 'detail': msg})
        if st in ('blind', 'noisy', 'bad-variant'):
            rep.error('selftest %s (%s): %s' % (name, st, msg))
    applied = summ['ok'] + summ['ok-error'] + summ['blind'] + summ['noisy']
    # generated transforms that find no site in a (small) function are not evidence of a stale self-test: only hand-written variants count
    not_applicable = sum(1 for name, st, msg in res if st == 'skipped' and 'transform not applicable' in (msg or ''))
    if applied < max(1, (len(res) - not_applicable) // 2):
        rep.error('selftest: only %d of %d variants applied to the current tree' % (applied, len(res)))
    rep.selftest = summ
    if not rep.quiet:
        print('selftest %s: %d variants, %d ok, %d fail-closed, %d skipped, %d blind, %d noisy' % (
            pid, len(res), summ['ok'], summ['ok-error'], summ['skipped'], summ['blind'], summ['noisy']))
        if os.environ.get('VERIF_SHOW_SKIPPED'):
            for r in summ['results']:
                if r['status'] == 'skipped':
                    print('  skipped: %s (%s)' % (r['variant'], r['detail']))


# ------------------------------------------------------------------ generic behaviour-preserving transforms
import ast as _ast
import functools as _functools


def _rename_locals(funcname, suffix, text):
    """Rename every local variable (not parameters, not globals/imports) of function `funcname` (top-level or nested, first match)
    by appending `suffix`; applied consistently inside the function's whole span (nested helpers included)."""
    try:
        tree = _ast.parse(text)
    except SyntaxError:
        return None
    target = None
    for n in _ast.walk(tree):
        if isinstance(n, (_ast.FunctionDef, _ast.AsyncFunctionDef)) and n.name == funcname:
            target = n
            break
    if target is None:
        return None
    params = set()
    nested_names = set()
    for n in _ast.walk(target):
        if isinstance(n, (_ast.FunctionDef, _ast.AsyncFunctionDef, _ast.Lambda)):
            a = n.args
            for x in a.posonlyargs + a.args + a.kwonlyargs:
                params.add(x.arg)
            if a.vararg:
                params.add(a.vararg.arg)
            if a.kwarg:
                params.add(a.kwarg.arg)
            if n is not target and not isinstance(n, _ast.Lambda):
                nested_names.add(n.name)
    glob = set()
    for n in _ast.walk(target):
        if isinstance(n, (_ast.Global, _ast.Nonlocal)):
            glob |= set(n.names)
        if isinstance(n, (_ast.Import, _ast.ImportFrom)):
            for al in n.names:
                glob.add((al.asname or al.name).split('.')[0])
    stored = {n.id for n in _ast.walk(target) if isinstance(n, _ast.Name) and isinstance(n.ctx, (_ast.Store, _ast.Del))}
    ren = stored - params - glob - nested_names
    ren = {x for x in ren if not x.startswith('__')}
    if not ren:
        return None
    edits = []
    for n in _ast.walk(target):
        if isinstance(n, _ast.Name) and n.id in ren:
            edits.append((n.lineno, n.col_offset, len(n.id), n.id + suffix))
    lines = text.split('\n')
    # col_offset is in utf-8 bytes; the package sources are ascii in code positions
    for (ln, col, ln_len, new) in sorted(edits, reverse=True):
        line = lines[ln - 1]
        b = line.encode('utf-8')
        if b[col:col + ln_len].decode('utf-8', 'replace') != new[:-len(suffix)]:
            return None
        lines[ln - 1] = (b[:col] + new.encode() + b[col + ln_len:]).decode('utf-8')
    return '\n'.join(lines)


def rename_locals(file, funcname, suffix='_r'):
    """neutral Variant: all locals of `funcname` renamed"""
    return Variant('neutral: locals of %s renamed' % funcname, 'neutral', file, transform=_functools.partial(_rename_locals, funcname, suffix))


def _insert_noise(funcname, text):
    """insert `pass` and a print call at the start of every block of function `funcname` (behaviour-preserving for all results)"""
    try:
        tree = _ast.parse(text)
    except SyntaxError:
        return None
    target = None
    for n in _ast.walk(tree):
        if isinstance(n, (_ast.FunctionDef, _ast.AsyncFunctionDef)) and n.name == funcname:
            target = n
            break
    if target is None:
        return None
    lines = text.split('\n')
    inserts = []
    for n in _ast.walk(target):
        for field in ('body', 'orelse'):
            blk = getattr(n, field, None)
            if isinstance(blk, list) and blk and isinstance(blk[0], _ast.stmt):
                first = blk[0]
                if n is target and isinstance(first, _ast.Expr) and isinstance(first.value, _ast.Constant) and isinstance(first.value.value, str):
                    if len(blk) < 2:
                        continue
                    first = blk[1]
                if field == 'orelse' and isinstance(n, _ast.If) and len(blk) == 1 and isinstance(blk[0], _ast.If) and blk[0].col_offset == n.col_offset:
                    continue      # elif chain
                if any(d.lineno == first.lineno for d in getattr(first, 'decorator_list', [])):
                    continue
                ln = first.lineno - len(getattr(first, 'decorator_list', []))
                inserts.append((min([first.lineno] + [d.lineno for d in getattr(first, 'decorator_list', [])]), first.col_offset))
    for ln, col in sorted(set(inserts), reverse=True):
        lines.insert(ln - 1, ' ' * col + "pass; print('dbg')")
    return '\n'.join(lines)


def insert_noise(file, funcname):
    return Variant('neutral: no-op statements inserted in %s' % funcname, 'neutral', file, transform=_functools.partial(_insert_noise, funcname))


def _swap_independent(funcname, which, text):
    """swap the `which`-th pair of adjacent, mutually independent simple assignments inside function `funcname`"""
    try:
        tree = _ast.parse(text)
    except SyntaxError:
        return None
    target = None
    for n in _ast.walk(tree):
        if isinstance(n, (_ast.FunctionDef, _ast.AsyncFunctionDef)) and n.name == funcname:
            target = n
            break
    if target is None:
        return None

    def rw(s):
        w, r = set(), set()
        for n in _ast.walk(s):
            if isinstance(n, _ast.Name):
                (w if isinstance(n.ctx, (_ast.Store, _ast.Del)) else r).add(n.id)
        # subscript/attribute stores write their base and read it
        tg = s.targets if isinstance(s, _ast.Assign) else [s.target]
        for t in tg:
            b = t
            while isinstance(b, (_ast.Subscript, _ast.Attribute)):
                b = b.value
            if isinstance(b, _ast.Name):
                w.add(b.id)
        if isinstance(s, _ast.AugAssign):
            r |= w
        has_call = any(isinstance(n, _ast.Call) for n in _ast.walk(s))
        return w, r, has_call
    pairs = []
    for n in _ast.walk(target):
        for field in ('body', 'orelse'):
            blk = getattr(n, field, None)
            if not isinstance(blk, list):
                continue
            for a, b in zip(blk, blk[1:]):
                if isinstance(a, (_ast.Assign, _ast.AugAssign)) and isinstance(b, (_ast.Assign, _ast.AugAssign)) and a.end_lineno < b.lineno \
                        and a.col_offset == b.col_offset:
                    wa, ra, ca = rw(a)
                    wb, rb, cb = rw(b)
                    if ca and cb:
                        continue      # two calls may share hidden state (rng draws): keep their order
                    if wa & (wb | rb) or wb & ra:
                        continue
                    pairs.append((a, b))
    if which >= len(pairs):
        return None
    a, b = pairs[which]
    lines = text.split('\n')
    sa = lines[a.lineno - 1:a.end_lineno]
    sb = lines[b.lineno - 1:b.end_lineno]
    mid = lines[a.end_lineno:b.lineno - 1]
    lines[a.lineno - 1:b.end_lineno] = sb + mid + sa
    return '\n'.join(lines)


def swap_independent(file, funcname, which=0):
    return Variant('neutral: independent statements %d swapped in %s' % (which, funcname), 'neutral', file, transform=_functools.partial(_swap_independent, funcname, which))


def _extract_temp(funcname, which, text):
    """introduce a temporary for the `which`-th call/arith sub-expression of an assignment RHS in function `funcname`
    (placed immediately before the statement; random draws and conditional sub-expressions are left alone)"""
    try:
        tree = _ast.parse(text)
    except SyntaxError:
        return None
    target = None
    for n in _ast.walk(tree):
        if isinstance(n, (_ast.FunctionDef, _ast.AsyncFunctionDef)) and n.name == funcname:
            target = n
            break
    if target is None:
        return None
    cands = []
    for st in _ast.walk(target):
        if not isinstance(st, _ast.Assign) or st.lineno != st.end_lineno:
            continue
        if not all(isinstance(t, (_ast.Name, _ast.Subscript)) for t in st.targets):
            continue
        for sub in _ast.walk(st.value):
            if sub is st.value:
                continue
            if isinstance(sub, (_ast.Call, _ast.BinOp)) and sub.lineno == sub.end_lineno == st.lineno:
                txt = _ast.unparse(sub)
                if 'rng' in txt or 'random' in txt or len(txt) < 8:
                    continue
                # skip sub-expressions under lazy operators / comprehensions / lambdas
                ok = True
                for anc in _ast.walk(st.value):
                    if isinstance(anc, (_ast.BoolOp, _ast.IfExp, _ast.ListComp, _ast.GeneratorExp, _ast.Lambda, _ast.SetComp, _ast.DictComp)) and any(x is sub for x in _ast.walk(anc)):
                        ok = False
                if ok:
                    cands.append((st, sub))
    if which >= len(cands):
        return None
    st, sub = cands[which]
    lines = text.split('\n')
    line = lines[st.lineno - 1]
    b = line.encode('utf-8')
    seg = b[sub.col_offset:sub.end_col_offset].decode('utf-8')
    name = 'tmp_x%d' % which
    new_line = (b[:sub.col_offset] + name.encode() + b[sub.end_col_offset:]).decode('utf-8')
    indent = line[:len(line) - len(line.lstrip())]
    lines[st.lineno - 1] = new_line
    lines.insert(st.lineno - 1, indent + name + ' = ' + seg)
    return '\n'.join(lines)


def extract_temp(file, funcname, which=0):
    return Variant('neutral: sub-expression %d of %s named by a temporary' % (which, funcname), 'neutral', file, transform=_functools.partial(_extract_temp, funcname, which))


_RED = {'sum', 'any', 'all', 'max', 'min', 'mean', 'std', 'prod', 'cumsum'}


def _api_synonym(funcname, which, text):
    """rewrite the `which`-th site of function `funcname` into an equivalent NumPy/Python spelling:
    np.sum(X, ...) <-> X.sum(...), np.dot(A, B) <-> A @ B, len(X) -> X.shape[0] (array parameters only), np.where(c)[0] -> np.flatnonzero(c),
    positional axis <-> axis=, T[i] op= E <-> T[i] = T[i] op E.  Single-line sites only."""
    try:
        tree = _ast.parse(text)
    except SyntaxError:
        return None
    target = None
    for n in _ast.walk(tree):
        if isinstance(n, (_ast.FunctionDef, _ast.AsyncFunctionDef)) and n.name == funcname:
            target = n
            break
    if target is None:
        return None
    U = _ast.unparse
    cands = []      # (node, replacement text)
    for n in _ast.walk(target):
        if getattr(n, 'lineno', None) is None or n.lineno != getattr(n, 'end_lineno', None):
            continue
        if isinstance(n, _ast.Call) and isinstance(n.func, _ast.Attribute) and isinstance(n.func.value, _ast.Name) and n.func.value.id == 'np':
            a = n.func.attr
            if a in _RED and n.args and not any(isinstance(x, _ast.Starred) for x in n.args) and isinstance(n.args[0], (_ast.Name, _ast.Subscript)):
                rest = [U(x) for x in n.args[1:]] + ['%s=%s' % (k.arg, U(k.value)) for k in n.keywords]
                recv = U(n.args[0])
                cands.append((n, '%s.%s(%s)' % (recv, a, ', '.join(rest))))
                if len(n.args) == 1 and any(k.arg == 'axis' for k in n.keywords) and len(n.keywords) == 1:
                    cands.append((n, 'np.%s(%s, %s)' % (a, recv, U(n.keywords[0].value))))
            elif a == 'dot' and len(n.args) == 2 and not n.keywords:
                l, r = n.args
                lt = U(l) if isinstance(l, (_ast.Name, _ast.Subscript, _ast.Call, _ast.Attribute)) else '(%s)' % U(l)
                rt = U(r) if isinstance(r, (_ast.Name, _ast.Subscript, _ast.Call, _ast.Attribute)) else '(%s)' % U(r)
                cands.append((n, '(%s @ %s)' % (lt, rt)))
        elif isinstance(n, _ast.Call) and isinstance(n.func, _ast.Attribute) and n.func.attr in _RED and isinstance(n.func.value, (_ast.Name, _ast.Subscript)) \
                and not (isinstance(n.func.value, _ast.Name) and n.func.value.id in ('np', 'rng', 'random')):
            args = [U(n.func.value)] + [U(x) for x in n.args] + ['%s=%s' % (k.arg, U(k.value)) for k in n.keywords]
            cands.append((n, 'np.%s(%s)' % (n.func.attr, ', '.join(args))))
        elif isinstance(n, _ast.Subscript) and isinstance(n.ctx, _ast.Load) and isinstance(n.value, _ast.Call) and U(n.value.func) == 'np.where' \
                and len(n.value.args) == 1 and isinstance(n.slice, _ast.Constant) and n.slice.value == 0:
            cands.append((n, 'np.flatnonzero(%s)' % U(n.value.args[0])))
        elif isinstance(n, _ast.AugAssign) and isinstance(n.target, _ast.Subscript) and isinstance(n.op, (_ast.Add, _ast.Sub, _ast.Mult)):
            op = {'Add': '+', 'Sub': '-', 'Mult': '*'}[type(n.op).__name__]
            v = U(n.value)
            if isinstance(n.value, (_ast.BinOp, _ast.Compare, _ast.BoolOp, _ast.IfExp)):
                v = '(%s)' % v
            cands.append((n, '%s = %s %s %s' % (U(n.target), U(n.target), op, v)))
        elif isinstance(n, _ast.Assign) and len(n.targets) == 1 and isinstance(n.targets[0], _ast.Subscript) and isinstance(n.value, _ast.BinOp) \
                and isinstance(n.value.op, (_ast.Add, _ast.Mult)) and U(n.value.left) == U(n.targets[0]):
            op = {'Add': '+', 'Mult': '*'}[type(n.value.op).__name__]
            cands.append((n, '%s %s= %s' % (U(n.targets[0]), op, U(n.value.right))))
    cands.sort(key=lambda c: (c[0].lineno, c[0].col_offset))
    if which >= len(cands):
        return None
    n, rep_ = cands[which]
    lines = text.split('\n')
    b = lines[n.lineno - 1].encode('utf-8')
    tail = b[n.end_col_offset:]
    lines[n.lineno - 1] = (b[:n.col_offset] + rep_.encode('utf-8') + tail).decode('utf-8')
    return '\n'.join(lines)


def api_synonym(file, funcname, which=0):
    return Variant('neutral: equivalent NumPy spelling at site %d of %s' % (which, funcname), 'neutral', file, transform=_functools.partial(_api_synonym, funcname, which))


def _flip_compare(funcname, which, text):
    """write the `which`-th single comparison of function `funcname` the other way round (a < b <-> b > a, a == b <-> b == a)"""
    try:
        tree = _ast.parse(text)
    except SyntaxError:
        return None
    target = None
    for n in _ast.walk(tree):
        if isinstance(n, (_ast.FunctionDef, _ast.AsyncFunctionDef)) and n.name == funcname:
            target = n
            break
    if target is None:
        return None
    flip = {_ast.Lt: '>', _ast.Gt: '<', _ast.LtE: '>=', _ast.GtE: '<=', _ast.Eq: '==', _ast.NotEq: '!='}
    cands = [n for n in _ast.walk(target) if isinstance(n, _ast.Compare) and len(n.ops) == 1 and type(n.ops[0]) in flip
             and n.lineno == n.end_lineno]
    cands.sort(key=lambda c: (c.lineno, c.col_offset))
    if which >= len(cands):
        return None
    n = cands[which]

    def par(e):
        t = _ast.unparse(e)
        return t if isinstance(e, (_ast.Name, _ast.Constant, _ast.Subscript, _ast.Attribute, _ast.Call)) else '(%s)' % t
    rep_ = '(%s %s %s)' % (par(n.comparators[0]), flip[type(n.ops[0])], par(n.left))
    lines = text.split('\n')
    b = lines[n.lineno - 1].encode('utf-8')
    lines[n.lineno - 1] = (b[:n.col_offset] + rep_.encode('utf-8') + b[n.end_col_offset:]).decode('utf-8')
    return '\n'.join(lines)


def flip_compare(file, funcname, which=0):
    return Variant('neutral: comparison %d of %s written the other way round' % (which, funcname), 'neutral', file,
                   transform=_functools.partial(_flip_compare, funcname, which))


def _guard_clause(funcname, which, text):
    """turn the `which`-th `if c: <block>` that ends a loop body of function `funcname` (no else) into `if not (c): continue` + <block>"""
    try:
        tree = _ast.parse(text)
    except SyntaxError:
        return None
    target = None
    for n in _ast.walk(tree):
        if isinstance(n, (_ast.FunctionDef, _ast.AsyncFunctionDef)) and n.name == funcname:
            target = n
            break
    if target is None:
        return None
    cands = []
    for lp in _ast.walk(target):
        if isinstance(lp, (_ast.For, _ast.While)) and lp.body and isinstance(lp.body[-1], _ast.If) and not lp.body[-1].orelse:
            st = lp.body[-1]
            if st.test.lineno == st.test.end_lineno and st.body[0].lineno > st.lineno:
                cands.append(st)
    cands.sort(key=lambda c: c.lineno)
    if which >= len(cands):
        return None
    st = cands[which]
    lines = text.split('\n')
    head = lines[st.lineno - 1]
    indent = head[:len(head) - len(head.lstrip())]
    first, last = st.body[0].lineno, st.end_lineno
    # comment lines between the header and the first statement stay where they are
    block = lines[st.lineno:last]
    inner = None
    for ln in block:
        if ln.strip():
            inner = ln[:len(ln) - len(ln.lstrip())]
            break
    if inner is None or not inner.startswith(indent) or len(inner) <= len(indent):
        return None
    step = len(inner) - len(indent)
    new_block = []
    for ln in block:
        if ln.strip() and not ln.startswith(indent + ' ' * step):
            return None
        new_block.append(ln[step:] if ln.strip() else ln)
    cond = _ast.unparse(st.test)
    lines[st.lineno - 1:last] = [indent + 'if not (%s):' % cond, indent + ' ' * step + 'continue'] + new_block
    return '\n'.join(lines)


def guard_clause(file, funcname, which=0):
    return Variant('neutral: trailing conditional %d of a loop in %s turned into a guard clause' % (which, funcname), 'neutral', file,
                   transform=_functools.partial(_guard_clause, funcname, which))
