#!/bin/bash
# usage: tools/neutral_eval.sh <key>  -- confirm a behaviour-preserving refactoring from /tmp/wt-<key> and run all checks against it (expected: silence)
set -u
key=$1; wt=/tmp/wt-$key
out=/verif/neutral/$key
mkdir -p $out
cd $wt || exit 2
git diff -- bct > $out/patch.diff
[ -s $out/patch.diff ] || { echo "no change applied in $wt"; exit 2; }
cp diff_$key.py $out/diff_test.py 2>/dev/null
echo "== differential test"; timeout 1800 /venv/bin/python diff_$key.py > $out/diff.log 2>&1; rc=$?; tail -3 $out/diff.log; echo "diff rc=$rc"
cd /verif
git -C /repo apply $out/patch.diff || { echo "patch does not apply to /repo"; exit 2; }
fired=""
for c in $(python3-vt -c "import json;print(' '.join(x['property_id'] for x in json.load(open('/verif/MANIFEST.json'))['checks']))"); do
  ./check $c > /tmp/neu_$c.log 2>&1; r=$?
  if [ $r -ne 0 ]; then fired="$fired $c(rc=$r)"; grep -E "^  |ANALYSIS-ERROR" /tmp/neu_$c.log | head -6 | cut -c1-300; fi
done
git -C /repo checkout -- .
echo "CHECKS FIRING (false alarms if the refactoring is neutral):$fired"
python3-vt - <<PY
import json
json.dump({"kind":"behaviour-preserving refactoring","diff_test_rc":$rc,"checks_firing":"$fired".split()}, open("$out/meta.json","w"), indent=1)
PY
for c in $(echo $fired | tr ' ' '\n' | sed 's/(.*//'); do ./check $c >/dev/null 2>&1; done
