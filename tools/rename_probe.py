#!/usr/bin/env python3
"""Robustness probe (development aid, not a registered check): for every function a check reports on, rename all its locals
and re-run the check on a scratch copy; list the rules that fire on this behaviour-preserving edit."""
import os, shutil, sys, tempfile
from multiprocessing import Pool
here = os.path.dirname(os.path.dirname(os.path.abspath(__file__)))
sys.path.insert(0, here)
from sa.main import run_property
from sa.selftest import copy_tree, _rename_locals
from sa.core.loader import Program


def job(a):
    pid, root, relpath, fname, base = a
    tmp = tempfile.mkdtemp(prefix='sa-rename-')
    try:
        copy_tree(root, tmp)
        p = os.path.join(tmp, relpath)
        t2 = _rename_locals(fname, '_r', open(p).read())
        if t2 is None:
            return (pid, fname, 'n/a', [])
        open(p, 'w').write(t2)
        rep = run_property(pid, tmp, 'quick', 0, quiet=True, write_evidence=False)
        rep.finish(write_evidence=False)
        # keys contain renamed constructs: compare by (rule, function) multiset instead
        new = [(o.rule, o.function, o.construct[:70]) for o in rep.obs if o.status == 'violation']
        newk = [x for x in new if (x[0], x[1]) not in base]
        return (pid, fname, 'err' if rep.errors else 'ok', newk + [('ANALYSIS-ERROR', '', e[:100]) for e in rep.errors])
    finally:
        shutil.rmtree(tmp, ignore_errors=True)


def main():
    pids = sys.argv[1:] or ['C%02d' % i for i in range(1, 21)]
    root = '/repo'
    prog = Program(root)
    jobs = []
    for pid in pids:
        rep = run_property(pid, root, 'quick', 0, quiet=True, write_evidence=False)
        rep.finish(write_evidence=False)
        base = {(o.rule, o.function) for o in rep.obs if o.status in ('violation', 'known')}
        fns = set()
        for o in rep.obs:
            for part in o.function.replace(' / ', '.').split('.'):
                fns.add((o.module, part.strip()))
        for (module, fn) in sorted(fns):
            if not module.endswith('.py') or not fn.isidentifier() or not os.path.exists(os.path.join(root, module)):
                continue
            jobs.append((pid, root, module, fn, base))
    with Pool(16) as pool:
        res = pool.map(job, jobs, chunksize=2)
    bad = 0
    for pid, fn, st, new in res:
        if new:
            bad += 1
            print(pid, fn, st)
            for x in new[:4]:
                print('     ', x)
    print('probed %d (check, function) pairs; %d with new reports' % (len(res), bad))


if __name__ == '__main__':
    main()
