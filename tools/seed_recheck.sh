#!/bin/bash
# usage: tools/seed_recheck.sh [name ...]  -- apply each stored seeded patch to /repo, run all claimed quick checks, restore, update meta.json
cd /verif
names="$@"; [ -z "$names" ] && names=$(ls seeded)
for name in $names; do
  out=/verif/seeded/$name
  if grep -q obsolete_since $out/meta.json 2>/dev/null; then echo "$name: obsolete (code it patches was replaced by a fix)"; continue; fi
  git -C /repo apply $out/patch.diff || { echo "$name: patch does not apply"; continue; }
  fired=""
  for c in $(python3-vt -c "import json;print(' '.join(x['property_id'] for x in json.load(open('/verif/MANIFEST.json'))['checks']))"); do
    ./check $c > /tmp/seed_$c.log 2>&1; rc=$?
    if [ $rc -ne 0 ]; then rules=$(grep -E "^  " /tmp/seed_$c.log | sed -E 's/.*rule=([^ ]+).*/\1/' | sort -u | tr '\n' ','); fired="$fired $c(rc=$rc:$rules)"; fi
  done
  git -C /repo checkout -- .
  echo "$name ->$fired"
  python3-vt - <<PY
import json
p="$out/meta.json"; m=json.load(open(p)); m["checks_firing"]="$fired".split(); json.dump(m,open(p,"w"),indent=1)
PY
done
for c in $(python3-vt -c "import json;print(' '.join(x['property_id'] for x in json.load(open('/verif/MANIFEST.json'))['checks']))"); do ./check $c >/dev/null 2>&1 || echo "CLEAN TREE FAILS $c"; done
