#!/bin/bash
# usage: tools/partial_recheck.sh "C03 C08 ..." -- after changing only some rule modules: apply every stored seeded change and every stored
# behaviour-preserving refactoring, run just the named quick checks, restore, and print where the outcome differs from the stored meta.json
cd /verif
checks="$1"
for kind in seeded neutral; do
  for out in /verif/$kind/*/; do
    name=$(basename $out)
    [ -f $out/patch.diff ] || continue
    grep -q obsolete_since $out/meta.json 2>/dev/null && continue
    git -C /repo apply $out/patch.diff 2>/dev/null || { echo "$kind/$name: patch does not apply"; continue; }
    now=""
    for c in $checks; do ./check $c > /tmp/pr_$c.log 2>&1; rc=$?; [ $rc -ne 0 ] && now="$now $c(rc=$rc)"; done
    git -C /repo checkout -- .
    was=$(python3-vt -c "
import json,re,sys
m=json.load(open('$out/meta.json')); f=m.get('checks_firing') or []
f=[x if x.startswith('C') else 'C'+x for x in f if x.strip()]
print(' '.join(sorted(re.sub(r':.*\)', ')', x) for x in f if x[:3] in '$checks'.split())))")
    now=$(echo $now | tr ' ' '\n' | sort | tr '\n' ' ' | sed 's/ $//')
    [ "$was" != "$now" ] && echo "$kind/$name: was [$was] now [$now]"
  done
done
for c in $checks; do ./check $c >/dev/null 2>&1 || echo "CLEAN TREE FAILS $c"; done
echo done
