#!/usr/bin/env python3
"""Regenerates /verif/MANIFEST.json from tools/manifest_table.py (kept valid at all times)."""
import json, os, sys
here = os.path.dirname(os.path.dirname(os.path.abspath(__file__)))
sys.path.insert(0, os.path.join(here, 'tools'))
import manifest_table as T

checks = []
for pid in sorted(T.CHECKS):
    c = T.CHECKS[pid]
    checks.append({
        'property_id': pid,
        'quick_cmd': './check %s --tier quick' % pid,
        'thorough_cmd': './check %s --tier thorough' % pid,
        'evidence_file': 'evidence/%s.json' % pid,
        'replay_cmd_template': './check %s --replay {path}' % pid,
        'engine': c['engine'],
        'level_claimed': {'category': 'other', 'text': c['text'], 'design_ref': 'DESIGN.md section 5, ' + pid},
        'level_note': c['note'],
        'technique': c['technique'],
    })
na = [{'property_id': k, 'reason': v} for k, v in sorted(T.NOT_APPLICABLE.items()) if k not in T.CHECKS]
m = {
    'version': 1,
    'setup_cmd': 'python3-vt -c "import compileall,sys; sys.exit(0 if compileall.compile_dir(\'sa\', quiet=1, legacy=False) else 1)" && python3-vt -c "import networkx, sympy, jsonschema"',
    'hooks': {'guard': 'BCTPY_VERIF', 'enable': 'none needed: the checks read source only; no hook commits exist',
              'baseline_off_cmd': 'cd /repo && /venv/bin/python -m pytest -ra -q -p no:cacheprovider --timeout=900 --continue-on-collection-errors',
              'source_commits': [], 'add_only': True},
    'engines': T.ENGINES,
    'checks': checks,
    'not_applicable': na,
    'notes': T.NOTES,
}
with open(os.path.join(here, 'MANIFEST.json'), 'w') as f:
    json.dump(m, f, indent=1)
try:
    import jsonschema
    jsonschema.validate(m, json.load(open('/root/.vp/MANIFEST.schema.json')))
    print('MANIFEST.json valid: %d checks, %d not_applicable' % (len(checks), len(na)))
except ImportError:
    print('written (jsonschema not available to validate)')
