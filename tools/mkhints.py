#!/usr/bin/env python3
"""Regenerates sa/hints.json (naming hints for alpha-normalisation, see sa/core/alpha.py) from the current /repo tree."""
import json, os, sys
here = os.path.dirname(os.path.dirname(os.path.abspath(__file__)))
sys.path.insert(0, here)
from sa.core.loader import Program
from sa.core.alpha import build_hints, HINTS
h = build_hints(Program(sys.argv[1] if len(sys.argv) > 1 else '/repo'))
with open(HINTS, 'w') as f:
    json.dump(h, f, indent=0, sort_keys=True)
print('functions with hints:', len(h), 'size', os.path.getsize(HINTS))
