#!/bin/bash
# usage: tools/seed_eval.sh <name> <worktree> <pid>   -- confirm a seeded change and run the checks against it
set -u
name=$1; wt=$2; pid=$3
out=/verif/seeded/$name
mkdir -p $out
cd $wt || exit 2
git diff -- bct > $out/patch.diff
[ -s $out/patch.diff ] || { echo "no change applied in $wt"; exit 2; }
demo=$(ls demo_*.py | head -1)
cp $demo $out/demo.py
echo "== demo with change"; PYTHONPATH=$wt /venv/bin/python $demo > $out/demo_with.log 2>&1; rc_with=$?; tail -3 $out/demo_with.log
echo "== tests with change"; PYTHONPATH=$wt timeout 1500 /venv/bin/python -m pytest -q -p no:cacheprovider --timeout=900 -n 8 2>&1 | tail -1 > $out/tests_with.log; cat $out/tests_with.log
git checkout -q -- bct
echo "== demo without change"; PYTHONPATH=$wt /venv/bin/python $demo > $out/demo_without.log 2>&1; rc_without=$?; tail -2 $out/demo_without.log
git apply $out/patch.diff
echo "demo rc with=$rc_with without=$rc_without"
# run checks against /repo with the patch applied
cd /verif
git -C /repo apply $out/patch.diff || { echo "patch does not apply to /repo"; exit 2; }
fired=""
for c in $(python3-vt -c "import json;print(' '.join(x['property_id'] for x in json.load(open('/verif/MANIFEST.json'))['checks']))"); do
  ./check $c > /tmp/seed_$c.log 2>&1; rc=$?
  if [ $rc -ne 0 ]; then fired="$fired $c(rc=$rc)"; grep -E "^  |ANALYSIS-ERROR" /tmp/seed_$c.log | head -4 | cut -c1-260; fi
done
git -C /repo checkout -- .
echo "CHECKS FIRING:$fired"
python3-vt - <<PY
import json
json.dump({"breaks_property":"$pid","demo_rc_with_change":$rc_with,"demo_rc_without_change":$rc_without,
 "tests_with_change":open("$out/tests_with.log").read().strip(),"checks_firing":"$fired".split(),
 "ran":["demo with/without change in scratch worktree","pytest -n 8 with change","all claimed quick checks against /repo with patch applied, then git checkout"]},
 open("$out/meta.json","w"),indent=1)
PY
# restore evidence files of the clean tree
for c in $(echo $fired | tr ' ' '\n' | sed 's/(.*//'); do ./check $c >/dev/null 2>&1; done
