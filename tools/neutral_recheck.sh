#!/bin/bash
# usage: tools/neutral_recheck.sh [key ...]  -- apply each stored behaviour-preserving refactoring, run all quick checks, restore; prints checks that fire
cd /verif
names="$@"; [ -z "$names" ] && names=$(ls neutral | grep -v "\.log")
tot=0; quiet=0
for name in $names; do
  out=/verif/neutral/$name
  [ -f $out/patch.diff ] || continue
  git -C /repo apply $out/patch.diff || { echo "$name: patch does not apply"; continue; }
  fired=""
  for c in $(python3-vt -c "import json;print(' '.join(x['property_id'] for x in json.load(open('/verif/MANIFEST.json'))['checks']))"); do
    ./check $c > /tmp/neu_$c.log 2>&1; rc=$?
    if [ $rc -ne 0 ]; then rules=$(grep -E "^  " /tmp/neu_$c.log | sed -E 's/.*rule=([^ ]+).*/\1/' | sort -u | tr '\n' ','); [ -z "$rules" ] && rules=$(grep -m1 ANALYSIS /tmp/neu_$c.log | cut -c1-120); fired="$fired $c(rc=$rc:$rules)"; cp /tmp/neu_$c.log $out/last_$c.log; fi
  done
  git -C /repo checkout -- .
  tot=$((tot+1)); [ -z "$fired" ] && quiet=$((quiet+1))
  echo "$name ->$fired"
  python3-vt - <<PY
import json
p="$out/meta.json"; m=json.load(open(p)); m["checks_firing"]="$fired".split(' C') if "$fired" else []; json.dump(m,open(p,"w"),indent=1)
PY
done
echo "silent on $quiet of $tot refactorings"
for c in $(python3-vt -c "import json;print(' '.join(x['property_id'] for x in json.load(open('/verif/MANIFEST.json'))['checks']))"); do ./check $c >/dev/null 2>&1 || echo "CLEAN TREE FAILS $c"; done
