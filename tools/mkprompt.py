"""usage: python3-vt tools/mkprompt.py <key> <pid> "<variety hint>"  -- writes /tmp/prompt-<key>.txt for a seeding sub-agent and creates its worktree"""
import json, subprocess, sys
key, pid, hint = sys.argv[1], sys.argv[2], sys.argv[3]
prop = [json.loads(l) for l in open('/verif/properties.jsonl') if json.loads(l)['id'] == pid][0]
wt = '/tmp/wt-%s' % key
q = prop['quantifier']['text'] if isinstance(prop.get('quantifier'), dict) else prop.get('quantifier')
T = open('/verif/tools/prompt_template.txt').read()
txt = T.replace('{WT}', wt).replace('{PID}', pid).replace('{TITLE}', prop['title']).replace('{STATEMENT}', prop['statement']).replace('{QUANT}', q).replace('{HINT}', hint)
open('/tmp/prompt-%s.txt' % key, 'w').write(txt)
subprocess.run(['git', '-C', '/repo', 'worktree', 'add', '--detach', '-f', wt, 'HEAD'], check=True, stdout=subprocess.DEVNULL, stderr=subprocess.DEVNULL)
subprocess.run(['cp', '/repo/bct/algorithms/motif34lib.mat', wt + '/bct/algorithms/'], check=False)
print('/tmp/prompt-%s.txt' % key)
