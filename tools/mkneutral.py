"""usage: python3-vt tools/mkneutral.py <key> "<target functions>"  -- prompt + worktree for a behaviour-preserving refactoring agent"""
import subprocess, sys
key, targets = sys.argv[1], sys.argv[2]
wt = '/tmp/wt-%s' % key
T = open('/verif/tools/prompt_neutral.txt').read()
open('/tmp/prompt-%s.txt' % key, 'w').write(T.replace('{WT}', wt).replace('{KEY}', key).replace('{TARGETS}', targets))
subprocess.run(['git', '-C', '/repo', 'worktree', 'add', '--detach', '-f', wt, 'HEAD'], check=True, stdout=subprocess.DEVNULL, stderr=subprocess.DEVNULL)
subprocess.run(['cp', '/repo/bct/algorithms/motif34lib.mat', wt + '/bct/algorithms/'], check=False)
