"""usage: python3-vt tools/mkneutral.py <key> "<target functions>"  -- prompt + worktree for a behaviour-preserving refactoring agent"""
import subprocess, sys
key, targets = sys.argv[1], sys.argv[2]
kind = sys.argv[3] if len(sys.argv) > 3 else None
wt = '/tmp/wt-%s' % key
T = open('/verif/tools/prompt_light.txt' if kind else '/verif/tools/prompt_neutral.txt').read()
if kind:
    T = T.replace('{KIND}', kind)
open('/tmp/prompt-%s.txt' % key, 'w').write(T.replace('{WT}', wt).replace('{KEY}', key).replace('{TARGETS}', targets))
subprocess.run(['git', '-C', '/repo', 'worktree', 'add', '--detach', '-f', wt, 'HEAD'], check=True, stdout=subprocess.DEVNULL, stderr=subprocess.DEVNULL)
subprocess.run(['cp', '/repo/bct/algorithms/motif34lib.mat', wt + '/bct/algorithms/'], check=False)
