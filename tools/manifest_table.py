NOTES = ('Static analysis only: every check parses /repo/bct with ast on each run (no import of bct, no execution, no solver). '
         'Exit 0 = all obligations discharged or matched a listed known finding; 1 = VIOLATION; 2 = ANALYSIS-ERROR '
         '(anchor vanished / rule matched fewer sites than its floor / self-test found a blind or noisy rule).')

ENGINES = [
    {'name': 'core', 'path': 'sa/core', 'serves_properties': [], 'kind_free_text': 'ast loader, import/call resolution, statement CFG with dominators, report/evidence'},
    {'name': 'callgraph', 'path': 'sa/engines/callgraph.py', 'serves_properties': ['C05', 'C13'], 'kind_free_text': 'whole-package call graph over resolved callees'},
    {'name': 'swapkernel', 'path': 'sa/engines/swapkernel.py', 'serves_properties': ['C01', 'C06', 'C11'], 'kind_free_text': 'finite-state abstract interpretation of rewiring attempts'},
    {'name': 'labels', 'path': 'sa/engines/labels.py', 'serves_properties': ['C14', 'C02'], 'kind_free_text': 'label typestate / taint dataflow'},
    {'name': 'accforms', 'path': 'sa/engines/accforms.py', 'serves_properties': ['C07', 'C02'], 'kind_free_text': 'accumulator form inference for greedy modularity optimisers'},
    {'name': 'alias', 'path': 'sa/engines/alias.py', 'serves_properties': ['C13', 'C17', 'C01'], 'kind_free_text': 'may-alias/may-mutate abstract interpretation with interprocedural summaries'},
    {'name': 'pattern+canon', 'path': 'sa/core/pattern.py', 'serves_properties': ['C17'], 'kind_free_text': 'AST templates with metavariables; sympy normal forms (term rewriting, no evaluation)'},
    {'name': 'selftest', 'path': 'sa/selftest.py', 'serves_properties': [], 'kind_free_text': 'thorough tier: breaking and neutral source variants in a temp copy; blind/noisy rule => exit 2'},
]

PENDING = 'check not built yet in this session; see DESIGN.md section 5 for the planned static rule'
NOT_APPLICABLE = {('C%02d' % i): PENDING for i in range(1, 21)}

CHECKS = {
    'C03': {
        'engine': 'obligations + siblings',
        'technique': 'sentinel typestate / statement-order obligations, AST templates for relaxation kernels and efficiency formulas, statement-level clone comparison of private vs public distance routines',
        'text': 'Only the shape-level part is decided: the 0 -> inf -> diagonal-reset order after each search and where reachability flags come from; initial inf '
                'off the diagonal for the label-correcting routines; operands, diagonal exclusion and n^2-n divisor of the global efficiencies, means over the '
                'retained entries in charpath; the BFS/Dijkstra/Floyd relaxation kernels (add n to newly reached pairs only, keep the minimum, strict '
                'comparison, hops on strict improvement, every node of a set settled together is relaxed from -- no early exit of that loop); private distance routines of efficiency_* agree with distance_bin/distance_wei.',
        'note': 'NOT decided (the bulk of the property): that each algorithm yields the minimum over all paths, tie handling, agreement between the five '
                'routines. These quantify over runtime values; a different technique family (exhaustive small-graph comparison against an oracle) is needed.',
    },
    'C04': {
        'engine': 'obligations',
        'technique': 'loop-carried flow-dependence scan over per-node loops (pinned-index analysis), early-exit scan of node loops, role-symmetry comparison in loops over unordered pairs, duplicate-position scan of fancy-index stores (coordinates of a two-output np.where used singly), who-may-call on eigendecompositions plus def-use of eigenvector selection, literal-index scan on connection-matrix axes, order-array obligations shared with C08',
        'text': 'Necessary conditions of equivariance on all 87 deterministic routines of the eight anchored modules: per-node loops have no flow dependence '
                'between different nodes through an array updated in place and are never left early (58 loops); loops over unordered pairs extract the same '
                'quantities for both nodes; no store is indexed by one coordinate array of a two-output np.where alone (duplicate positions keep the last write); '
                'spectral sums use eigh and single eigenvectors are selected by the decomposition\'s own eigenvalues; no integer literal indexes a node axis of a '
                'connection matrix; the zero-initialised visiting-order arrays of the Brandes routines are completely overwritten before use.',
        'note': 'Equivariance itself (tie-breaking in argmax/argmin, rounding, algebraic identities) is NOT decided. The Floyd-Warshall k-loop is exempted by name '
                'with a reason. gtom violates the first condition: KNOWN-FINDING (same loop as the MATLAB original).',
    },
    'C10': {
        'engine': 'valnum + siblings',
        'technique': 'specialisation equivalence by term rewriting under the 0/1 assumption and sympy normal forms; clone and feature agreement re-used from C03/C08/C15; use-before-binarize scan',
        'text': 'clustering_coef_wd -> _bd, transitivity_wd -> _bd, strengths -> degrees: the weighted result, rewritten with cuberoot(x)=x, (x!=0)=x, binarize(x)=x, '
                'has the same normal form as the binary result, hence equal values on every 0/1 matrix; in/out degrees are column/row sums (equal to the undirected '
                'degree on symmetric input); private/public distance routines are clones; the weighted search settles all nodes of equal length together and '
                'relaxes from each of them (on 0/1 input every level is such a set); Brandes and k-core siblings agree feature by feature; routines '
                'documented to ignore weights see their argument only through binarize or a nonzero test.',
        'note': 'NOT decided: pairs implemented by different algorithms (*_wu vs *_bu, distance_wei vs distance_bin, betweenness_wei vs betweenness_bin, '
                'efficiency_wei vs efficiency_bin, directed vs undirected clustering/transitivity on symmetric input, assortativity).',
    },
    'C12': {
        'engine': 'obligations',
        'technique': 'statement-order and same-mask obligations in the Floyd-Warshall k-loop, typestate obligations on the hop walk over the finished next-hop table (start, count, advance, stop on arrival, rounds), slot-coverage of path retrieval, all-or-nothing update discipline of the navigation counters (AST templates + block order)',
        'text': 'Floyd: improvement mask taken from the lengths before they are replaced; next hops updated under that mask with the first hop towards k; '
                'initial next hops; diagonals reset; hop counts obtained by walking the finished next-hop table (cursor starts at the row node towards the column '
                'node, exactly the walking pairs get one hop and move per round, pairs leave on arrival, at least n-1 rounds, no other writes) so that the '
                'hop table and the next-hop table agree by construction (a genuine rounding defect of the independent-table version was found by this rule and repaired). retrieve_shortest_path: hops+1 slots, slot 0 = source, every later slot written once by following '
                'Pmat towards the same target, empty iff hops == 0. navigation_wu: next node is a neighbour nearest to the target; the three counters advance '
                'with the same (current, next) pair or are all set to inf; results recorded together per pair; success-ratio formula.',
        'note': 'That following Pmat reaches the target with the reported length is NOT decided (semantic fact about the algorithm; relies on positive lengths).',
    },
    'C15': {
        'engine': 'obligations + siblings',
        'technique': 'dominance / single-exit obligations on the peeling loop, paired row/column zeroing, def-use of the degree vector, resolved callee per variant, feature agreement of the three siblings, ordering/guard rules for the coreness assignment',
        'text': 'kcore_bd, kcore_bu, score_wu: copy before the loop, argument untouched; degrees/strengths recomputed from the working copy as the first '
                'statement of every iteration by the matching routine; peel set = {0 < d < bound}; rows and columns of exactly that set zeroed, nothing '
                'else written; the loop ends only when the set is empty; size = #(d > 0) of the last vector; peel records once per iteration; the three '
                'siblings agree. kcoreness: k ascends over range(N) and the loop is left only when a core is empty, core and kn[k] from one call, membership from the returned core (total degree for '
                'the directed variant), unguarded assignment.',
        'note': 'Maximality and nestedness follow from the fixed-point argument given these premises; that argument is cited, not mechanised.',
    },
    'C08': {
        'engine': 'obligations + siblings',
        'technique': 'fill-pointer typestate of the visiting-order array, exhaustive relaxation-branch obligations, dependency-formula templates, per-source allocation (dominance in the source loop), feature agreement between sibling routines',
        'text': 'For the three Brandes-style routines: settled nodes are recorded by `Q[q] = v; q -= 1`, so the free slots after the search are Q[:q+1] and '
                'must receive exactly the unreachable set before the dependency loop; strict improvement resets path count and predecessor row, ties add, '
                'nothing else writes them; in the breadth-first routines the fill is guarded only by tests that hold whenever a slot is free; dependencies are '
                'propagated over Q[:n-1] with (1+DP[w]) NP[v]/NP[w] to every predecessor unconditionally (no continue/break in the loop), the loop over the '
                'nodes settled together is never left early, identical for node and edge '
                'accumulators; all per-source state is created inside the source loop; node part of edge_betweenness_wei equals betweenness_wei and the '
                'binary/weighted edge routines agree; betweenness_bin keeps its sentinel order, recursion and column sum.',
        'note': 'That these bookkeeping facts yield the exact shortest-path fractions (Brandes\' theorem, tie handling by exact float equality) is cited, '
                'not decided. The matrix-power routine betweenness_bin is only matched against its published form.',
    },
    'C19': {
        'engine': 'valnum + obligations + siblings',
        'technique': 'same-source def-use rule for the p-value array, value-numbered t statistics compared with the textbook formulas per tail branch, AST templates for threshold / labelling / sizing, feature agreement between nbs.py and nbs_parallel.py',
        'text': 'The p-value of component i is #(returned null >= size_i)/k (same array as returned, non-strict, divisor k); both t statistics equal the '
                'pooled-variance / paired formulas, both -> abs, left -> negated, right -> identity, zero variance -> 0, tail strings validated; strict '
                'threshold in observed and permuted branches; component i labelled i+1 with its edge count taken from the same node set before '
                'relabelling; the permutation branch mirrors the observed one; serial and parallel implementations agree feature by feature.',
        'note': 'Component finding is delegated to C16. Statistical validity of the permutation scheme and invariance under swapping groups are not decided '
                'beyond the formula symmetry (t changes sign when x and y are exchanged is implied by the formula match).',
    },
    'C18': {
        'engine': 'valnum + obligations',
        'technique': 'who-may-call on eigendecomposition routines (eigh for spectral sums), def-use of eigenvector selection, slot/power constant propagation in findwalks, AST templates for the PageRank system, value-numbered comparison of the first-passage-time formula',
        'text': 'Necessary structural conditions: subgraph centrality sums v_ik^2 exp(lambda_k) over an orthonormal (eigh) basis of the input; the eigenvector '
                'returned is |column argmax(eigenvalues)| of one decomposition; findwalks stores A^q in slot q, each slot once; PageRank uses column sums with '
                'zero degrees replaced before inversion, I - d A D^-1, (1-d) f/sum f, and normalises; mean first passage time is (diag(Z) - Z)/W with '
                'Z = inv(I - P + W); diffusion efficiency is its reciprocal, diagonal zeroed, divided by n^2 - n.',
        'note': 'The validity of the fundamental-matrix formula, conditioning, the degenerate stationary eigenvalue and the eigenvector for a repeated top '
                'eigenvalue are not decided.',
    },
    'C20': {
        'engine': 'obligations + const/dtype absint',
        'technique': 'AST patterns over candidate-mask / permutation-prefix construction, constant propagation through the ring-lattice band counter, dtype-kind abstract interpretation of index arrays, symbolic cell/edge-table interpretation of the stub-matching repair block',
        'text': 'For every (N, K) and every draw: candidate cells exclude the diagonal; the cells set are the first K entries of a permutation of all candidates '
                '(distinct => exactly K); makerandCIJ_und mirrors an upper-triangular fill once; rejection loops leave only through the exact-count test; '
                'the reported fractal count is np.sum of the returned matrix; ring-lattice offsets start at 1 / n-1, one band per iteration, coinciding '
                'bands clipped, excess removed from distinct cells of the last band; stub tables are integer and built from the degree vectors; the repair '
                'step leaves matrix and edge table coherent whether the partner edge was already placed or not.',
        'note': 'Feasibility/termination of stub matching and rejection sampling, and uniformity, are not decided. Power-of-two preconditions of the '
                'hierarchical generators are not checked.',
    },
    'C09': {
        'engine': 'valnum + obligations',
        'technique': 'inf-taint analysis, dtype-kind abstract interpretation, guard dominance, value numbering + sympy normal form against the published definitions',
        'text': 'For the nine clustering/transitivity routines: arrays that receive np.inf via a mask store may only be used as element-wise divisors of the '
                'returned per-node quotient and never reach a reduction; the mask is keyed on "triangle count == 0" and precedes the division in every '
                'per-node routine and is absent from every transitivity routine; the masked array is float-kinded on every path; clustering_coef_bu '
                'divides only under k >= 2; the value-numbered result terms equal the Watts-Strogatz / Fagiolo / Onnela definitions after inlining, '
                'matrix-product flattening and algebraic normalisation; cuberoot is sign-preserving.',
        'note': 'Equality with an explicit enumeration of node triples on numbers and the [0,1] range are not decided. The formula comparison recognises '
                're-association, temporaries, @ vs np.dot and dtype casts; a genuinely different but equivalent algorithm would be reported and needs the '
                'reference table extended. The zhang/costantini branches of clustering_coef_wu_sign are covered by the taint/mask/dtype rules only.',
    },
    'C16': {
        'engine': 'obligations',
        'technique': 'conservation obligations on the union-merge loop (CFG dominance, exhaustive if/else over every existing set, no early exit), def-use of labels/sizes, who-may-call',
        'text': 'get_components: asymmetric input raises before any work; binarised copy with full diagonal seeds every node; the edge list covers every nonzero '
                'cell; in each pass every existing set is merged (iff it shares a node) or carried, no early exit, item appended once after the pass, carried '
                'list replaces the sets; labels = position+1 and sizes = lengths of that same list; number_of_components = number of sizes; consumers resolve '
                'to these routines. With these premises the sets are the connected components for every graph and edge order (induction over edges).',
        'note': 'The induction itself is a cited argument, not mechanised. Agreement with distance_bin/breadthdist/reachdist is not decided (different algorithms).',
    },
    'C02': {
        'engine': 'labels + obligations',
        'technique': 'label typestate dataflow (RAW/CANON/CANON+1/GAPPY) over the CFG; must-pass-through of q recomputation after label writes; AST templates for the modularity formulas incl. gamma factor of every null term; level-loop rebinding; index-space product dataflow of the label composition; qtype scaling table (sympy) with CFG reaching definitions of the sign totals',
        'text': 'All ten detectors: returned labels have typestate canonical+1 at every return (valid 1..k partition for every input and seed); every '
                'label write is followed on all paths by a recomputation of the returned q, whose aggregate is built from the canonical labels of the '
                'same level; q has the definitional form with gamma on every degree-product term and out x in orientation; hierarchical outputs use '
                'one index for labels and q; each level continues on the aggregated matrix; label composition across levels stays in one index space and uses a '
                'snapshot mask; for the four signed routines (d0, d1) equals the documented scaling of each qtype and is derived from the plain totals of '
                'each sign (the substitution for an absent sign comes afterwards).',
        'note': 'Does not decide floating-point accuracy of q, nor that NumPy mask sums pool the right cells beyond the mask expressions being the '
                'canonical label tests. modularity_louvain_dir never hands W1 to the next level: KNOWN-FINDING (repair blocked by pinned tests).',
    },
    'C07': {
        'engine': 'accforms',
        'technique': 'accumulator-form inference (init form vs update-implied form, orientation-aware), paired-update / guard dominance obligations, sympy normal form of the gain halves',
        'text': 'Premises of the monotonicity argument for the 7 greedy optimisers, for every input, start partition and visiting order: accumulators '
                'keep the sums their initialisation defines (forms agree, orientation checked for _dir), updates are paired with identical operands '
                'inside the single block guarded by gain > eps > 0 together with the label store, the current module is excluded before max/argmax, '
                'gain halves have the canonical Delta-Q shape with crossed in/out degrees, levels are accepted only while q rises, the objective of '
                'community_louvain is symmetric before moves.',
        'note': 'Floating-point cancellation near eps and termination are not decided. Undirected routines are compared modulo transposition '
                '(symmetric input assumed). modularity_louvain_dir orientation errors: KNOWN-FINDING (repair blocked by pinned tests).',
    },
    'C14': {
        'engine': 'labels',
        'technique': 'label taint dataflow with an explicit list of label-safe uses; sympy check of the VI/MI formulas and their x<->y symmetry; index-kind rule; early-exit scan of loops over modules',
        'text': 'For the 18 partition parameters in scope: a raw label value can reach only label-safe operations before np.unique(..., return_inverse=True); '
                'everything label-dependent runs on canonical labels, which are a function of the partition alone, hence invariance under every injective '
                'relabelling. partition_distance: injective pairing of canonical labels, entropies on per-label histograms, VIn/MIn of the documented '
                'form and symmetric. ci2ls/ls2ci structure. The 20 loops that enumerate modules are never left early (the order of canonical numbers is the one '
                'label-dependent fact left after canonicalisation).',
        'note': 'Values of VI/MI and the [0,1] range are not decided. Two index-kind defects in gateway_coef_sign are KNOWN-FINDINGs (repair changes '
                'values pinned by test_gateway_coef).',
    },
    'C01': {
        'engine': 'swapkernel',
        'technique': 'typestate abstract interpretation of one rewiring attempt (symbolic cells / edge-list slots / inequality facts) on every path; def-use and dominance obligations',
        'text': 'For all 10 rewiring kernels, on every path through one attempt: rows/columns (nodes) lose and gain equally many entries, written '
                'values are a permutation of removed ones, every created cell was tested empty, all endpoints provably distinct, writes mirrored '
                '(undirected), weights stay in their row (directed), edge list names exactly the new edges, rejecting paths change nothing, counter '
                'counts accepts. Induction base (edge list = support of the final working copy), copy-before-write, returned object, and the '
                'inverse-permutation undo of the latticisers are separate obligations. Holds for every input in the domain and every random trajectory.',
        'note': 'Assumes the documented domain (empty diagonal, symmetric input for _und). Not decided: termination, uniformity of sampling, behaviour '
                'for inputs with self-connections. randomizer_bin_und: mask/restore logic is checked as paired statements, not by value.',
    },
    'C06': {
        'engine': 'swapkernel + sign absint',
        'technique': 'typestate analysis with sign-class union-find for the signed kernels; sign abstract interpretation (NEG/ZERO/POS lattice with mask facts) of the weight-dealing loop; who-may-call; pattern match of the correlation definitions',
        'text': 'Signed swap kernels: every row and column keeps its multiset of sign classes, the four values are permuted exactly, mirrored / row-local. '
                'Null models: on the branch for sign s the value written has sign s and the target cells come from the rewired support of sign s; '
                'each dealt index is consumed exactly once (slice of a permutation, deleted after the round); _dir routines call only _dir rewirers; '
                'the four returned correlations match their definition and in/out order.',
        'note': 'Not decided: how high the strength correlations are, the P re-weighting heuristic (it only influences which weight lands where). '
                'Counting argument |cells| == |weights| relies on the sign-degree preservation shown for the rewirers.',
    },
    'C11': {
        'engine': 'swapkernel + obligations',
        'technique': 'CFG dominance of precondition raises; flag-gating typestate; structural exits of the reachability loop; lattice guard compared (sympy normal form) with removed/created cost derived from the abstract swap; mask-tested facts on created cells; set-up obligations of the connectivity search (visited mask, frontier expansion, accumulation)',
        'text': 'Preconditions of the undirected _connected routines dominate every draw and write; all matrix writes of the four _connected kernels are '
                'gated by the veto flag, reset per attempt, cleared exactly on the stalled-frontier exit, the search loop has two exits and is skipped '
                'only under the stated shortcut; the visited mask blocks the tails of the removed edges for both frontiers from the start, each frontier expands along '
                'the rows of its own members and the mask accumulates it; the lattice guard equals old-cost >= new-cost for the cells the swap touches; cells created by '
                'randomize_graph_partial_und were tested zero in the mask.',
        'note': 'That the frontier expansion decides connectivity is a graph lemma not mechanised here: "output connected" is NOT claimed, only that '
                'every accepted swap passed the test and the test cannot be bypassed. D (and the mask) are assumed symmetric for undirected routines.',
    },
    'C13': {
        'engine': 'alias',
        'technique': 'interprocedural may-alias / may-mutate dataflow over statement CFGs (ast), flow-sensitive, copy-flag path pruning',
        'text': 'For each of the ~155 public functions and each parameter: no path, in the function or in any resolved callee, writes memory that '
                'may alias the parameter while the documented `copy` flag has its default. Abstract value = set of parameters a variable may '
                'share memory with, under an explicit NumPy view/copy table; a violation names the write site and call chain. Decides the whole '
                'property (for all inputs) relative to that table.',
        'note': 'Trusted base: the view/copy/writer table of NumPy primitives printed in the evidence; external NumPy/SciPy functions outside the '
                'writer list are assumed not to modify their arguments; index expressions of unknown kind are treated as views (errs towards '
                'reporting). Mutation through objects stored in Python containers one level deep is tracked; deeper nesting is not.',
    },
    'C17': {
        'engine': 'alias + obligations',
        'technique': 'copy/identity typestate (alias engine, both copy modes), CFG dominance, name resolution, sympy formula canonicalisation, AST patterns with metavariables',
        'text': 'Necessary structural conditions on every path: copy=True leaves the argument untouched and returns fresh memory; copy=False returns '
                'the argument object itself, which is the object written; range precondition dominates all effects; diagonal clear dominates every '
                'return; `round` resolves to teachers_round; the one statement that thresholds zeroes W at (rows[order][en:], cols[order][en:]) with rows/cols the two '
                'components of np.where(W) taken after the triangle removal, order the descending argsort of exactly those entries and en = '
                'int(round(X)) where X canonicalises to (n^2-n)p/ud (local names resolved through their single definitions); symmetric branch zeroes a triangle, halves the '
                'count and rebuilds W+W.T by slice store; element-wise masks of binarize/normalize/invert/threshold_absolute have the documented '
                'form and nothing else writes W; weight_conversion dispatch equals its docstring table.',
        'note': 'Does not decide: which entries argsort ranks first among ties, exact counts produced by floating-point p*count beyond the use of '
                'teachers_round, or numerical values. Mask forms are matched up to the listed equivalent spellings; a different but equivalent '
                'algorithm would be reported (fail-closed) and needs the table extended.',
    },
    'C05': {
        'engine': 'callgraph',
        'technique': 'interprocedural RNG effect analysis (ast + resolved call graph + dominators)',
        'text': 'Whole-package effect discipline: every seed-accepting function binds get_rng(seed) once, outside loops, dominating all '
                'draws; every draw is on that local generator; nested seed-accepting callees receive the generator object; the resolved '
                'callee closure contains no use of numpy/stdlib global generators, unseeded generator constructors, time/uuid/urandom; '
                'get_rng is checked branch by branch. These premises imply all four clauses for every input and seed.',
        'note': 'Assumes NumPy RandomState methods are deterministic functions of the object state and that name resolution through the '
                'package import tables is faithful (no exec/getattr dispatch: such constructs are reported). Does not decide determinism of '
                'floating-point reductions or of multiprocessing scheduling in nbs_parallel (results there are reassembled by index).',
    },
}
