NOTES = ('Static analysis only: every check parses /repo/bct with ast on each run (no import of bct, no execution, no solver). '
         'Exit 0 = all obligations discharged or matched a listed known finding; 1 = VIOLATION; 2 = ANALYSIS-ERROR '
         '(anchor vanished / rule matched fewer sites than its floor / self-test found a blind or noisy rule).')

ENGINES = [
    {'name': 'core', 'path': 'sa/core', 'serves_properties': [], 'kind_free_text': 'ast loader, import/call resolution, statement CFG with dominators, report/evidence'},
    {'name': 'callgraph', 'path': 'sa/engines/callgraph.py', 'serves_properties': ['C05', 'C13'], 'kind_free_text': 'whole-package call graph over resolved callees'},
    {'name': 'selftest', 'path': 'sa/selftest.py', 'serves_properties': [], 'kind_free_text': 'thorough tier: breaking and neutral source variants in a temp copy; blind/noisy rule => exit 2'},
]

PENDING = 'check not built yet in this session; see DESIGN.md section 5 for the planned static rule'
NOT_APPLICABLE = {('C%02d' % i): PENDING for i in range(1, 21)}

CHECKS = {
    'C05': {
        'engine': 'callgraph',
        'technique': 'interprocedural RNG effect analysis (ast + resolved call graph + dominators)',
        'text': 'Whole-package effect discipline: every seed-accepting function binds get_rng(seed) once, outside loops, dominating all '
                'draws; every draw is on that local generator; nested seed-accepting callees receive the generator object; the resolved '
                'callee closure contains no use of numpy/stdlib global generators, unseeded generator constructors, time/uuid/urandom; '
                'get_rng is checked branch by branch. These premises imply all four clauses for every input and seed.',
        'note': 'Assumes NumPy RandomState methods are deterministic functions of the object state and that name resolution through the '
                'package import tables is faithful (no exec/getattr dispatch: such constructs are reported). Does not decide determinism of '
                'floating-point reductions or of multiprocessing scheduling in nbs_parallel (results there are reassembled by index).',
    },
}
