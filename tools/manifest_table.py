NOTES = ('Static analysis only: every check parses /repo/bct with ast on each run (no import of bct, no execution, no solver). '
         'Exit 0 = all obligations discharged or matched a listed known finding; 1 = VIOLATION; 2 = ANALYSIS-ERROR '
         '(anchor vanished / rule matched fewer sites than its floor / self-test found a blind or noisy rule).')

ENGINES = [
    {'name': 'core', 'path': 'sa/core', 'serves_properties': [], 'kind_free_text': 'ast loader, import/call resolution, statement CFG with dominators, report/evidence'},
    {'name': 'callgraph', 'path': 'sa/engines/callgraph.py', 'serves_properties': ['C05', 'C13'], 'kind_free_text': 'whole-package call graph over resolved callees'},
    {'name': 'alias', 'path': 'sa/engines/alias.py', 'serves_properties': ['C13', 'C17', 'C01'], 'kind_free_text': 'may-alias/may-mutate abstract interpretation with interprocedural summaries'},
    {'name': 'pattern+canon', 'path': 'sa/core/pattern.py', 'serves_properties': ['C17'], 'kind_free_text': 'AST templates with metavariables; sympy normal forms (term rewriting, no evaluation)'},
    {'name': 'selftest', 'path': 'sa/selftest.py', 'serves_properties': [], 'kind_free_text': 'thorough tier: breaking and neutral source variants in a temp copy; blind/noisy rule => exit 2'},
]

PENDING = 'check not built yet in this session; see DESIGN.md section 5 for the planned static rule'
NOT_APPLICABLE = {('C%02d' % i): PENDING for i in range(1, 21)}

CHECKS = {
    'C13': {
        'engine': 'alias',
        'technique': 'interprocedural may-alias / may-mutate dataflow over statement CFGs (ast), flow-sensitive, copy-flag path pruning',
        'text': 'For each of the ~155 public functions and each parameter: no path, in the function or in any resolved callee, writes memory that '
                'may alias the parameter while the documented `copy` flag has its default. Abstract value = set of parameters a variable may '
                'share memory with, under an explicit NumPy view/copy table; a violation names the write site and call chain. Decides the whole '
                'property (for all inputs) relative to that table.',
        'note': 'Trusted base: the view/copy/writer table of NumPy primitives printed in the evidence; external NumPy/SciPy functions outside the '
                'writer list are assumed not to modify their arguments; index expressions of unknown kind are treated as views (errs towards '
                'reporting). Mutation through objects stored in Python containers one level deep is tracked; deeper nesting is not.',
    },
    'C17': {
        'engine': 'alias + obligations',
        'technique': 'copy/identity typestate (alias engine, both copy modes), CFG dominance, name resolution, sympy formula canonicalisation, AST patterns with metavariables',
        'text': 'Necessary structural conditions on every path: copy=True leaves the argument untouched and returns fresh memory; copy=False returns '
                'the argument object itself, which is the object written; range precondition dominates all effects; diagonal clear dominates every '
                'return; `round` resolves to teachers_round; kept-count canonicalises to (n^2-n)p/ud; symmetric branch zeroes a triangle, halves the '
                'count and rebuilds W+W.T by slice store; element-wise masks of binarize/normalize/invert/threshold_absolute have the documented '
                'form and nothing else writes W; weight_conversion dispatch equals its docstring table.',
        'note': 'Does not decide: which entries argsort ranks first among ties, exact counts produced by floating-point p*count beyond the use of '
                'teachers_round, or numerical values. Mask forms are matched up to the listed equivalent spellings; a different but equivalent '
                'algorithm would be reported (fail-closed) and needs the table extended.',
    },
    'C05': {
        'engine': 'callgraph',
        'technique': 'interprocedural RNG effect analysis (ast + resolved call graph + dominators)',
        'text': 'Whole-package effect discipline: every seed-accepting function binds get_rng(seed) once, outside loops, dominating all '
                'draws; every draw is on that local generator; nested seed-accepting callees receive the generator object; the resolved '
                'callee closure contains no use of numpy/stdlib global generators, unseeded generator constructors, time/uuid/urandom; '
                'get_rng is checked branch by branch. These premises imply all four clauses for every input and seed.',
        'note': 'Assumes NumPy RandomState methods are deterministic functions of the object state and that name resolution through the '
                'package import tables is faithful (no exec/getattr dispatch: such constructs are reported). Does not decide determinism of '
                'floating-point reductions or of multiprocessing scheduling in nbs_parallel (results there are reassembled by index).',
    },
}
