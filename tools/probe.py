#!/usr/bin/env python3
"""Development aid: apply one of the behaviour-preserving transforms of sa/selftest.py at every site of every function a check reports on; list rules that fire.
usage: tools/probe.py <swap_independent|extract_temp|api_synonym|...> [max sites per function] [Cxx ...]"""
import os, shutil, sys, tempfile
from multiprocessing import Pool
here = os.path.dirname(os.path.dirname(os.path.abspath(__file__)))
sys.path.insert(0, here)
from sa.main import run_property
from sa import selftest
from sa.selftest import copy_tree


def job(a):
    pid, root, relpath, fname, which, base, tname = a
    _swap_independent = getattr(selftest, '_' + tname)
    tmp = tempfile.mkdtemp(prefix='sa-swap-')
    try:
        copy_tree(root, tmp)
        p = os.path.join(tmp, relpath)
        t2 = _swap_independent(fname, which, open(p).read())
        if t2 is None:
            return (pid, fname, which, 'n/a', [])
        open(p, 'w').write(t2)
        try:
            import warnings; warnings.simplefilter("ignore"); compile(t2, relpath, "exec")
        except SyntaxError:
            return (pid, fname, which, 'syntax', [])
        rep = run_property(pid, tmp, 'quick', 0, quiet=True, write_evidence=False)
        rep.finish(write_evidence=False)
        new = [(o.rule, o.function, o.construct[:60]) for o in rep.obs if o.status == 'violation' and (o.rule, o.function) not in base]
        return (pid, fname, which, 'err' if rep.errors else 'ok', new + [('ANALYSIS-ERROR', '', e[:100]) for e in rep.errors])
    finally:
        shutil.rmtree(tmp, ignore_errors=True)


def main():
    tname = sys.argv[1]
    nsites = int(sys.argv[2]) if len(sys.argv) > 2 and sys.argv[2].isdigit() else 6
    pids = [x for x in sys.argv[2:] if not x.isdigit()] or ['C%02d' % i for i in range(1, 21)]
    root = '/repo'
    jobs = []
    for pid in pids:
        rep = run_property(pid, root, 'quick', 0, quiet=True, write_evidence=False)
        rep.finish(write_evidence=False)
        base = {(o.rule, o.function) for o in rep.obs if o.status in ('violation', 'known')}
        fns = sorted({(o.module, part.strip()) for o in rep.obs for part in o.function.replace(' / ', '.').split('.')
                      if o.module.endswith('.py') and part.strip().isidentifier() and os.path.exists(os.path.join(root, o.module))})
        for (module, fn) in fns:
            for which in range(nsites):
                jobs.append((pid, root, module, fn, which, base, tname))
    with Pool(16) as pool:
        res = pool.map(job, jobs, chunksize=4)
    bad = 0
    tried = 0
    for pid, fn, which, st, new in res:
        if st != 'n/a':
            tried += 1
        if new:
            bad += 1
            print(pid, fn, which, st)
            for x in new[:3]:
                print('     ', x)
    print('tried %d edits; %d with new reports' % (tried, bad))


if __name__ == '__main__':
    main()
