"""usage: python3-vt tools/par_recheck.py [jobs]  -- every stored seeded change and behaviour-preserving refactoring is applied to its own scratch copy
of /repo's HEAD (under /tmp, removed afterwards), all claimed quick checks run against the copy (--root), and the outcome is compared with meta.json.
/repo itself is not touched.  Evidence files written meanwhile belong to scratch trees: rerun the checks on /repo afterwards."""
import json, os, re, shutil, subprocess, sys, tempfile
from concurrent.futures import ThreadPoolExecutor

CHECKS = [c['property_id'] for c in json.load(open('/verif/MANIFEST.json'))['checks']]


def job(arg):
    kind, name = arg
    out = '/verif/%s/%s' % (kind, name)
    meta = json.load(open(out + '/meta.json'))
    if 'obsolete_since' in meta:
        return kind, name, None, None
    d = tempfile.mkdtemp(prefix='rc-', dir='/tmp')
    try:
        subprocess.run('git -C /repo archive HEAD | tar -x -C %s' % d, shell=True, check=True)
        r = subprocess.run(['git', 'apply', out + '/patch.diff'], cwd=d, capture_output=True, text=True)
        if r.returncode:
            return kind, name, 'patch does not apply', None
        now = []
        for c in CHECKS:
            p = subprocess.run(['/verif/check', c, '--root', d], capture_output=True, text=True, env=dict(os.environ, VERIF_NO_EVIDENCE='1'))
            if p.returncode:
                rules = sorted(set(re.findall(r'rule=(\S+)', p.stdout)))
                now.append('%s(rc=%d:%s)' % (c, p.returncode, ','.join(rules)))
        was = sorted(re.sub(r'\(.*', '', x if x.startswith('C') else 'C' + x) + re.sub(r'^[^(]*(\(rc=\d).*', r'\1)', x) for x in (meta.get('checks_firing') or []) if x.strip())
        return kind, name, now, was
    finally:
        shutil.rmtree(d, ignore_errors=True)


if __name__ == '__main__':
    jobs = int(sys.argv[1]) if len(sys.argv) > 1 else 14
    args = [(k, n) for k in ('seeded', 'neutral') for n in sorted(os.listdir('/verif/' + k)) if os.path.isfile('/verif/%s/%s/patch.diff' % (k, n))]
    miss = alarms = 0
    with ThreadPoolExecutor(jobs) as ex:
        for kind, name, now, was in ex.map(job, args):
            if now is None:
                continue
            if isinstance(now, str):
                print('%s/%s: %s' % (kind, name, now)); continue
            short = sorted(re.sub(r':.*', ')', x) for x in now)
            if kind == 'seeded' and not any('rc=1' in x for x in now):
                miss += 1
                print('MISSED seeded/%s (now %s)' % (name, now))
            if kind == 'neutral' and now:
                alarms += 1
            if short != was:
                print('%s/%s: was %s now %s' % (kind, name, was, now))
    print('seeded changes not reported: %d; refactorings with a report: %d' % (miss, alarms))
